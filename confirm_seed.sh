#!/bin/bash
# usage: confirm_seed.sh <worktree> <PROPID> <seed-name>
# Confirms independently: baseline suite passes with the change, the demo fails with it and passes without it;
# then stores patch.diff, demo and meta.json under /verif/seeded/<seed-name>/.
set -u
wt="$1"; pid="$2"; name="$3"
out=/verif/seeded/$name
mkdir -p $out
cd "$wt" || exit 2
demo=tests/demo_$pid.rs
[ -f "$demo" ] || { echo "no demo"; exit 2; }
git diff -- src > $out/patch.diff
[ -s $out/patch.diff ] || { echo "empty patch"; exit 2; }
mv "$demo" /tmp/demo_$name.rs
base=$(cargo nextest run --workspace --no-fail-fast --tool-config-file pb:/w/lib/nextest.toml --profile pb --test-threads 8 --offline 2>&1 | grep -E "Summary" | tail -1)
mv /tmp/demo_$name.rs "$demo"
with=$(cargo test --offline --test demo_$pid 2>&1 | grep -E "^test result|error: test failed|panicked" | head -3 | tr '\n' ' ')
git apply -R $out/patch.diff
without=$(cargo test --offline --test demo_$pid 2>&1 | grep -E "^test result|error: test failed" | head -2 | tr '\n' ' ')
git apply $out/patch.diff
cp "$demo" $out/
python3 - "$out" "$pid" "$base" "$with" "$without" "$wt" <<'PY'
import json,sys,os
out,pid,base,w,wo,wt=sys.argv[1:]
meta={}
try: meta=json.load(open(os.path.join(wt,'meta.json')))
except Exception as e: meta={"note":"agent meta.json unreadable: %s"%e}
meta["confirmed_by_me"]={"baseline_with_change":base.strip(),"demo_with_change":w.strip(),"demo_without_change":wo.strip()}
json.dump(meta,open(os.path.join(out,'meta.json'),'w'),indent=1)
print(json.dumps(meta["confirmed_by_me"],indent=1))
PY
