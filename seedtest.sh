#!/bin/bash
# usage: seedtest.sh <patch.diff> <prop> [prop...]   -- applies a seeded change to /repo, runs the quick checks, reverts
set -u
patch="$1"; shift
cd /repo && git status --short | grep -q . && { echo "repo not clean"; exit 2; }
git -C /repo apply "$patch" || { echo "patch does not apply"; exit 2; }
# evidence files must only ever describe runs on the unchanged tree: keep them aside
bak=$(mktemp -d /tmp/evbak.XXXXXX); cp -a /verif/evidence/. $bak/
for p in "$@"; do
  echo "=== $p"
  (cd /verif && VERIF_SECS=${VERIF_SECS:-55} ./check $p --tier ${TIER:-quick} 2>&1 | grep -E "^VIOLATION|^KNOWN|^MACHINERY|quick:|thorough:|^  " | head -${LINES_MAX:-9} | cut -c1-400)
done
git -C /repo checkout -- . 
rm -rf /verif/evidence; mkdir -p /verif/evidence; cp -a $bak/. /verif/evidence/; rm -rf $bak
git -C /repo status --short
