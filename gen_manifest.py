#!/usr/bin/env python3
"""Regenerates MANIFEST.json from the table below (kept as a script so that the file stays schema-valid)."""
import json, os
ROOT = os.path.dirname(os.path.abspath(__file__))

ARENA_NOTE = ("Bounded: operation alphabet, depth, configuration matrix (quick: pairwise covering array of the settings x allocator kinds, "
              "thorough: complete product), run parameters (handle kind, constructor, substrate phase / over-granting) as recorded in the evidence. "
              "Trusted: the instrumented base allocator and the shadow model in harness/vcore. Reads of foreign memory are not observable, writes are.")

CHECKS = {
    "C01": dict(engine="arena-mc", ref="§3 C01", technique="explicit-state exploration of the real arena (all operation histories up to a depth bound) with a shadow model oracle",
                text="Every enabled history over a 31-symbol allocator-API alphabet (allocate/grow/shrink/deallocate/split/typed/prepare+commit/reserve/scopes/checkpoints/reset) up to depth 4 (quick) is executed on the real Bump for 45 configurations x 12 run-parameter sets; after the last step of every history every live block must be inside a granted chunk, aligned, at least as large as requested and disjoint from every other live block."),
    "C02": dict(engine="arena-mc", ref="§3 C02", technique="explicit-state exploration of the real arena with byte-pattern / scrubbed-dead-memory oracle",
                text="Same exploration as C01 with a content oracle: every live block carries a unique byte pattern that is re-read after every history; realloc results must carry the old prefix, zeroed memory must read zero although dead memory is scrubbed to 0xDD after every step, and no dead byte or canary may change."),
    "C10": dict(engine="arena-mc", ref="§3 C10", technique="explicit-state exploration of the real arena with statistics-coherence invariants checked in every reached state",
                text="Same exploration as C01; in the state reached by every history stats() and any_stats() (static and through the handle under test) must agree and satisfy the position / chunk-list / size identities, cross-checked against the base-allocator log, for zero-sized, stateful and over-aligned allocator values."),
}

NOT_YET = {}

def main():
    checks = []
    for pid, c in sorted(CHECKS.items()):
        checks.append({
            "property_id": pid,
            "quick_cmd": f"./check {pid} --tier quick",
            "thorough_cmd": f"./check {pid} --tier thorough",
            "evidence_file": f"/verif/evidence/{pid}.json",
            "replay_cmd_template": f"./check {pid} --replay {{path}}",
            "engine": c["engine"],
            "level_claimed": {"category": c.get("category", "model_checking"), "text": c["text"], "design_ref": c["ref"]},
            "level_note": c.get("note", ARENA_NOTE),
            "technique": c["technique"],
        })
    props = [json.loads(l)["id"] for l in open(os.path.join(ROOT, "properties.jsonl"))]
    na = [{"property_id": p, "reason": NOT_YET.get(p, "check under construction in this round; not claimed until its engine has been shown to detect a seeded defect")} for p in props if p not in CHECKS]
    m = {
        "version": 1,
        "setup_cmd": "./check --build",
        "hooks": {
            "guard": "--cfg bump_scope_verif",
            "enable": "RUSTFLAGS='--cfg bump_scope_verif' in harness/pool-loom only (own target directory); all other engines build /repo as shipped",
            "baseline_off_cmd": "cd /repo && cargo nextest run --workspace --no-fail-fast --tool-config-file pb:/w/lib/nextest.toml --profile pb --test-threads 8 --offline",
            "source_commits": [],
            "add_only": True,
        },
        "engines": [
            {"name": "arena-mc", "path": "harness/arena-mc", "serves_properties": [p for p in sorted(CHECKS) if CHECKS[p]["engine"] == "arena-mc"], "kind_free_text": "explicit-state exploration of real Bump/BumpScope over an instrumented deterministic base allocator"},
        ],
        "checks": checks,
        "not_applicable": na,
        "notes": "see DESIGN.md; known_findings.json lists fixed and open findings",
    }
    with open(os.path.join(ROOT, "MANIFEST.json"), "w") as f:
        json.dump(m, f, indent=1)

if __name__ == "__main__":
    main()
