#!/usr/bin/env python3
"""Regenerates MANIFEST.json from the table below (kept as a script so that the file stays schema-valid)."""
import json, os
ROOT = os.path.dirname(os.path.abspath(__file__))

ARENA_NOTE = ("Bounded: operation alphabet, depth, configuration matrix (quick: pairwise covering array of the settings x allocator kinds, "
              "thorough: complete product), run parameters (handle kind, constructor, substrate phase / over-granting) as recorded in the evidence. "
              "Trusted: the instrumented base allocator and the shadow model in harness/vcore. Reads of foreign memory are not observable, writes are.")

CHECKS = {
    "C01": dict(engine="arena-mc", ref="§3 C01", technique="explicit-state exploration of the real arena (all operation histories up to a depth bound) with a shadow model oracle",
                text="Every enabled history over a 31-symbol allocator-API alphabet (allocate/grow/shrink/deallocate/split/typed/prepare+commit/reserve/scopes/checkpoints/reset) up to depth 4 (quick) is executed on the real Bump for 45 configurations x 12 run-parameter sets; after the last step of every history every live block must be inside a granted chunk, aligned, at least as large as requested and disjoint from every other live block."),
    "C02": dict(engine="arena-mc", ref="§3 C02", technique="explicit-state exploration of the real arena with byte-pattern / scrubbed-dead-memory oracle",
                text="Same exploration as C01 with a content oracle: every live block carries a unique byte pattern that is re-read after every history; realloc results must carry the old prefix, zeroed memory must read zero although dead memory is scrubbed to 0xDD after every step, and no dead byte or canary may change."),
    "C10": dict(engine="arena-mc", ref="§3 C10", technique="explicit-state exploration of the real arena with statistics-coherence invariants checked in every reached state",
                text="Same exploration as C01; in the state reached by every history stats() and any_stats() (static and through the handle under test) must agree and satisfy the position / chunk-list / size identities, cross-checked against the base-allocator log, for zero-sized, stateful and over-aligned allocator values."),
}

CHECKS.update({
    "C03": dict(engine="arena-mc", ref="§3 C03", technique="explicit-state exploration of the real scope/guard/checkpoint APIs with exact-restore and replay-needs-no-memory oracles",
                text="Every well-nested history over 7 region kinds (scoped, scoped_aligned, guard drop, guard reset, checkpoint/reset_to, claim, aligned) x exits by return and by unwinding x workload operations (incl. chunk-spanning allocations, alloc_try_with(_mut) -> Err, reset, reset_to_start) up to depth 5 (quick) on 45 configurations; at every scope end allocated(), position and current chunk must equal the entry snapshot, and every closed scope body is re-executed in a fresh scope with the same concrete requests and must not reach the base allocator."),
    "C05": dict(engine="arena-mc", ref="§3 C05", category="fault_enumeration", technique="explicit-state exploration of the real arena with exhaustive base-allocator fault-set enumeration, judged from the allocator log",
                text="Every history over the chunk-affecting alphabet up to the depth bound followed by drop (or into_raw/from_raw + drop), x constructors (try_new, unallocated, with_size, with_capacity) and, for each history, every base-allocator fault set of bounded size; the instrumented base allocator's log must show every granted block released exactly once with a fitting layout by the granting allocator identity, canaries and poison intact, reset/reset_to_start/scope exits releasing exactly what the property says."),
    "C07": dict(engine="arena-mc", ref="§3 C07 (arena part)", category="fault_enumeration", technique="explicit-state exploration of the real arena with exhaustive base-allocator fault-set enumeration; all state oracles stay on after the failure",
                text="Arena part of C07: every history over the try_/allocator-interface alphabet (incl. requests whose size overflows) up to the depth bound and, for each, every base-allocator fault set of bounded size (call indices counted from construction, so failures while unallocated, while switching chunks and while claimed are covered); a refused request must surface as Err without panic, and the containment, content, statistics and release oracles must keep holding for the rest of the history and at drop."),
    "C12": dict(engine="arena-mc", ref="§3 C12 (arena part)", technique="explicit-state exploration of every chunk-creating route of the real arena with a fits-in-the-new-chunk oracle",
                text="Arena part of C12: every history over the chunk-creating alphabet (slow path of allocate / typed slices / prepare, reserve, first allocation of an unallocated arena, with_capacity / with_size constructors, alignments up to 4096) x exact and over-granting substrates; a request that reaches the base allocator must add exactly one chunk, be served from it, and the new chunk must be at least twice the previous one less 16 bytes."),
    "C13": dict(engine="arena-mc", ref="§3 C13", technique="explicit-state exploration of the real arena through every handle kind with reclaim / no-reclaim oracles and a re-allocation probe",
                text="Every history over an allocate/grow/shrink/shrink_slice/deallocate alphabet up to depth 4 (quick) through all 9 handle kinds; allocated() may only decrease by reclaiming the block that touches the bump position, never when deallocation / shrinking is disabled by a setting or wrapper, and after deallocating the most recent allocation the same request must return the same address (probe executed after the last operation); growing it upwards with room must stay in place."),
    "C14": dict(engine="arena-mc", ref="§3 C14", technique="explicit-state exploration interleaving operations on the real claim guard and on the claimed original",
                text="Every history interleaving guard operations (allocation, chunk growth, inner scopes, nested claims, exit by return or unwinding, claim on an unallocated arena) with 12 kinds of operations on the claimed original up to depth 4 (quick): memory requests on the original must fail in the documented way (Err / unwinding panic), dealloc/shrink must do nothing, stats must be all zero, nothing may reach the base allocator or move the guard's arena, and after the guard is gone the original continues exactly where the guard stopped."),
    "C18": dict(engine="arena-mc", ref="§3 C18", technique="explicit-state exploration of nested aligned/scoped_aligned/scoped regions of the real arena with position-alignment and data-integrity oracles",
                text="Every history nesting aligned::<N>, scoped_aligned::<N> and scoped for every (outer, inner) pair of supported minimum alignments up to depth 5 (quick) with allocations whose sizes are not multiples of N, chunk switches while lowered, deallocation and exits by return / unwinding; the position must be a multiple of N at entry and after every allocation, a multiple of the outer alignment after aligned, blocks made before / inside / after must stay disjoint and intact."),
})

CHECKS.update({
    "C11": dict(engine="pure-mc", ref="§3 C11", technique="exhaustive enumeration of a boundary lattice of inputs of the real bump functions against an unbounded-integer specification",
                note="Bounded input lattice (listed in the evidence) enumerated completely; functions compiled from /repo/src/bumping.rs by #[path]; the i128 specification in harness/pure-mc is trusted; hint wiring into RawBump is covered by C17's typed-vs-generic lock-step.",
                text="bump_up, bump_down, bump_prepare_up and bump_prepare_down, compiled from the repository's own source file with debug assertions and overflow checks, are evaluated on the complete product of window bases (next to 0, 2^31, 2^47, 2^63, top of the address space) x start offsets x capacities (incl. the negative-capacity dummy ranges) x sizes x power-of-two alignments x minimum alignments x all truthful hint triples, and compared with an i128 specification (fits iff a suitably aligned block exists; nearest block; new position; hint independence; no overflow/panic)."),
    "C15": dict(engine="mutcoll-mc", ref="§3 C15", technique="explicit-state exploration of exclusive-borrow collection life cycles on the real arena with per-phase position snapshots",
                text="For every prelude of <= 2 operations and every life cycle in the parameter space {MutBumpVec, MutBumpVecRev, MutBumpString, alloc_iter_mut(_rev), alloc_fmt_mut, alloc_cstr_fmt_mut} x 6 element layouts x capacity x pushes (beyond two chunk capacities) x reserve/extend with wrong size hints x end {drop, unwind from a user callback, finalise}, the bump position of every chunk is recorded at every phase: it must not move while filling or after drop/unwind, finalising may advance exactly one chunk by at most contents + alignment padding, and the result must hold exactly the pushed elements (reversed for rev) inside the bytes the position moved over."),
    "C17": dict(engine="arena-mc", ref="§3 C17", technique="explicit-state exploration in lock-step: every history through a reference and 12 alternative entry points, comparing per-step observable effects",
                text="Every history over a 27-symbol alphabet up to depth 4 (quick) is executed through the reference entry point and through 12 alternatives (&, &&, WithoutDealloc, WithoutShrink, both nestings, dyn BumpAllocatorCoreScope, dyn BumpAllocatorCore, panicking twins, generic layout path instead of typed fast paths, BumpScope by value instead of Bump) from identical initial states on a deterministic substrate; after every step the chunk index and offset of the returned block, its layout, allocated(), count() and remaining() must agree. The known divergence of trait-object reserve is reported as KNOWN-FINDING."),
})
CHECKS["C19"] = dict(engine="pool-loom", ref="§3 C19", technique="loom: exhaustive (DPOR) exploration of all thread interleavings of the real BumpPool under a controlled scheduler",
    note="loom explores sequentially consistent interleavings at the pool's mutex operations, complete for the listed thread/round counts unless a preemption bound is given; memory of the arenas is not routed through loom cells (exclusive use is established by the identity oracle); requires the cfg hook that swaps the pool's Mutex for loom's.",
    text="The real BumpPool, built with the cfg hook so that its Mutex is loom's, is driven by 2-4 threads x 1-4 rounds of get / try_get / get_with_size / get_with_capacity -> allocate a patterned slice with the pool's lifetime -> drop guard (also with a guard held across a second get), then reset / reset_to_start / drop. In every schedule: no arena identity is held by two live guards, arenas created <= peak of simultaneously outstanding gets, every slice ever allocated still carries its pattern after all guards are gone, reset leaves one empty chunk per arena and releases the rest, reset_to_start releases nothing, drop leaves nothing outstanding in the instrumented base allocator.")
CHECKS["C06"] = dict(engine="coll-mc", ref="§3 C06", category="fault_enumeration", technique="exhaustive operation-sequence exploration of the real collections with a panic injected at every user-callback invocation, judged by a registry of drop counts",
    note="Bounds: depth 2, initial lengths 0..4, state-dependent alphabet (all indices/ranges, iterator consumption patterns incl. forget / keep_rest), 5 collection types x sized/zero-sized elements x 4 arena configurations; at most one injected panic per run. Trusted: the element registry in harness/coll-mc/src/elem.rs.",
    text="For every history of vector operations on BumpVec, MutBumpVec, MutBumpVecRev, FixedBumpVec and BumpBox<[T]> (sized and zero-sized elements) one run is made per user-callback invocation (Clone, closures, predicates, Iterator::next) with a panic injected exactly there, and again with Drop::drop counted as a callback; after the collection and everything moved out of it are gone every value ever created must have been dropped exactly once (never twice, never used after being moved out; leaks only after a Drop panic or an explicit forget).")
CHECKS["C08"] = dict(engine="coll-mc", ref="§3 C08", technique="exhaustive operation-sequence exploration of the real vector types in lock-step with std::vec::Vec as reference model",
    note="Bounds: depth 3 (quick), initial lengths, state-dependent alphabet with every index and range incl. one out-of-range value each, 5 collection types x sized/zero-sized elements x 4 arena configurations (16-byte first chunk so growth crosses chunks). The mirrored model of MutBumpVecRev follows its documentation.",
    text="Every history of the public mutating and observing operations (push/insert/remove/swap_remove/pop/pop_if/truncate/clear/resize/resize_with/extend*/append from 5 owned-slice sources/drain/splice/extract_if/retain/dedup*/split_off/reserve*/shrink*/into_parts round trip/into_iter from both ends/map/map_in_place) up to the depth bound is executed on the real collection and on std Vec; after every operation return value, contents, length and panic/no-panic must agree, capacity >= len and >= every outstanding reserve promise, the buffer must not move while the capacity suffices, fixed vectors never change buffer or capacity and fail when full, zero-sized element vectors report unlimited capacity.")
CHECKS["C09"] = dict(engine="str-mc", ref="§3 C09", technique="exhaustive operation-sequence exploration of the real string types in lock-step with std::string::String, plus exhaustive enumeration of decoder and C-string inputs",
    note="Bounds: depth 2 (quick) / 3 (thorough), 6 initial strings over 1-4 byte characters and NUL, every byte index 0..=len+1, byte strings of length <= 4 over a 14-byte alphabet, u16 strings of length <= 4 over 8 code units, C-string texts of length <= 4; model = std String driven through the same operation macros.",
    text="BumpString, MutBumpString, FixedBumpString and BumpBox<str> are driven through every operation sequence up to the depth bound with every byte index (boundary or not) and compared with std String after every operation (value, contents, len, panic parity, UTF-8 validity even after a panic, capacity >= len, earlier split-off pieces intact); from_utf8 / from_utf8_lossy / from_utf16(_lossy) are compared with std on all inputs of the bounded alphabets incl. error positions; all C-string constructors are checked on all bounded texts with embedded NULs.")
CHECKS["C16"] = dict(engine="coll-mc", ref="§3 C16", technique="exhaustive enumeration of split operations, ranges and follow-up operation sequences on the real owned-slice types with a partition oracle",
    note="Bounds: lengths 0..4 (quick) / 0..5, extra capacity 0..2, every range incl. invalid ones, follow-up depth 2 (quick) / 3 over 21 follow-up operations, sized and zero-sized elements, 4 arena configurations. String split_off pieces are covered by C09's engine.",
    text="Every split operation (split_off with every start/end pair, split_at, split_first/last, split_off_first/last, partition, split_at_spare, map_in_place) on BumpBox<[T]>, FixedBumpVec and BumpVec is followed by every bounded sequence of follow-up operations on the parts (push until growth, shrink_to_fit, truncate, clear, pop, drop, into_boxed_slice, dealloc, merge back, merge in the wrong order, a fresh allocation): the parts must contain exactly the original elements, each once, in the documented order, must not share memory, capacities must add up, merge must restore adjacent parts and reject non-adjacent ones, no operation on one part may change another, and every value is dropped exactly once.")
CHECKS["C07"]["engine"] = "arena-mc + coll-mc"
CHECKS["C07"]["text"] = CHECKS["C07"]["text"] + " Collection part (coll-mc): for BumpVec, MutBumpVec and MutBumpVecRev (sized and zero-sized elements, initial lengths 0..4) every try_ growth operation is run with the k-th base-allocator call after the collection exists refused (alone, or with all later ones): it must return Err without panicking, leave length and contents unchanged, the collection must keep working once the fault is lifted, and drop / release accounting must be exact. Not covered: that panicking twins never return normally under allocation failure (they abort the process via handle_alloc_error; see DESIGN.md)."
CHECKS["C04"] = dict(engine="escape", ref="§0.6, §3 C04", category="other", technique="exhaustive enumeration of a bounded grammar of safe programs (producer x handle kind x escape route, settings conversions), each decided by rustc; every must-fail program has a compiling control twin",
    note="The explored space is a space of programs; the 'execution' of a program is its compilation. Decision procedure = rustc's borrow checker / trait solver / const evaluation, trusted. Only programs of the generated grammar are covered; which settings conversions must fail is taken from the conversion methods' documentation.",
    text="escape/gen.py generates the complete product of 63 allocation-producing calls x 12 handle kinds x the escape routes meaningful for each handle (return from the closure, store outside, hold across guard drop / second scope() / guard reset / Bump::reset / reset_to_start / drop / claim-scope exit / pool reset / pool drop, use of the outer handle while borrowed, sending non-Send-allocator arenas to threads) plus every settings conversion that must be rejected; 3678 must-fail programs must each be rejected with an error of the expected class and 3823 control twins, differing only in not escaping, must compile (quick tier; thorough: 18696 + 19304).")
CHECKS["C12"]["engine"] = "pure-mc + arena-mc"
CHECKS["C12"]["text"] = "Pure part: ChunkSizeConfig compiled from /repo/src/chunk/size_config.rs is evaluated on the complete product of allocator value layouts x direction x minimum chunk size x capacity layouts (sizes up to the isize limit, aligns to 2^29) x extra granted bytes x every base-address phase: computed sizes are multiples of 16 (and of the header alignment downwards), the layout fits for every phase and min_align, growth is >= 2x-16, overflow yields None only near the address-space limit. " + CHECKS["C12"]["text"]

NOT_YET = {}

def main():
    checks = []
    for pid, c in sorted(CHECKS.items()):
        checks.append({
            "property_id": pid,
            "quick_cmd": f"./check {pid} --tier quick",
            "thorough_cmd": f"./check {pid} --tier thorough",
            "evidence_file": f"/verif/evidence/{pid}.json",
            "replay_cmd_template": f"./check {pid} --replay {{path}}",
            "engine": c["engine"],
            "level_claimed": {"category": c.get("category", "model_checking"), "text": c["text"], "design_ref": c["ref"]},
            "level_note": c.get("note", ARENA_NOTE),
            "technique": c["technique"],
        })
    props = [json.loads(l)["id"] for l in open(os.path.join(ROOT, "properties.jsonl"))]
    na = [{"property_id": p, "reason": NOT_YET.get(p, "check under construction in this round; not claimed until its engine has been shown to detect a seeded defect")} for p in props if p not in CHECKS]
    m = {
        "version": 1,
        "setup_cmd": "./check --build",
        "hooks": {
            "guard": "--cfg bump_scope_verif",
            "enable": "RUSTFLAGS='--cfg bump_scope_verif' in harness/pool-loom only (own target directory); all other engines build /repo as shipped",
            "baseline_off_cmd": "cd /repo && cargo nextest run --workspace --no-fail-fast --tool-config-file pb:/w/lib/nextest.toml --profile pb --test-threads 8 --offline",
            "source_commits": ["9d83ce3"],
            "add_only": False,
        },
        "engines": [
            {"name": "arena-mc", "path": "harness/arena-mc", "serves_properties": [p for p in sorted(CHECKS) if "arena-mc" in CHECKS[p]["engine"]], "kind_free_text": "explicit-state exploration of real Bump/BumpScope over an instrumented deterministic base allocator"},
            {"name": "mutcoll-mc", "path": "harness/mutcoll-mc", "serves_properties": ["C15"], "kind_free_text": "the arena explorer built for configurations that carry the exclusive-borrow collection drivers"},
            {"name": "escape", "path": "escape/gen.py", "serves_properties": ["C04"], "kind_free_text": "generated compile-fail / compile-pass corpus decided by rustc"},
            {"name": "coll-mc", "path": "harness/coll-mc", "serves_properties": ["C06", "C07", "C08", "C16"], "kind_free_text": "differential exploration of the vector-like collections against std models with callback-panic injection"},
            {"name": "str-mc", "path": "harness/str-mc", "serves_properties": ["C09"], "kind_free_text": "differential exploration of the string types against std String; exhaustive decoder / C-string input enumeration"},
            {"name": "pool-loom", "path": "harness/pool-loom", "serves_properties": ["C19"], "kind_free_text": "loom model checking of the real BumpPool (cfg hook: loom Mutex)"},
            {"name": "pure-mc", "path": "harness/pure-mc", "serves_properties": ["C11", "C12"], "kind_free_text": "exhaustive input-lattice enumeration of the bump and chunk-size arithmetic compiled from the repository's source files"},
        ],
        "checks": checks,
        "not_applicable": na,
        "notes": "see DESIGN.md; known_findings.json lists fixed and open findings. hooks.add_only is false because one existing import line of src/bump_pool.rs had to be split (std::sync::{Mutex, MutexGuard} moved behind cfg(not(bump_scope_verif))); everything else in the hook commit is additive.",
    }
    with open(os.path.join(ROOT, "MANIFEST.json"), "w") as f:
        json.dump(m, f, indent=1)

if __name__ == "__main__":
    main()
