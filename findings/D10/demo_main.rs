//! D10 (C07): a failed growth of a MutBumpVec (MutBumpVecRev, MutBumpString) leaves the allocator on a later,
//! retained chunk while the collection still lives in the earlier one; finalising it then moves the bump position
//! of the wrong chunk. Safe code only. Debug build: `assertion failed: self.contains_addr_or_end(addr)` in
//! into_slice. Release build: the second chunk's position points into the first chunk and stats().allocated()
//! wraps around. After the fix: prints sane positions.
use bump_scope::alloc::{AllocError, Allocator, Global};
use bump_scope::{Bump, MutBumpVec};
use std::alloc::Layout;
use std::cell::Cell;
use std::ptr::NonNull;
use std::rc::Rc;

#[derive(Clone)]
struct Flaky(Rc<Cell<bool>>);
unsafe impl Allocator for Flaky {
    fn allocate(&self, layout: Layout) -> Result<NonNull<[u8]>, AllocError> {
        if self.0.get() {
            return Err(AllocError);
        }
        Global.allocate(layout)
    }
    unsafe fn deallocate(&self, ptr: NonNull<u8>, layout: Layout) {
        unsafe { Global.deallocate(ptr, layout) }
    }
}

fn main() {
    let fail = Rc::new(Cell::new(false));
    let mut bump: Bump<Flaky> = Bump::new_in(Flaky(fail.clone()));
    // create a second chunk, then go back to the first one: the second chunk is retained as `next`
    bump.scoped(|s| {
        let rem = s.stats().remaining();
        s.alloc_slice_fill(rem + 1, 0u8);
    });
    let second_cap = bump.stats().small_to_big().nth(1).unwrap().capacity();
    bump.scoped(|scope| {
        let mut v: MutBumpVec<u64, &mut bump_scope::BumpScope<Flaky>> = MutBumpVec::new_in(&mut *scope);
        v.push(1);
        // ask for more than the retained second chunk can hold while the base allocator refuses
        fail.set(true);
        let r = v.try_reserve(second_cap / 8 + 10);
        println!("try_reserve failed: {}", r.is_err());
        fail.set(false);
        let slice = v.into_slice();
        let a = scope.alloc(0xAAAA_AAAA_AAAA_AAAAu64);
        println!("slice {:?} at {:p}, next allocation at {:p}, allocated() = {}", slice, slice, &*a, scope.stats().allocated());
        for c in scope.stats().small_to_big() {
            println!("chunk {:p}..{:p} pos {:p}", c.chunk_start(), c.chunk_end(), c.bump_position());
        }
    });
}
