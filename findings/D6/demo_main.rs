use bump_scope::{Bump, alloc::Global, settings::BumpSettings};
type S = BumpSettings<2, true, true, true, true, true, 512>;
fn main() {
    let mut bump: Bump<Global, S> = Bump::new();
    {
        let scope = bump.as_mut_scope();
        let mut by_value = scope.by_value();
        by_value.aligned::<1, _>(|s| {
            s.alloc(1u8);
            // does not fit into the first chunk any more: the by-value copy switches to a new chunk
            s.alloc_slice_copy(&[0u8; 1000]);
        });
    }
    let x = bump.alloc(0u16);
    let addr = &*x as *const u16 as usize;
    println!("u16 allocated at {addr:#x}, aligned: {}", addr % 2 == 0);
    assert_eq!(addr % 2, 0, "misaligned u16 allocation from safe code");
}
