//! D8 (C14): growing a non-empty BumpVec / BumpString through its panicking api while the allocator is claimed
//! aborts the process (handle_alloc_error) instead of unwinding with "bump allocator is claimed".
//! Safe code only. Build as an example of bump-scope: `cargo run --example demo_D8`.
//! Before the fix: "memory allocation of 16 bytes failed" + SIGABRT. After: prints the caught panic.
use bump_scope::{Bump, BumpVec};
use std::panic::{AssertUnwindSafe, catch_unwind};

fn main() {
    let bump: Bump = Bump::new();
    let mut v: BumpVec<u32, &Bump> = BumpVec::from_iter_in([1u32], &bump);
    while v.len() < v.capacity() {
        v.push(0);
    }
    let guard = bump.claim();
    // an empty vector in the same situation panics with "bump allocator is claimed"
    let mut empty: BumpVec<u32, &Bump> = BumpVec::new_in(&bump);
    let r0 = catch_unwind(AssertUnwindSafe(|| empty.push(1)));
    println!("empty vector: push while claimed unwound = {}", r0.is_err());
    // the full non-empty one must behave the same way
    let r = catch_unwind(AssertUnwindSafe(|| v.push(2)));
    println!("non-empty full vector: push while claimed unwound = {}", r.is_err());
    drop(guard);
    v.push(3);
    println!("after the claim: {:?}", v);
}
