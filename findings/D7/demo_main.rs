use bump_scope::{Bump, BumpVec};
use std::sync::atomic::{AtomicIsize, Ordering};
static LIVE: AtomicIsize = AtomicIsize::new(0);
struct Z;
impl Z { fn new() -> Z { LIVE.fetch_add(1, Ordering::SeqCst); Z } }
impl Drop for Z { fn drop(&mut self) { let v = LIVE.fetch_sub(1, Ordering::SeqCst) - 1; println!("drop -> live {v}"); } }
fn main() {
    let bump: Bump = Bump::new();
    let mut v: BumpVec<Z, &Bump> = BumpVec::new_in(&bump);
    v.push(Z::new());
    println!("pushed, live {}", LIVE.load(Ordering::SeqCst));
    { let d = v.drain(0..1); drop(d); }
    println!("after dropping the drain: len {} live {}", v.len(), LIVE.load(Ordering::SeqCst));
    drop(v);
    println!("after dropping the vec: live {}", LIVE.load(Ordering::SeqCst));
    assert_eq!(LIVE.load(Ordering::SeqCst), 0);
    // same with std
    let mut s: Vec<Z> = Vec::new(); s.push(Z::new()); { let d = s.drain(0..1); drop(d); } drop(s);
    println!("std: live {}", LIVE.load(Ordering::SeqCst));
}
