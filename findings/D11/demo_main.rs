//! D11 (C06): alloc_slice_fill with a zero-sized element type leaks the clones made so far when `Clone::clone`
//! panics (the ZST path cloned with mem::forget and no guard). Safe code only.
//! Before the fix: "live tokens after the panic: 2"; after: 0.
use bump_scope::Bump;
use std::panic::{AssertUnwindSafe, catch_unwind};
use std::sync::atomic::{AtomicIsize, AtomicUsize, Ordering::SeqCst};

static LIVE: AtomicIsize = AtomicIsize::new(0);
static CLONES: AtomicUsize = AtomicUsize::new(0);

struct Token;
impl Token {
    fn new() -> Token {
        LIVE.fetch_add(1, SeqCst);
        Token
    }
}
impl Clone for Token {
    fn clone(&self) -> Token {
        if CLONES.fetch_add(1, SeqCst) == 2 {
            panic!("third clone fails");
        }
        Token::new()
    }
}
impl Drop for Token {
    fn drop(&mut self) {
        LIVE.fetch_sub(1, SeqCst);
    }
}

fn main() {
    let bump: Bump = Bump::new();
    let r = catch_unwind(AssertUnwindSafe(|| {
        let _ = bump.alloc_slice_fill(5, Token::new());
    }));
    assert!(r.is_err());
    println!("live tokens after the panic: {}", LIVE.load(SeqCst));
}
