//! Configuration matrix (DESIGN.md §2.2). Each row is instantiated for all five minimum alignments; the rows live in
//! generated crates (harness/gen_cfgs.py) so that cargo compiles them in parallel.
use vcore::runner::ConfigEntry;

/// Pairwise covering array over UP × GUARANTEED_ALLOCATED × DEALLOCATES × SHRINKS × MINIMUM_CHUNK_SIZE{0,512} ×
/// allocator kind {Z, S8, A32}: every value of every setting and every pair of values of two settings occurs.
pub fn quick() -> Vec<ConfigEntry> {
    let mut v = Vec::new();
    v.extend(cfgq0::entries());
    v.extend(cfgq1::entries());
    v.extend(cfgq2::entries());
    v.extend(cfgq3::entries());
    v.extend(cfgq4::entries());
    v.extend(cfgq5::entries());
    v.extend(cfgq6::entries());
    v.extend(cfgq7::entries());
    v.extend(cfgq8::entries());
    v
}

/// The complete product UP × GA × DEALLOCATES × SHRINKS × MINIMUM_CHUNK_SIZE{0,512,4096} × {Z,S8,A32} × MIN_ALIGN.
#[cfg(feature = "full-matrix")]
pub fn full() -> Vec<ConfigEntry> {
    let mut v = quick();
    v.extend(cfgf00::entries());
    v.extend(cfgf01::entries());
    v.extend(cfgf02::entries());
    v.extend(cfgf03::entries());
    v.extend(cfgf04::entries());
    v.extend(cfgf05::entries());
    v.extend(cfgf06::entries());
    v.extend(cfgf07::entries());
    v.extend(cfgf08::entries());
    v.extend(cfgf09::entries());
    v.extend(cfgf10::entries());
    v.extend(cfgf11::entries());
    v.extend(cfgf12::entries());
    v.extend(cfgf13::entries());
    v.extend(cfgf14::entries());
    v
}

/// Padded and strongly over-aligned allocator values (header 80 / 128 / 512 bytes, alignment up to 256): only the
/// arena part of C12 uses them.
#[cfg(feature = "full-matrix")]
pub fn pad() -> Vec<ConfigEntry> {
    let mut v = Vec::new();
    v.extend(cfgp0::entries());
    v.extend(cfgp1::entries());
    v.extend(cfgp2::entries());
    v.extend(cfgp3::entries());
    v
}

#[cfg(not(feature = "full-matrix"))]
pub fn pad() -> Vec<ConfigEntry> {
    Vec::new()
}

#[cfg(not(feature = "full-matrix"))]
pub fn full() -> Vec<ConfigEntry> {
    quick()
}

pub const HAS_FULL: bool = cfg!(feature = "full-matrix");

pub fn all(include_full: bool) -> Vec<ConfigEntry> {
    if include_full {
        let mut v = full();
        v.extend(pad());
        v
    } else {
        quick()
    }
}
