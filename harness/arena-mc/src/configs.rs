//! Configuration matrix (DESIGN.md §2.2). Each row is instantiated for all five minimum alignments.
use vcore::runner::ConfigEntry;
use vcore::slab::{SlabA32, SlabS8, SlabZ};

/// Pairwise covering array over UP × GUARANTEED_ALLOCATED × DEALLOCATES × SHRINKS × MINIMUM_CHUNK_SIZE{0,512} ×
/// allocator kind {Z, S8, A32}: every value of every setting and every pair of values of two settings occurs.
pub fn quick() -> Vec<ConfigEntry> {
    let mut v = Vec::new();
    vcore::cfg_rows!(v;
        (SlabZ,   true,  true,  true,  true,  0),
        (SlabZ,   false, false, false, false, 512),
        (SlabS8,  true,  false, true,  false, 512),
        (SlabS8,  false, true,  false, true,  0),
        (SlabA32, true,  true,  false, false, 0),
        (SlabA32, false, false, true,  true,  512),
        (SlabZ,   false, true,  true,  false, 0),
        (SlabS8,  true,  true,  true,  true,  512),
        (SlabZ,   true,  false, false, true,  0),
    );
    v
}

pub fn all(_include_full: bool) -> Vec<ConfigEntry> {
    quick()
}
