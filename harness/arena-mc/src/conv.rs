//! C18, settings conversions: `Bump::with_settings`, `BumpScope::with_settings` and `borrow_mut_with_settings` for a
//! complete product of source / target settings and arena states. Conversions that require an allocated or unclaimed
//! arena must panic exactly when that requirement is not met; after a successful conversion the position is a
//! multiple of the new minimum alignment and earlier data is intact.

use bump_scope::settings::{BumpAllocatorSettings, BumpSettings};
use bump_scope::{BaseAllocator, Bump, BumpScope};
use std::panic::{AssertUnwindSafe, catch_unwind};
use vcore::slab::{self, SlabCfg, SlabZ};

#[derive(Clone, Copy, Debug, PartialEq, Eq)]
pub enum State {
    Allocated,
    Unallocated,
    Claimed,
}

type S<const MA: usize, const UP: bool, const GA: bool, const CL: bool> = BumpSettings<MA, UP, GA, CL, true, true, 0>;

pub struct ConvOutcome {
    pub id: String,
    pub msg: Option<String>,
    pub nontrivial: bool,
}

fn pos_of<St>(b: &Bump<SlabZ, St>) -> Option<usize>
where
    St: BumpAllocatorSettings,
    SlabZ: BaseAllocator<St::GuaranteedAllocated>,
{
    b.stats().current_chunk().map(|c| c.bump_position().as_ptr() as usize)
}

/// an allocated arena with three bytes in it: the position is only aligned to the source's minimum alignment
fn make<St>() -> (Bump<SlabZ, St>, Option<(usize, usize)>)
where
    St: BumpAllocatorSettings,
    SlabZ: BaseAllocator<St::GuaranteedAllocated>,
{
    slab::select(0);
    slab::reset(0, SlabCfg::default());
    let b: Bump<SlabZ, St> = Bump::new_in(SlabZ);
    let p = b.alloc_slice_copy(&[0xA1u8, 0xA2, 0xA3]).into_raw();
    let blk = (p.as_ptr() as *mut u8 as usize, 3);
    (b, Some(blk))
}

macro_rules! claimed_src {
    ($ma:tt, $up:tt, $ga:tt, true) => {{
        let (b, blk) = make::<S<$ma, $up, $ga, true>>();
        // a leaked claim guard leaves the allocator claimed for good
        std::mem::forget(b.claim());
        Some((b, blk))
    }};
    ($ma:tt, $up:tt, $ga:tt, false) => {
        None
    };
}

macro_rules! claim_scope {
    ($s:expr, true) => {
        std::mem::forget($s.claim())
    };
    ($s:expr, false) => {
        unreachable!()
    };
}

fn intact(blk: Option<(usize, usize)>) -> bool {
    match blk {
        Some((p, _)) => unsafe { std::slice::from_raw_parts(p as *const u8, 3) == [0xA1, 0xA2, 0xA3] },
        None => true,
    }
}

macro_rules! bump_with_settings_case {
    ($out:ident, $ma:tt, $up:tt, $ga:tt, $cl:tt => $ma2:literal, $ga2:literal, $cl2:literal) => {{
        for state in [State::Allocated, State::Unallocated, State::Claimed] {
            let id = format!("conv:bump.with_settings:{}:{}:{}:{}->{}:{}:{}:{:?}", $ma, $up, $ga, $cl, $ma2, $ga2, $cl2, state);
            vcore::crash::set_inflight(format!("replayargs=[--conv {id}]"));
            let whole = catch_unwind(AssertUnwindSafe(|| -> Option<Option<String>> {
            let src: Option<(Bump<SlabZ, S<$ma, $up, $ga, $cl>>, Option<(usize, usize)>)> = match state {
                    State::Unallocated => unalloc_src!($ma, $up, $ga, $cl),
                    State::Claimed => claimed_src!($ma, $up, $ga, $cl),
                    State::Allocated => Some(make::<S<$ma, $up, $ga, $cl>>()),
                };
                let Some((b, blk)) = src else { return None };
                let must_panic = ($ga2 && state == State::Unallocated) || (!$cl2 && state == State::Claimed);
                let r = catch_unwind(AssertUnwindSafe(|| b.with_settings::<S<$ma2, $up, $ga2, $cl2>>()));
                let mut msg = None;
                match r {
                    Ok(nb) => {
                        if must_panic {
                            msg = Some(format!("did not panic although the arena is {:?}", state));
                        } else {
                            if let (State::Allocated, Some(p)) = (state, pos_of(&nb)) {
                                if p % $ma2 != 0 {
                                    msg = Some(format!("position {p:#x} is not a multiple of the new minimum alignment {}", $ma2));
                                }
                            }
                            if !intact(blk) {
                                msg = Some("data allocated before the conversion changed".into());
                            }
                            if state == State::Allocated {
                                // the converted arena keeps working and respects the new alignment
                                let q = nb.alloc(7u8).into_raw().as_ptr() as usize;
                                let _ = q;
                                if let Some(p) = pos_of(&nb) {
                                    if p % $ma2 != 0 {
                                        msg = Some(format!("position {p:#x} after one more allocation is not a multiple of {}", $ma2));
                                    }
                                }
                                if !intact(blk) {
                                    msg = Some("an allocation after the conversion overwrote earlier data".into());
                                }
                            }
                        }
                        if state == State::Claimed {
                            std::mem::forget(nb);
                        }
                    }
                    Err(_) => {
                        let _ = vcore::crash::take_last_panic();
                        if !must_panic {
                            msg = Some(format!("panicked although the arena is {:?} and the target settings allow that", state));
                        }
                    }
                }
                Some(msg)
            }));
            vcore::crash::clear_inflight();
            let msg = match whole {
                Ok(Some(m)) => m,
                Ok(None) => continue,
                Err(_) => Some(format!("unexpected panic: {}", vcore::crash::take_last_panic().unwrap_or_default())),
            };
            $out.push(ConvOutcome { id, msg, nontrivial: state != State::Allocated || $ma2 > $ma });
        }
    }};
}

macro_rules! unalloc_src {
    ($ma:tt, $up:tt, false, $cl:tt) => {{
        slab::select(0);
        slab::reset(0, SlabCfg::default());
        Some((Bump::<SlabZ, S<$ma, $up, false, $cl>>::unallocated(), None))
    }};
    ($ma:tt, $up:tt, true, $cl:tt) => {
        None
    };
}

macro_rules! scope_cases {
    ($out:ident, $ma:literal, $up:literal, $ga:literal, $cl:tt => $ma2:literal, $cl2:literal) => {{
        // BumpScope::with_settings (by value): raising MIN_ALIGN only; a claimed scope must be refused by
        // non-claimable target settings
        for state in [State::Allocated, State::Claimed] {
            if state == State::Claimed && !$cl {
                continue;
            }
            let id = format!("conv:scope.with_settings:{}:{}:{}:{}->{}:{}:{:?}", $ma, $up, $ga, $cl, $ma2, $cl2, state);
            vcore::crash::set_inflight(format!("replayargs=[--conv {id}]"));
            let whole = catch_unwind(AssertUnwindSafe(|| {
            let (mut b, blk) = make::<S<$ma, $up, $ga, $cl>>();
                let must_panic = !$cl2 && state == State::Claimed;
                let seen = std::cell::Cell::new(None);
                let r = catch_unwind(AssertUnwindSafe(|| {
                    let sc: &mut BumpScope<'_, SlabZ, S<$ma, $up, $ga, $cl>> = b.as_mut_scope();
                    let byv = sc.by_value();
                    if state == State::Claimed {
                        claim_scope!(byv, $cl);
                    }
                    let ns: BumpScope<'_, SlabZ, S<$ma2, $up, $ga, $cl2>> = byv.with_settings();
                    if state == State::Claimed {
                        return (None, None);
                    }
                    let p = ns.stats().current_chunk().map(|c| c.bump_position().as_ptr() as usize);
                    seen.set(p);
                    let _ = ns.alloc(9u8);
                    let p2 = ns.stats().current_chunk().map(|c| c.bump_position().as_ptr() as usize);
                    (p, p2)
                }));
                let mut msg = None;
                if let Some(q) = seen.get() {
                    if q % $ma2 != 0 && r.is_err() {
                        let _ = vcore::crash::take_last_panic();
                        return (Some(format!("position {q:#x} is not a multiple of the new minimum alignment {} (and the next allocation panicked)", $ma2)), b);
                    }
                }
                match r {
                    Ok((p, p2)) => {
                        if must_panic {
                            msg = Some("did not panic although the scope is claimed and the target is not claimable".into());
                        } else if state == State::Allocated {
                            for q in [p, p2].into_iter().flatten() {
                                if q % $ma2 != 0 {
                                    msg = Some(format!("position {q:#x} is not a multiple of the new minimum alignment {}", $ma2));
                                }
                            }
                            if !intact(blk) {
                                msg = Some("data allocated before the conversion changed".into());
                            }
                        }
                    }
                    Err(_) => {
                        let _ = vcore::crash::take_last_panic();
                        if !must_panic {
                            msg = Some(format!("panicked although the scope is {:?} and the target settings allow that", state));
                        }
                    }
                }
                (msg, b)
            }));
            vcore::crash::clear_inflight();
            let (msg, b) = match whole {
                Ok(x) => (x.0, Some(x.1)),
                Err(_) => (Some(format!("unexpected panic: {}", vcore::crash::take_last_panic().unwrap_or_default())), None),
            };
            $out.push(ConvOutcome { id, msg, nontrivial: $ma2 > $ma || state == State::Claimed });
            if state == State::Claimed {
                std::mem::forget(b);
            }
        }
    }};
}

macro_rules! borrow_mut_cases {
    ($out:ident, $ma:tt, $up:tt, $ga:tt, $cl:tt => $ma2:literal) => {{
        let id = format!("conv:borrow_mut_with_settings:{}:{}:{}:{}->{}", $ma, $up, $ga, $cl, $ma2);
        vcore::crash::set_inflight(format!("replayargs=[--conv {id}]"));
        let whole = catch_unwind(AssertUnwindSafe(|| {
            let (mut b, blk) = make::<S<$ma, $up, $ga, $cl>>();
            let mut msg = None;
            {
                let nb: &mut Bump<SlabZ, S<$ma2, $up, $ga, $cl>> = b.borrow_mut_with_settings();
                if let Some(p) = nb.stats().current_chunk().map(|c| c.bump_position().as_ptr() as usize) {
                    if p % $ma2 != 0 {
                        msg = Some(format!("position {p:#x} is not a multiple of the new minimum alignment {}", $ma2));
                    }
                }
                let _ = nb.alloc(5u8);
                if let Some(p) = nb.stats().current_chunk().map(|c| c.bump_position().as_ptr() as usize) {
                    if p % $ma2 != 0 {
                        msg = Some(format!("position {p:#x} after an allocation is not a multiple of {}", $ma2));
                    }
                }
            }
            if !intact(blk) {
                msg = Some("data allocated before the conversion changed".into());
            }
            msg
        }));
        vcore::crash::clear_inflight();
        let msg = match whole {
            Ok(m) => m,
            Err(_) => Some(format!("unexpected panic: {}", vcore::crash::take_last_panic().unwrap_or_default())),
        };
        $out.push(ConvOutcome { id, msg, nontrivial: $ma2 > $ma });
    }};
}

macro_rules! for_targets {
    ($out:ident, $ma:tt, $up:tt, $ga:tt, $cl:tt) => {{
        // Bump::with_settings may lower or raise the alignment and change GA / CLAIMABLE
        bump_with_settings_case!($out, $ma, $up, $ga, $cl => 1, true, true);
        bump_with_settings_case!($out, $ma, $up, $ga, $cl => 1, false, false);
        bump_with_settings_case!($out, $ma, $up, $ga, $cl => 4, true, false);
        bump_with_settings_case!($out, $ma, $up, $ga, $cl => 4, false, true);
        bump_with_settings_case!($out, $ma, $up, $ga, $cl => 16, true, true);
        bump_with_settings_case!($out, $ma, $up, $ga, $cl => 16, false, false);
    }};
}

macro_rules! raise_targets {
    ($out:ident, 1, $up:tt, $ga:tt, $cl:tt) => {{
        scope_cases!($out, 1, $up, $ga, $cl => 1, $cl);
        scope_cases!($out, 1, $up, $ga, $cl => 4, false);
        scope_cases!($out, 1, $up, $ga, $cl => 16, true);
        borrow_mut_cases!($out, 1, $up, $ga, $cl => 1);
        borrow_mut_cases!($out, 1, $up, $ga, $cl => 2);
        borrow_mut_cases!($out, 1, $up, $ga, $cl => 8);
        borrow_mut_cases!($out, 1, $up, $ga, $cl => 16);
    }};
    ($out:ident, 4, $up:tt, $ga:tt, $cl:tt) => {{
        scope_cases!($out, 4, $up, $ga, $cl => 4, false);
        scope_cases!($out, 4, $up, $ga, $cl => 16, $cl);
        borrow_mut_cases!($out, 4, $up, $ga, $cl => 4);
        borrow_mut_cases!($out, 4, $up, $ga, $cl => 8);
        borrow_mut_cases!($out, 4, $up, $ga, $cl => 16);
    }};
    ($out:ident, 16, $up:tt, $ga:tt, $cl:tt) => {{
        scope_cases!($out, 16, $up, $ga, $cl => 16, false);
        borrow_mut_cases!($out, 16, $up, $ga, $cl => 16);
    }};
}

macro_rules! sources {
    ($out:ident, $up:tt) => {{
        for_targets!($out, 1, $up, true, true);
        for_targets!($out, 1, $up, false, true);
        for_targets!($out, 1, $up, false, false);
        for_targets!($out, 4, $up, true, false);
        for_targets!($out, 4, $up, false, true);
        for_targets!($out, 16, $up, true, true);
        for_targets!($out, 16, $up, false, false);
        raise_targets!($out, 1, $up, true, true);
        raise_targets!($out, 1, $up, false, false);
        raise_targets!($out, 4, $up, true, true);
        raise_targets!($out, 4, $up, false, true);
        raise_targets!($out, 16, $up, true, true);
    }};
}

pub fn run_all() -> Vec<ConvOutcome> {
    let mut out = Vec::new();
    sources!(out, true);
    sources!(out, false);
    out
}
