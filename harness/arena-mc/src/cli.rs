//! arena-mc: explicit-state exploration of the real `Bump`/`BumpScope` (DESIGN.md §1, §3).
//!
//! usage: arena-mc check --prop C01 --tier quick|thorough [--secs N] [--threads N]
//!        arena-mc replay --prop C01 --cfg NAME --h H --ctor C --phase P --overgrant O --fail MASK --roundtrip 0|1 --history "..."
//!        arena-mc list-configs

use crate::{configs, props};
use std::time::{Duration, Instant};
use vcore::explore::*;
use vcore::facade::Handle;
use vcore::json::J;
use vcore::ops::*;
use vcore::runner::*;
use vcore::slab::SlabCfg;

fn arg(args: &[String], name: &str) -> Option<String> {
    args.iter().position(|a| a == name).and_then(|i| args.get(i + 1).cloned())
}

pub fn run() {
    vcore::crash::install();
    let args: Vec<String> = std::env::args().collect();
    let cmd = args.get(1).map(String::as_str).unwrap_or("");
    match cmd {
        "list-configs" => {
            for c in configs::all(true) {
                println!("{}", c.cfg.name());
            }
        }
        "check" => {
            let prop = arg(&args, "--prop").expect("--prop");
            let tier = arg(&args, "--tier").unwrap_or_else(|| "quick".into());
            let thorough = tier == "thorough";
            let secs: u64 = arg(&args, "--secs").and_then(|s| s.parse().ok()).unwrap_or(if thorough { 900 } else { 50 });
            let threads: usize = arg(&args, "--threads").and_then(|s| s.parse().ok()).unwrap_or_else(|| std::thread::available_parallelism().map_or(8, |n| n.get()));
            let seed: u64 = std::env::var("VERIF_SEED").ok().and_then(|s| s.parse().ok()).unwrap_or(0);
            let deadline = Instant::now() + Duration::from_secs(secs);
            let mut total_viol = 0usize;
            let mut reports = Vec::new();
            let all_spaces = props::spaces(&prop, thorough, deadline, threads);
            for mut space in all_spaces {
                // each space owns its deadline; a later space starts when the earlier one is done
                if Instant::now() > space.deadline {
                    space.deadline = Instant::now() + Duration::from_secs(30);
                }
                if let Some(d) = arg(&args, "--depth").and_then(|s| s.parse().ok()) {
                    space.depth = d;
                }
                let r = explore(&space);
                let j = report_json(&space, &r, &tier, seed);
                for v in &r.violations {
                    let vj = J::obj()
                        .set("prop", prop.as_str())
                        .set("cfg", v.cfg.as_str())
                        .set("params", v.params.as_str())
                        .set("history", v.history.as_str())
                        .set("step", v.step)
                        .set("msg", v.msg.as_str())
                        .set("replay_args", v.replay_args.clone());
                    println!("VIOL {}", vj.to_string());
                }
                total_viol += r.violations.len();
                let floor_ok = r.nontrivial >= space.floor || r.capped || !r.violations.is_empty();
                println!("SPACE {}", j.set("floor", space.floor).set("floor_ok", floor_ok).to_string());
                reports.push((r.histories, r.nontrivial));
                if total_viol > 0 {
                    break;
                }
            }
            println!("DONE violations={total_viol}");
        }
        "replay" => {
            let prop = arg(&args, "--prop").expect("--prop");
            let cfg = arg(&args, "--cfg").expect("--cfg");
            let entry = configs::all(true).into_iter().find(|c| c.cfg.name() == cfg).unwrap_or_else(|| panic!("unknown configuration {cfg}"));
            let params = RunParams {
                ctor: Ctor::parse(&arg(&args, "--ctor").unwrap_or_else(|| "try_new".into())).expect("ctor"),
                h: Handle::parse(&arg(&args, "--h").unwrap_or_else(|| "direct".into())).expect("handle"),
                slab: SlabCfg {
                    phase: arg(&args, "--phase").and_then(|s| s.parse().ok()).unwrap_or(0),
                    overgrant: arg(&args, "--overgrant").and_then(|s| s.parse().ok()).unwrap_or(0),
                    fail_mask: arg(&args, "--fail").and_then(|s| s.parse().ok()).unwrap_or(0),
                },
                roundtrip: arg(&args, "--roundtrip").map_or(false, |s| s == "1"),
            };
            let hist = parse_history(&arg(&args, "--history").unwrap_or_default()).expect("history");
            let (groups, probes) = props::groups_of(&prop);
            if let Some(vname) = arg(&args, "--variant") {
                // C17: reference vs one alternative entry point
                let variant = props::c17_variants().into_iter().find(|v| v.name == vname).expect("variant");
                let space = Space {
                    reset_loop: false,
                    suffix: Vec::new(),
                    tail: Vec::new(),
                    variants: vec![variant],
                    prop: &prop,
                    alphabet: Vec::new(),
                    depth: 0,
                    configs: vec![entry],
                    params: vec![params],
                    groups,
                    probes: false,
                    fault: FaultMode::None,
                    deadline: Instant::now() + Duration::from_secs(60),
                    threads: 1,
                    nontrivial: |_, _| true,
                    nontrivial_rule: "",
                    max_violations: 1,
                    floor: 0,
                };
                let reference = run_history_ex(&entry, &hist, &params, groups, true, false, true);
                let counters = Counters::default();
                let viols = std::sync::Mutex::new(Vec::new());
                let stop = std::sync::atomic::AtomicBool::new(false);
                lockstep(&space, &entry, &params, &hist, &reference, &counters, &viols, &stop);
                match viols.into_inner().unwrap().first() {
                    Some(v) => println!("REPLAY VIOLATION step=0 msg={}", v.msg),
                    None => println!("REPLAY OK"),
                }
                return;
            }
            if arg(&args, "--reset-loop").is_some() {
                match run_reset_loop(&entry, &hist, &params, 6) {
                    Some(m) => println!("REPLAY VIOLATION step={} msg={m}", hist.len()),
                    None => println!("REPLAY OK"),
                }
                return;
            }
            // all-steps checking first; if silent, the exploration's own mode (oracles after the last op + probes)
            let mut out = run_history(&entry, &hist, &params, groups, false, probes);
            if out.viol.is_none() && out.disabled_at.is_none() {
                out = run_history(&entry, &hist, &params, groups, true, probes);
            }
            match (&out.viol, out.disabled_at) {
                (Some((_, step, msg)), _) => println!("REPLAY VIOLATION step={step} msg={msg}"),
                (None, Some(d)) => println!("REPLAY DISABLED at={d}"),
                (None, None) => println!("REPLAY OK calls={} hash={:#x}", out.calls, out.hash),
            }
        }
        _ => {
            eprintln!("usage: arena-mc check|replay|list-configs ...");
            std::process::exit(2);
        }
    }
}
