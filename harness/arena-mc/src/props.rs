//! Per-property alphabets, bounds and oracle groups (DESIGN.md §3).
use crate::configs;
use std::time::Instant;
use vcore::exec::{Cover, grp};
use vcore::explore::*;
use vcore::facade::*;
use vcore::ops::*;
use vcore::runner::*;
use vcore::slab::SlabCfg;

pub fn groups_of(prop: &str) -> (u32, bool) {
    match prop {
        "C01" => (grp::CONTAIN, false),
        "C02" => (grp::CONTENT, false),
        "C03" => (grp::RESTORE, true),
        "C05" => (grp::RELEASE, false),
        "C07" => (grp::FAILURE | grp::CONTAIN | grp::CONTENT | grp::STATS | grp::RELEASE, false),
        "C10" => (grp::STATS, false),
        "C12" => (grp::CHUNKFIT, false),
        "C13" => (grp::RECLAIM, true),
        "C14" => (grp::CLAIM | grp::CONTENT, false),
        "C18" => (grp::ALIGN | grp::CONTENT | grp::CONTAIN, false),
        _ => (grp::ALL, false),
    }
}

fn al(size: u32, align: u32) -> Op {
    Op::Alloc { size, align, zeroed: false }
}

fn params(handles: &[Handle], ctors: &[Ctor], slabs: &[SlabCfg]) -> Vec<RunParams> {
    let mut v = Vec::new();
    for &h in handles {
        for &ctor in ctors {
            for &slab in slabs {
                v.push(RunParams { ctor, h, slab, roundtrip: false });
            }
        }
    }
    v
}

fn nontrivial_c01(c: &Cover, _h: &[Op]) -> bool {
    c.multi_live || c.chunk_switch || c.inplace_realloc || c.moved_realloc
}

/// The general allocator-API alphabet shared by C01 / C02 / C10 / C13 (each property adds its own emphasis).
fn base_alphabet() -> Vec<Op> {
    vec![
        al(1, 1),
        al(3, 1),
        al(8, 8),
        al(24, 8),
        al(4, 16),
        al(40, 32),
        al(0, 1),
        Op::Alloc { size: 8, align: 1, zeroed: true },
        Op::AllocRem { extra: 1, align: 1 },
        Op::Grow { sel: Sel::Newest, delta: 8, align: 0, zeroed: false },
        Op::Grow { sel: Sel::Newest, delta: 16, align: 32, zeroed: true },
        Op::Grow { sel: Sel::Second, delta: 3, align: 0, zeroed: false },
        Op::GrowRem { sel: Sel::Newest, extra: 1 },
        Op::Shrink { sel: Sel::Newest, to: ShrinkTo::Half, align: 0 },
        Op::Shrink { sel: Sel::Newest, to: ShrinkTo::Half, align: 32 },
        Op::Shrink { sel: Sel::Second, to: ShrinkTo::MinusOne, align: 0 },
        Op::Dealloc { sel: Sel::Newest },
        Op::Dealloc { sel: Sel::Second },
        Op::Split { sel: Sel::Newest },
        Op::Typed { op: TypedOp::SizedU64, try_: true },
        Op::Typed { op: TypedOp::SliceArr3(3), try_: false },
        Op::Prep { size: 8, align: 8, commit: Commit::Half, rev: false },
        Op::Prep { size: 6, align: 2, commit: Commit::Full, rev: true },
        Op::PrepSlice { elem: 8, min_cap: 2, commit: Commit::Full, rev: false, try_: true },
        Op::PrepSlice { elem: 3, min_cap: 3, commit: Commit::Half, rev: true, try_: false },
        Op::Reserve { n: 64, try_: true },
        Op::Enter(Region::Scoped),
        Op::Enter(Region::Checkpoint),
        Op::Exit,
        Op::Reset,
        Op::ResetToStart,
    ]
}

pub fn spaces<'a>(prop: &'a str, thorough: bool, deadline: Instant, threads: usize) -> Vec<Space<'a>> {
    let (groups, probes) = groups_of(prop);
    let cfgs = configs::all(thorough);
    let z = SlabCfg::default();
    let og = SlabCfg { phase: 48, overgrant: 40, fail_mask: 0 };
    let mk = |alphabet: Vec<Op>, depth: usize, params: Vec<RunParams>, fault: FaultMode, nontrivial: fn(&Cover, &[Op]) -> bool, rule: &'a str, floor: u64| Space {
        prop,
        alphabet,
        depth,
        configs: cfgs.clone(),
        params,
        groups,
        probes,
        fault,
        deadline,
        threads,
        nontrivial,
        nontrivial_rule: rule,
        max_violations: 8,
        floor,
    };
    match prop {
        "C01" | "C02" | "C10" => {
            let depth = if thorough { 5 } else { 4 };
            vec![mk(
                base_alphabet(),
                depth,
                params(&[Handle::Direct, Handle::WoShrink, Handle::Dyn], &[Ctor::TryNew, Ctor::Unallocated], &[z, og]),
                FaultMode::None,
                nontrivial_c01,
                "every enabled history over the alphabet up to the depth bound, per configuration and run-parameter set; non-trivial = the history performed a realloc (in place or moved), switched chunks, or had >= 2 non-empty live blocks at some point",
                1000,
            )]
        }
        _ => panic!("unknown property {prop}"),
    }
}
