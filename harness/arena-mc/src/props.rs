//! Per-property alphabets, bounds and oracle groups (DESIGN.md §3).
use crate::configs;
use std::time::Instant;
use vcore::exec::{Cover, grp};
use vcore::explore::*;
use vcore::facade::*;
use vcore::ops::*;
use vcore::runner::*;
use vcore::slab::SlabCfg;

pub fn groups_of(prop: &str) -> (u32, bool) {
    match prop {
        "C01" => (grp::CONTAIN, false),
        "C02" => (grp::CONTENT, false),
        "C03" => (grp::RESTORE, true),
        "C05" => (grp::RELEASE, false),
        "C07" => (grp::FAILURE | grp::CONTAIN | grp::CONTENT | grp::STATS | grp::RELEASE, false),
        "C10" => (grp::STATS, false),
        "C12" => (grp::CHUNKFIT, false),
        "C13" => (grp::RECLAIM, true),
        "C14" => (grp::CLAIM | grp::CONTENT | grp::RESTORE, false),
        "C18" => (grp::ALIGN | grp::CONTENT | grp::CONTAIN, false),
        "C17" => (grp::CONTAIN | grp::CONTENT, false),
        "C15" => (grp::MUTCOLL | grp::CONTAIN | grp::CONTENT, false),
        _ => (grp::ALL, false),
    }
}

// ---- C17: alternative entry points -------------------------------------------------------------------------

fn map_id(o: &Op) -> Option<Op> {
    Some(*o)
}
fn map_no_dealloc(o: &Op) -> Option<Op> {
    if matches!(o, Op::Dealloc { .. }) { None } else { Some(*o) }
}
fn map_no_shrink(o: &Op) -> Option<Op> {
    if matches!(o, Op::Shrink { .. } | Op::ShrinkSlice { .. }) { None } else { Some(*o) }
}
fn map_no_dealloc_no_shrink(o: &Op) -> Option<Op> {
    if matches!(o, Op::Dealloc { .. } | Op::Shrink { .. } | Op::ShrinkSlice { .. }) { None } else { Some(*o) }
}
fn map_flip_try(o: &Op) -> Option<Op> {
    Some(match *o {
        Op::Typed { op, try_ } => Op::Typed { op, try_: !try_ },
        Op::PrepSlice { elem, min_cap, commit, rev, try_ } => Op::PrepSlice { elem, min_cap, commit, rev, try_: !try_ },
        Op::Reserve { n, try_ } => Op::Reserve { n, try_: !try_ },
        Op::TryWith { mutable, ok, inner, try_ } => Op::TryWith { mutable, ok, inner, try_: !try_ },
        o => o,
    })
}
/// typed fast paths -> the generic layout path of the allocator interface
fn map_generic(o: &Op) -> Option<Op> {
    let a = |size: usize, align: usize| Op::Alloc { size: size as u32, align: align as u32, zeroed: false };
    Some(match *o {
        Op::Typed { op, try_ } => match op {
            TypedOp::Layout(s, al_) => a(s, al_),
            TypedOp::SizedU8 => a(1, 1),
            TypedOp::SizedU64 => a(8, 8),
            TypedOp::SizedArr3 => a(3, 1),
            TypedOp::SizedA32 => a(32, 32),
            TypedOp::SliceU8(n) => a(n, 1),
            TypedOp::SliceU64(n) => a(8 * n, 8),
            TypedOp::SliceArr3(n) => a(3 * n, 1),
            TypedOp::SliceForU64(n) => a(8 * n, 8),
            TypedOp::AllocU64 => Op::Typed { op: TypedOp::SizedU64, try_ },
            TypedOp::AllocSliceCopyU8(n) => Op::Typed { op: TypedOp::SliceU8(n), try_ },
            TypedOp::AllocUninitU64 => Op::Typed { op: TypedOp::SizedU64, try_ },
            TypedOp::AllocUninitSliceU8(n) => Op::Typed { op: TypedOp::SliceU8(n), try_ },
            TypedOp::SliceOverflow | TypedOp::AllocUnit => return None,
        },
        // shrink_slice on a block that is no longer typed is not expressible
        Op::ShrinkSlice { .. } => return None,
        o => o,
    })
}
fn map_in_scope(o: &Op) -> Option<Op> {
    if matches!(o, Op::Reset | Op::ResetToStart) { None } else { Some(*o) }
}

/// C15: the parameter space of exclusive-borrow collections and `*_mut` helpers
pub fn c15_specs(thorough: bool) -> Vec<Op> {
    use vcore::mutcoll::*;
    let mut v = Vec::new();
    let elems: &[u8] = &[0, 1, 3, 8, 24, 32];
    let pushes: &[u8] = if thorough { &[0, 1, 2, 3, 5, 9, 17, 33, 45, 70] } else { &[0, 1, 3, 17, 45] };
    let caps: &[u8] = if thorough { &[255, 0, 1, 3, 40] } else { &[255, 3, 40] };
    let extras = [MutExtra::None, MutExtra::Reserve(50), MutExtra::ReserveExact(50), MutExtra::ExtendUnder(5), MutExtra::ExtendOver(5), MutExtra::WithinCopy];
    // the other constructors (cap codes 251..=254), three elements each, then pushes as usual
    for kind in [MutKind::Vec, MutKind::VecRev] {
        for &elem in elems {
            for cap in 251..=254u8 {
                for &p in if thorough { &[0u8, 1, 3, 17, 45][..] } else { &[0u8, 3, 45][..] } {
                    for extra in [MutExtra::None, MutExtra::Reserve(50)] {
                        for end in [MutEnd::Drop, MutEnd::Unwind, MutEnd::Finalise, MutEnd::FinaliseBoxed] {
                            v.push(Op::MutColl(MutSpec { kind, elem, cap, pushes: p, extra, end }));
                        }
                    }
                }
            }
        }
    }
    for kind in [MutKind::Vec, MutKind::VecRev] {
        for &elem in elems {
            for &cap in caps {
                for &p in pushes {
                    for extra in extras {
                        for end in [MutEnd::Drop, MutEnd::Unwind, MutEnd::Finalise, MutEnd::FinaliseBoxed] {
                            v.push(Op::MutColl(MutSpec { kind, elem, cap, pushes: p, extra, end }));
                        }
                    }
                }
            }
        }
    }
    let str_ctor_caps: &[u8] = &[250, 251, 252, 253, 254];
    for &cap in caps.iter().chain(str_ctor_caps.iter()) {
        for &p in pushes {
            for extra in [MutExtra::None, MutExtra::Reserve(50), MutExtra::ReserveExact(50), MutExtra::WithinCopy] {
                for end in [MutEnd::Drop, MutEnd::Unwind, MutEnd::Finalise, MutEnd::FinaliseBoxed, MutEnd::FinaliseCstr] {
                    v.push(Op::MutColl(MutSpec { kind: MutKind::Str, elem: 1, cap, pushes: p, extra, end }));
                }
            }
        }
    }
    for kind in [MutKind::IterMut, MutKind::IterMutRev] {
        for &elem in elems {
            for &p in pushes {
                for extra in [MutExtra::None, MutExtra::ExtendUnder(0), MutExtra::ExtendOver(0)] {
                    for end in [MutEnd::Finalise, MutEnd::Unwind] {
                        v.push(Op::MutColl(MutSpec { kind, elem, cap: 255, pushes: p, extra, end }));
                    }
                }
            }
        }
    }
    // the same vectors with a trait object as the allocator (`&mut dyn MutBumpAllocatorCoreScope`)
    for kind in [MutKind::VecDyn, MutKind::VecRevDyn] {
        for &elem in elems {
            for &cap in caps {
                for &p in pushes {
                    for extra in [MutExtra::None, MutExtra::Reserve(50)] {
                        for end in [MutEnd::Drop, MutEnd::Unwind, MutEnd::Finalise, MutEnd::FinaliseBoxed] {
                            v.push(Op::MutColl(MutSpec { kind, elem, cap, pushes: p, extra, end }));
                        }
                    }
                }
            }
        }
    }
    // alloc_try_with_mut: closure returns Ok (Finalise) / Err (Drop) / panics (Unwind); cap 0 = the try_ twin
    for &elem in elems {
        for cap in [255u8, 0] {
            for end in [MutEnd::Finalise, MutEnd::Drop, MutEnd::Unwind] {
                // extra = Reserve(1): the error type is larger than the value
                for extra in [MutExtra::None, MutExtra::Reserve(1)] {
                    v.push(Op::MutColl(MutSpec { kind: MutKind::TryWithMut, elem, cap, pushes: 1, extra, end }));
                }
            }
        }
    }
    for kind in [MutKind::FmtMut, MutKind::CstrFmtMut] {
        for &p in pushes {
            for cap in [255u8, 0] {
                for end in [MutEnd::Finalise, MutEnd::Unwind] {
                    v.push(Op::MutColl(MutSpec { kind, elem: 1, cap, pushes: p, extra: MutExtra::None, end }));
                }
            }
        }
    }
    v
}

fn nontrivial_c15(c: &Cover, h: &[Op]) -> bool {
    use vcore::mutcoll::*;
    h.iter().any(|o| matches!(o, Op::MutColl(m) if m.pushes > 0 || !matches!(m.extra, MutExtra::None))) && (c.chunk_switch || h.len() > 1)
}

pub fn c17_variants() -> Vec<Variant> {
    let v = |name: &'static str, h: Option<Handle>, map: fn(&Op) -> Option<Op>, wrap: bool| Variant { name, h, map, by_value_wrap: wrap };
    vec![
        v("ref", Some(Handle::Ref), map_id, false),
        v("refref", Some(Handle::RefRef), map_id, false),
        v("dyn", Some(Handle::Dyn), map_id, false),
        v("dyncore", Some(Handle::DynCore), map_id, false),
        v("refmut", Some(Handle::RefMut), map_id, false),
        v("dynmut", Some(Handle::DynMut), map_id, false),
        v("without_dealloc", Some(Handle::WoDealloc), map_no_dealloc, false),
        v("without_shrink", Some(Handle::WoShrink), map_no_shrink, false),
        v("without_shrink(without_dealloc)", Some(Handle::WoShrinkWoDealloc), map_no_dealloc_no_shrink, false),
        v("without_dealloc(without_shrink)", Some(Handle::WoDeallocWoShrink), map_no_dealloc_no_shrink, false),
        v("try_twin", None, map_flip_try, false),
        v("dyn+try_twin", Some(Handle::Dyn), map_flip_try, false),
        v("generic_layout_path", None, map_generic, false),
        v("bump_scope_by_value", None, map_in_scope, true),
    ]
}

fn al(size: u32, align: u32) -> Op {
    Op::Alloc { size, align, zeroed: false }
}

fn params(handles: &[Handle], ctors: &[Ctor], slabs: &[SlabCfg]) -> Vec<RunParams> {
    let mut v = Vec::new();
    for &h in handles {
        for &ctor in ctors {
            for &slab in slabs {
                v.push(RunParams { ctor, h, slab, roundtrip: false });
            }
        }
    }
    v
}

fn nontrivial_c01(c: &Cover, _h: &[Op]) -> bool {
    c.multi_live || c.chunk_switch || c.inplace_realloc || c.moved_realloc
}

/// The general allocator-API alphabet shared by C01 / C02 / C10 / C13 (each property adds its own emphasis).
fn base_alphabet() -> Vec<Op> {
    vec![
        al(1, 1),
        al(3, 1),
        al(8, 8),
        al(24, 8),
        al(4, 16),
        al(40, 32),
        al(0, 1),
        Op::Alloc { size: 8, align: 1, zeroed: true },
        Op::AllocRem { extra: 1, align: 1 },
        Op::Grow { sel: Sel::Newest, delta: 8, align: 0, zeroed: false },
        Op::Grow { sel: Sel::Newest, delta: 16, align: 32, zeroed: true },
        Op::Grow { sel: Sel::Second, delta: 3, align: 0, zeroed: false },
        Op::GrowRem { sel: Sel::Newest, extra: 1 },
        Op::Shrink { sel: Sel::Newest, to: ShrinkTo::Half, align: 0 },
        Op::Shrink { sel: Sel::Newest, to: ShrinkTo::Half, align: 32 },
        Op::Shrink { sel: Sel::Second, to: ShrinkTo::MinusOne, align: 0 },
        Op::Dealloc { sel: Sel::Newest },
        Op::Dealloc { sel: Sel::Second },
        Op::Split { sel: Sel::Newest },
        Op::Typed { op: TypedOp::SizedU64, try_: true },
        Op::Typed { op: TypedOp::SliceArr3(3), try_: false },
        // the closure of alloc_try_with allocates through the same arena (into another chunk for small chunks) and fails
        Op::TryWith { mutable: false, ok: false, inner: Some((700, 8)), try_: true },
        Op::Prep { size: 8, align: 8, commit: Commit::Half, rev: false },
        Op::Prep { size: 6, align: 2, commit: Commit::Full, rev: true },
        Op::PrepSlice { elem: 8, min_cap: 2, commit: Commit::Full, rev: false, try_: true },
        Op::PrepSlice { elem: 3, min_cap: 3, commit: Commit::Half, rev: true, try_: false },
        Op::Reserve { n: 64, try_: true },
        Op::Enter(Region::Scoped),
        Op::Enter(Region::Checkpoint),
        Op::Enter(Region::ByValue),
        Op::Exit,
        Op::Reset,
        Op::ResetToStart,
    ]
}


const RULE_VECBUF: &str = "collection buffers as live blocks: every enabled history over {3 plain allocations, allocate-the-remainder, 10 BumpVec<u8|u64> actions on a live block viewed as a full vector (push, try_push, try_reserve, reserve_exact(700), extend_from_slice_copy, pop + shrink_to_fit, pop + into_boxed_slice, drop; on the newest or the second-newest block), split, scoped, exit} up to the depth bound (quick 4, thorough 5), per configuration and run-parameter set; the buffer the vector ends up with replaces the block in the model and all per-step oracles apply to it; non-trivial = a vector action reallocated (in place or moved)";

/// "a collection buffer" as a live block: blocks are handed to a `BumpVec<u8 | u64>` that pushes, reserves, extends,
/// shrinks, converts to a box or drops, interleaved with plain allocations, scopes and splits.
fn vecbuf_alphabet() -> Vec<Op> {
    let vb = |sel, act, try_| Op::VecBuf { sel, act, try_ };
    vec![
        al(3, 1),
        al(16, 1),
        al(24, 8),
        Op::AllocRem { extra: 1, align: 1 },
        vb(Sel::Newest, VecAct::Push, false),
        vb(Sel::Second, VecAct::Push, true),
        vb(Sel::Newest, VecAct::Reserve(5), true),
        vb(Sel::Newest, VecAct::ReserveExact(700), false),
        vb(Sel::Second, VecAct::ExtendCopy(9), false),
        vb(Sel::Newest, VecAct::PopShrinkFit, false),
        vb(Sel::Second, VecAct::PopShrinkFit, false),
        vb(Sel::Newest, VecAct::PopIntoBoxed, false),
        vb(Sel::Newest, VecAct::Drop, false),
        vb(Sel::Second, VecAct::Drop, false),
        Op::Split { sel: Sel::Newest },
        Op::Enter(Region::Scoped),
        Op::Exit,
    ]
}
fn nontrivial_vecbuf(c: &Cover, h: &[Op]) -> bool {
    (c.inplace_realloc || c.moved_realloc) && h.iter().any(|o| matches!(o, Op::VecBuf { .. }))
}

fn nontrivial_c03(c: &Cover, h: &[Op]) -> bool {
    (c.chunk_switch || c.unwound || c.depth2) && h.iter().any(|o| matches!(o, Op::Enter(_) | Op::TryWith { .. } | Op::Reset | Op::ResetToStart))
}
fn nontrivial_c05(c: &Cover, _h: &[Op]) -> bool {
    c.chunk_switch
}
fn nontrivial_c13(c: &Cover, h: &[Op]) -> bool {
    c.reclaim || c.inplace_realloc || h.iter().any(|o| matches!(o, Op::Dealloc { .. } | Op::Shrink { .. } | Op::ShrinkSlice { .. }))
}
fn nontrivial_c14(_c: &Cover, h: &[Op]) -> bool {
    h.iter().any(|o| matches!(o, Op::Orig(_))) || (h.iter().any(|o| matches!(o, Op::Enter(Region::Claim))) && h.iter().any(|o| matches!(o, Op::Exit | Op::ExitUnwind)))
}
fn nontrivial_c18(_c: &Cover, h: &[Op]) -> bool {
    h.iter().any(|o| matches!(o, Op::Enter(Region::Aligned(_) | Region::ScopedAligned(_)))) && h.iter().any(|o| matches!(o, Op::Alloc { .. } | Op::AllocRem { .. }))
}
fn nontrivial_c07(c: &Cover, _h: &[Op]) -> bool {
    c.chunk_switch || c.alloc_failed
}

const ALL_MIN_ALIGNS: [usize; 5] = [1, 2, 4, 8, 16];

#[derive(Clone, Copy, PartialEq, Eq, Debug)]
pub enum Mode {
    /// covering-array configurations, quick depth
    Quick,
    /// covering-array configurations, thorough depth
    Deep,
    /// complete configuration product, quick depth
    Wide,
}

/// quick = one space; thorough = the deep space (covering array, larger depth) followed by the wide space (complete
/// configuration matrix, quick depth), each with its own share of the time budget
pub fn spaces<'a>(prop: &'a str, thorough: bool, deadline: Instant, threads: usize) -> Vec<Space<'a>> {
    if !thorough {
        return spaces_mode(prop, Mode::Quick, deadline, threads);
    }
    let now = Instant::now();
    let total = deadline.saturating_duration_since(now);
    let mut v = spaces_mode(prop, Mode::Deep, now + total.mul_f64(0.6), threads);
    if configs::HAS_FULL {
        v.extend(spaces_mode(prop, Mode::Wide, deadline, threads));
    }
    v
}

/// the "core" subset of an alphabet: the operations that create the interesting predecessor states
/// (mis-aligning allocations, chunk switches, reallocation of the newest block, deallocation, regions)
fn is_core(o: &Op) -> bool {
    match *o {
        Op::Alloc { size, align, zeroed } => matches!((size, align, zeroed), (1, 1, false) | (3, 1, false) | (24, 8, _) | (40, 32, false) | (16, 1, false)),
        Op::AllocRem { extra: 1, align: 1 } => true,
        Op::Grow { sel: Sel::Newest, .. } => true,
        Op::GrowRem { .. } => false,
        Op::Shrink { sel: Sel::Newest, to: ShrinkTo::Half, .. } => true,
        Op::Dealloc { sel: Sel::Newest } | Op::Dealloc { sel: Sel::Second } => true,
        Op::Split { .. } => true,
        Op::Prep { rev: false, .. } => true,
        Op::PrepSlice { rev: true, .. } => true,
        Op::Enter(Region::Scoped) | Op::Enter(Region::ByValue) | Op::Enter(Region::Aligned(1)) | Op::Enter(Region::Claim) | Op::Enter(Region::Guard) => true,
        Op::Exit | Op::ExitUnwind | Op::Reset => true,
        Op::TryWith { mutable: true, ok: false, .. } => true,
        Op::TryWith { mutable: false, ok: false, inner: Some(_), .. } => true,
        _ => false,
    }
}

pub fn spaces_mode<'a>(prop: &'a str, mode: Mode, deadline: Instant, threads: usize) -> Vec<Space<'a>> {
    let thorough = mode == Mode::Deep;
    let (groups, probes) = groups_of(prop);
    let mut cfgs = if mode == Mode::Wide { configs::full() } else { configs::quick() };
    if mode == Mode::Wide && prop == "C12" {
        cfgs.extend(configs::pad());
    }
    let z = SlabCfg::default();
    let og = SlabCfg { phase: 48, overgrant: 40, fail_mask: 0 };
    let og2 = SlabCfg { phase: 4080, overgrant: 100, fail_mask: 0 };
    let mk = |alphabet: Vec<Op>, depth: usize, params: Vec<RunParams>, fault: FaultMode, nontrivial: fn(&Cover, &[Op]) -> bool, rule: &'a str, floor: u64| Space {
        reset_loop: prop == "C03",
        suffix: Vec::new(),
        tail: Vec::new(),
        variants: Vec::new(),
        prop,
        alphabet,
        depth,
        configs: cfgs.clone(),
        params,
        groups,
        probes,
        fault,
        deadline,
        threads,
        nontrivial,
        nontrivial_rule: rule,
        max_violations: 8,
        floor,
    };
    let d = |q: usize, t: usize| if thorough { t } else { q };
    match prop {
        "C01" => {
            let rule = "every enabled history over the alphabet up to the depth bound, per configuration and run-parameter set (quick: the full alphabet to depth 3 and its core subset to depth 4; thorough: the full alphabet to depth 4/5); non-trivial = the history performed a realloc (in place or moved), switched chunks, or had >= 2 non-empty live blocks at some point";
            let ps = params(if thorough { &[Handle::Direct, Handle::WoShrink, Handle::Dyn] } else { &[Handle::Direct, Handle::Dyn] }, &[Ctor::TryNew, Ctor::Unallocated], &[z, og]);
            if mode == Mode::Quick {
                let core: Vec<Op> = base_alphabet().into_iter().filter(is_core).collect();
                vec![mk(base_alphabet(), 3, ps.clone(), FaultMode::None, nontrivial_c01, rule, 1000), mk(core, 4, ps.clone(), FaultMode::None, nontrivial_c01, rule, 1000), mk(vecbuf_alphabet(), 4, ps, FaultMode::None, nontrivial_vecbuf, RULE_VECBUF, 1000)]
            } else {
                vec![mk(base_alphabet(), d(4, 5), ps.clone(), FaultMode::None, nontrivial_c01, rule, 1000), mk(vecbuf_alphabet(), d(4, 5), ps, FaultMode::None, nontrivial_vecbuf, RULE_VECBUF, 1000)]
            }
        }
        "C02" => {
            // emphasis: alignment-changing reallocations, wrappers, zeroing, prepared allocations that move data
            let a = vec![
                al(1, 1),
                al(16, 1),
                al(24, 8),
                al(40, 32),
                Op::Alloc { size: 24, align: 8, zeroed: true },
                // zeroed blocks whose size is not a multiple of their alignment (nothing beyond the block may be zeroed)
                Op::Alloc { size: 5, align: 8, zeroed: true },
                Op::Alloc { size: 9, align: 16, zeroed: true },
                Op::AllocRem { extra: 1, align: 1 },
                Op::Grow { sel: Sel::Newest, delta: 8, align: 0, zeroed: true },
                Op::Grow { sel: Sel::Newest, delta: 0, align: 32, zeroed: false },
                Op::Grow { sel: Sel::Second, delta: 16, align: 0, zeroed: true },
                Op::Grow { sel: Sel::Oldest, delta: 1, align: 16, zeroed: false },
                Op::GrowRem { sel: Sel::Newest, extra: 1 },
                Op::Shrink { sel: Sel::Newest, to: ShrinkTo::Half, align: 0 },
                Op::Shrink { sel: Sel::Newest, to: ShrinkTo::Half, align: 32 },
                Op::Shrink { sel: Sel::Newest, to: ShrinkTo::MinusOne, align: 16 },
                Op::Shrink { sel: Sel::Second, to: ShrinkTo::Half, align: 32 },
                Op::Shrink { sel: Sel::Newest, to: ShrinkTo::Zero, align: 0 },
                Op::ShrinkSlice { sel: Sel::Newest, to: ShrinkTo::Half },
                Op::Typed { op: TypedOp::SliceU64(3), try_: true },
                Op::Typed { op: TypedOp::AllocSliceCopyU8(5), try_: false },
                Op::Dealloc { sel: Sel::Newest },
                Op::Dealloc { sel: Sel::Second },
                Op::Split { sel: Sel::Newest },
                Op::Prep { size: 16, align: 8, commit: Commit::Half, rev: false },
                Op::Prep { size: 16, align: 8, commit: Commit::Half, rev: true },
                Op::PrepSlice { elem: 8, min_cap: 3, commit: Commit::Half, rev: false, try_: false },
                Op::PrepSlice { elem: 3, min_cap: 4, commit: Commit::Half, rev: true, try_: true },
                Op::Enter(Region::Scoped),
                Op::Enter(Region::Claim),
                Op::Exit,
                Op::TryWith { mutable: false, ok: true, inner: Some((3, 1)), try_: false },
                Op::TryWith { mutable: false, ok: false, inner: Some((700, 8)), try_: true },
            ];
            let rule = "every enabled history over the alphabet up to the depth bound, per configuration x handle kind x substrate (quick: the full alphabet to depth 3 and its core subset to depth 4; thorough: full alphabet to depth 4/5); non-trivial = the history performed a realloc (in place or moved), switched chunks, or had >= 2 non-empty live blocks";
            let ps = params(&[Handle::Direct, Handle::WoShrink, Handle::WoShrinkWoDealloc, Handle::WoDealloc, Handle::RefMut], &[Ctor::TryNew], &[z, og]);
            if mode == Mode::Quick {
                let core: Vec<Op> = a.iter().copied().filter(|o| is_core(o) || matches!(o, Op::Shrink { align: 32, .. } | Op::Grow { sel: Sel::Second, .. })).collect();
                let psv = params(&[Handle::Direct, Handle::WoShrink, Handle::WoDealloc], &[Ctor::TryNew], &[z, og]);
                vec![mk(a, 3, ps.clone(), FaultMode::None, nontrivial_c01, rule, 1000), mk(core, 4, ps, FaultMode::None, nontrivial_c01, rule, 1000), mk(vecbuf_alphabet(), 4, psv, FaultMode::None, nontrivial_vecbuf, RULE_VECBUF, 1000)]
            } else {
                vec![mk(a, d(4, 5), ps.clone(), FaultMode::None, nontrivial_c01, rule, 1000), mk(vecbuf_alphabet(), d(4, 5), ps, FaultMode::None, nontrivial_vecbuf, RULE_VECBUF, 1000)]
            }
        }
        "C10" => {
            let mut a = base_alphabet();
            a.retain(|o| !matches!(o, Op::Split { .. } | Op::Prep { rev: true, .. }));
            a.push(Op::Enter(Region::Aligned(1)));
            a.push(Op::Enter(Region::Aligned(16)));
            a.push(Op::Enter(Region::Claim));
            a.push(Op::TryWith { mutable: true, ok: false, inner: None, try_: false });
            let rule = "every enabled history over the alphabet up to the depth bound, per configuration and run-parameter set (quick: the full alphabet to depth 3 and its core subset to depth 4; thorough: full alphabet to depth 4/5); non-trivial = the history performed a realloc, switched chunks, or had >= 2 non-empty live blocks";
            let ps = params(if thorough { &[Handle::Direct, Handle::Dyn, Handle::DynCore, Handle::RefRef] } else { &[Handle::Direct, Handle::DynCore] }, &[Ctor::TryNew, Ctor::Unallocated], &[z, og2]);
            if mode == Mode::Quick {
                let core: Vec<Op> = a.iter().copied().filter(|o| is_core(o) || matches!(o, Op::Enter(Region::Aligned(16)))).collect();
                vec![mk(a, 3, ps.clone(), FaultMode::None, nontrivial_c01, rule, 1000), mk(core, 4, ps.clone(), FaultMode::None, nontrivial_c01, rule, 1000), mk(vecbuf_alphabet(), 4, ps, FaultMode::None, nontrivial_vecbuf, RULE_VECBUF, 1000)]
            } else {
                vec![mk(a, d(4, 5), ps.clone(), FaultMode::None, nontrivial_c01, rule, 1000), mk(vecbuf_alphabet(), d(4, 5), ps, FaultMode::None, nontrivial_vecbuf, RULE_VECBUF, 1000)]
            }
        }
        "C13" => {
            let a = vec![
                al(1, 1),
                al(3, 1),
                al(8, 8),
                al(16, 16),
                al(24, 8),
                al(6, 2),
                // sizes that are not multiples of their own alignment
                al(4, 16),
                al(40, 32),
                al(0, 1),
                Op::AllocRem { extra: 1, align: 1 },
                Op::Typed { op: TypedOp::SliceU64(2), try_: true },
                Op::Typed { op: TypedOp::SliceU8(5), try_: true },
                Op::Grow { sel: Sel::Newest, delta: 8, align: 0, zeroed: false },
                Op::Grow { sel: Sel::Newest, delta: 1, align: 0, zeroed: false },
                Op::Grow { sel: Sel::Second, delta: 8, align: 0, zeroed: false },
                Op::Shrink { sel: Sel::Newest, to: ShrinkTo::Half, align: 0 },
                Op::Shrink { sel: Sel::Second, to: ShrinkTo::Half, align: 0 },
                Op::Shrink { sel: Sel::Newest, to: ShrinkTo::Zero, align: 0 },
                // stricter alignment: the "unfit" path (may have to move the block)
                Op::Shrink { sel: Sel::Newest, to: ShrinkTo::Half, align: 4 },
                Op::Shrink { sel: Sel::Newest, to: ShrinkTo::MinusOne, align: 16 },
                Op::Shrink { sel: Sel::Second, to: ShrinkTo::Half, align: 8 },
                Op::ShrinkSlice { sel: Sel::Newest, to: ShrinkTo::Half },
                Op::ShrinkSlice { sel: Sel::Second, to: ShrinkTo::MinusOne },
                Op::Dealloc { sel: Sel::Newest },
                Op::Dealloc { sel: Sel::Second },
                Op::Dealloc { sel: Sel::Oldest },
                // the typed twin (BumpAllocatorTyped::dealloc with a BumpBox)
                Op::DeallocTyped { sel: Sel::Newest },
                Op::DeallocTyped { sel: Sel::Second },
                Op::Enter(Region::Scoped),
                Op::Exit,
            ];
            vec![mk(
                a,
                d(4, 5),
                params(&ALL_HANDLES, &[Ctor::TryNew], &[z]),
                FaultMode::None,
                nontrivial_c13,
                "every enabled history over the alphabet up to the depth bound, per configuration x every handle kind (Bump/BumpScope, &, &&, WithoutDealloc, WithoutShrink, both nestings, dyn); non-trivial = contains a deallocate/shrink/shrink_slice or reclaimed / reallocated in place",
                1000,
            )]
        }
        "C05" => {
            let a = vec![
                al(24, 8),
                al(600, 8),
                Op::AllocRem { extra: 1, align: 1 },
                Op::AllocRem { extra: 40, align: 32 },
                Op::Typed { op: TypedOp::SliceU64(100), try_: true },
                Op::Reserve { n: 64, try_: true },
                Op::ReserveRem { extra: 1 },
                Op::GrowRem { sel: Sel::Newest, extra: 1 },
                Op::PrepSlice { elem: 8, min_cap: 40, commit: Commit::Half, rev: false, try_: true },
                Op::Dealloc { sel: Sel::Newest },
                Op::Enter(Region::Scoped),
                Op::Enter(Region::Claim),
                // by_value on an arena that has no chunk yet creates the first chunk: it must end up owned by the arena
                Op::Enter(Region::ByValue),
                Op::Exit,
                Op::ExitUnwind,
                Op::Reset,
                Op::ResetToStart,
                Op::TryWith { mutable: false, ok: false, inner: Some((700, 8)), try_: true },
            ];
            let mut ps = params(&[Handle::Direct, Handle::Dyn], &[Ctor::TryNew, Ctor::Unallocated, Ctor::TryWithSize(1000), Ctor::TryWithCapacity(100, 32)], &[z, og2]);
            let n = ps.len();
            for i in 0..n {
                if i % 3 == 0 {
                    let mut p = ps[i];
                    p.roundtrip = true;
                    ps.push(p);
                }
            }
            vec![mk(
                a,
                d(4, 5),
                ps,
                if thorough { FaultMode::Pairs } else { FaultMode::Single },
                nontrivial_c05,
                "every enabled history over the chunk-affecting alphabet up to the depth bound followed by drop (or into_raw/from_raw + drop), per configuration x constructor x handle x substrate, and for each history every base-allocator fault set of the stated size; non-trivial = more than one chunk was obtained",
                200,
            )]
        }
        "C07" => {
            let a = vec![
                al(24, 8),
                al(3, 1),
                Op::Alloc { size: 40, align: 32, zeroed: true },
                Op::AllocRem { extra: 1, align: 1 },
                Op::Typed { op: TypedOp::SliceU64(40), try_: true },
                Op::Typed { op: TypedOp::AllocSliceCopyU8(200), try_: true },
                Op::Typed { op: TypedOp::SliceOverflow, try_: true },
                Op::Grow { sel: Sel::Newest, delta: 8, align: 0, zeroed: false },
                Op::GrowRem { sel: Sel::Newest, extra: 1 },
                Op::Shrink { sel: Sel::Newest, to: ShrinkTo::Half, align: 32 },
                Op::Dealloc { sel: Sel::Newest },
                Op::Reserve { n: 64, try_: true },
                Op::ReserveRem { extra: 1 },
                Op::Prep { size: 64, align: 8, commit: Commit::Half, rev: false },
                Op::PrepSlice { elem: 8, min_cap: 40, commit: Commit::Half, rev: true, try_: true },
                Op::AllocHuge { align: 1 },
                Op::AllocHuge { align: 4096 },
                Op::GrowHuge { sel: Sel::Newest },
                Op::ReserveHuge { max: true },
                Op::ReserveHuge { max: false },
                Op::Enter(Region::Scoped),
                Op::Enter(Region::Claim),
                Op::Exit,
                Op::TryWith { mutable: true, ok: true, inner: None, try_: true },
            ];
            vec![mk(
                a,
                d(4, 4),
                params(if thorough { &[Handle::Direct, Handle::Dyn, Handle::WoShrinkWoDealloc] } else { &[Handle::Direct, Handle::Dyn] }, &[Ctor::TryNew, Ctor::Unallocated], &[z, og]),
                if thorough { FaultMode::Pairs } else { FaultMode::Single },
                nontrivial_c07,
                "every enabled history over the try_/allocator-interface alphabet (incl. overflowing requests) up to the depth bound, and for each history every base-allocator fault set of the stated size (calls counted from arena construction); non-trivial = a base-allocator call was refused or more than one chunk was obtained",
                200,
            )]
        }
        "C12" => {
            let a = vec![
                Op::AllocRem { extra: 1, align: 1 },
                Op::AllocRem { extra: 1, align: 16 },
                Op::AllocRem { extra: 40, align: 32 },
                Op::AllocRem { extra: 33, align: 256 },
                Op::AllocRem { extra: 7, align: 4096 },
                al(3, 1),
                al(1000, 8),
                al(5000, 64),
                // the layouts of the with_capacity constructors below (first op: must fit without another chunk),
                // including zero-sized over-aligned ones
                al(1, 1),
                al(100, 64),
                al(5000, 4096),
                al(0, 4096),
                al(0, 64),
                Op::Typed { op: TypedOp::SliceU64(100), try_: true },
                Op::Typed { op: TypedOp::SizedA32, try_: false },
                Op::Typed { op: TypedOp::AllocSliceCopyU8(500), try_: false },
                Op::PrepSlice { elem: 32, min_cap: 9, commit: Commit::Full, rev: false, try_: true },
                Op::PrepSlice { elem: 8, min_cap: 90, commit: Commit::Half, rev: true, try_: true },
                Op::Prep { size: 640, align: 64, commit: Commit::Half, rev: false },
                Op::Reserve { n: 700, try_: true },
                Op::ReserveRem { extra: 1 },
                Op::GrowRem { sel: Sel::Newest, extra: 1 },
                Op::Enter(Region::Scoped),
                Op::Exit,
            ];
            vec![mk(
                a,
                d(3, 4),
                params(
                    &[Handle::Direct, Handle::Dyn],
                    &[Ctor::TryNew, Ctor::Unallocated, Ctor::TryWithCapacity(1, 1), Ctor::TryWithCapacity(100, 64), Ctor::TryWithCapacity(5000, 4096), Ctor::TryWithCapacity(0, 4096), Ctor::TryWithCapacity(0, 64), Ctor::TryWithSize(0), Ctor::TryWithSize(3000)],
                    &[z, og, og2],
                ),
                FaultMode::None,
                nontrivial_c05,
                "every enabled history over the chunk-creating alphabet up to the depth bound, per configuration x constructor (with_capacity / with_size / unallocated) x substrate (exact and over-granting); non-trivial = more than one chunk was obtained",
                200,
            )]
        }
        "C03" => {
            let a = vec![
                Op::Enter(Region::Scoped),
                Op::Enter(Region::ScopedAligned(8)),
                Op::Enter(Region::Guard),
                Op::Enter(Region::GuardReset),
                Op::Enter(Region::Checkpoint),
                Op::Enter(Region::Claim),
                Op::Enter(Region::Aligned(2)),
                Op::Enter(Region::ByValue),
                Op::Exit,
                Op::ExitUnwind,
                al(3, 1),
                al(24, 8),
                Op::AllocRem { extra: 1, align: 1 },
                // fills the current chunk exactly: a checkpoint taken now sits on the chunk's last address, which on the
                // packed substrate is also the first address of the next chunk
                Op::AllocRem { extra: 0, align: 1 },
                Op::Grow { sel: Sel::Newest, delta: 8, align: 0, zeroed: false },
                Op::Dealloc { sel: Sel::Newest },
                Op::TryWith { mutable: true, ok: false, inner: None, try_: false },
                Op::TryWith { mutable: false, ok: false, inner: None, try_: false },
                Op::Reset,
                Op::ResetToStart,
            ];
            // pk: the packed substrate (grants back to back like a region allocator: consecutive chunks are adjacent)
            let pk = SlabCfg { phase: vcore::slab::PACKED_PHASE, overgrant: 0, fail_mask: 0 };
            let ps = params(&[Handle::Direct], &[Ctor::TryNew, Ctor::Unallocated], &[z, og, pk]);
            if mode == Mode::Quick {
                // full alphabet to depth 4, the core subset (one scope kind per mechanism) to depth 5
                let core: Vec<Op> = a.iter().copied().filter(|o| is_core(o) || matches!(o, Op::Enter(Region::Checkpoint))).collect();
                let r = "every enabled (well-nested) history over scope kinds {scoped, scoped_aligned, guard drop, guard reset, checkpoint/reset_to, claim, aligned, by_value} x exits {return, unwind} x workload ops (quick: full alphabet to depth 4, core subset to depth 5); every closed scope is additionally re-run in a fresh scope with the same concrete requests (must need no base-allocator call), and every history shorter than the depth bound is run six times in a `history; reset()` loop (the last two rounds must not reach the base allocator); non-trivial = a scope/reset history that switched chunks, unwound or nested >= 2 scopes";
                return vec![mk(a, 4, ps.clone(), FaultMode::None, nontrivial_c03, r, 500), mk(core, 5, ps, FaultMode::None, nontrivial_c03, r, 500)];
            }
            vec![mk(
                a,
                d(5, 6),
                ps,
                FaultMode::None,
                nontrivial_c03,
                "every enabled (well-nested) history over scope kinds {scoped, scoped_aligned, guard drop, guard reset, checkpoint/reset_to, claim, aligned} x exits {return, unwind} x workload ops up to the depth bound; every closed scope is additionally re-run in a fresh scope (must need no base-allocator call); non-trivial = a scope/reset history that switched chunks, unwound or nested >= 2 scopes",
                500,
            )]
        }
        "C14" => {
            let a = vec![
                al(8, 8),
                al(3, 1),
                Op::AllocRem { extra: 1, align: 1 },
                Op::Enter(Region::Claim),
                Op::Enter(Region::Scoped),
                Op::Exit,
                Op::ExitUnwind,
                Op::Orig(OrigOp::Allocate(8, 8)),
                Op::Orig(OrigOp::Allocate(0, 1)),
                Op::Orig(OrigOp::TryTyped),
                Op::Orig(OrigOp::PanickingTyped),
                Op::Orig(OrigOp::ZstTyped),
                Op::Orig(OrigOp::GrowOld),
                Op::Orig(OrigOp::ShrinkOld),
                Op::Orig(OrigOp::DeallocOld),
                Op::Orig(OrigOp::TryReserve(8)),
                Op::Orig(OrigOp::PanickingReserve(8)),
                Op::Orig(OrigOp::TryReserve(0)),
                Op::Orig(OrigOp::PanickingReserve(0)),
                Op::Orig(OrigOp::Prepare(8)),
                Op::Orig(OrigOp::Stats),
                Op::Orig(OrigOp::ClaimAgain),
            ];
            vec![mk(
                a,
                d(5, 6),
                params(&[Handle::Direct, Handle::Dyn, Handle::WoDeallocWoShrink], &[Ctor::TryNew, Ctor::Unallocated], &[z]),
                FaultMode::None,
                nontrivial_c14,
                "every enabled history interleaving operations on the claim guard (allocation, chunk growth, inner scopes, nested claims, exits by return/unwind) with operations on the claimed original (14 kinds, including zero-byte reserves) up to the depth bound; non-trivial = an operation on the claimed original was executed or a claim was ended explicitly",
                500,
            )]
        }
        "C18" => {
            let mut a = vec![
                al(1, 1),
                al(3, 1),
                al(6, 4),
                Op::AllocRem { extra: 1, align: 1 },
                Op::Dealloc { sel: Sel::Newest },
                Op::Enter(Region::Scoped),
                Op::Enter(Region::ByValue),
                Op::Exit,
                Op::ExitUnwind,
            ];
            for n in ALL_MIN_ALIGNS {
                a.push(Op::Enter(Region::Aligned(n)));
            }
            for n in [1, 4, 16] {
                a.push(Op::Enter(Region::ScopedAligned(n)));
            }
            vec![mk(
                a,
                d(5, 6),
                params(&[Handle::Direct], &[Ctor::TryNew, Ctor::Unallocated], &[z]),
                FaultMode::None,
                nontrivial_c18,
                "every enabled history nesting aligned::<N> / scoped_aligned::<N> / scoped (N over all supported alignments, outer alignment = every configuration's MIN_ALIGN) with allocations of sizes that are not multiples of N, chunk switches, deallocation and exits by return/unwind; non-trivial = an alignment region containing an allocation",
                500,
            )]
        }
        "C15" => {
            // prelude (misaligns the position / fills the chunk) ++ one collection life cycle ++ optional follow-up
            let mut prelude = vec![al(1, 1), al(3, 1), al(24, 8), Op::AllocRem { extra: 0, align: 1 }, Op::Enter(Region::Scoped), Op::Enter(Region::Aligned(1))];
            if thorough {
                // a retained later chunk (scope that grew a chunk, then left) and more alignment regions
                prelude.extend([Op::AllocRem { extra: 1, align: 1 }, Op::Exit, Op::Enter(Region::Aligned(16)), Op::Enter(Region::ByValue)]);
            }
            let mut sp = mk(
                prelude,
                if thorough { 3 } else { 2 },
                params(&[Handle::Direct], &[Ctor::TryNew, Ctor::Unallocated], &[z]),
                FaultMode::None,
                nontrivial_c15,
                "every prelude of <= 2 (thorough: 3, over a larger alphabet incl. a retained later chunk) operations (allocations that misalign the position or exhaust the chunk, scope / alignment regions) followed by every collection life cycle of the parameter space {MutBumpVec, MutBumpVecRev, MutBumpString, alloc_iter_mut(_rev), alloc_fmt_mut, alloc_cstr_fmt_mut, alloc_try_with_mut} x element type (ZST, 1/1, 3/1, 8/8, 24/8, 32/32) x initial capacity x number of pushes (up to beyond two chunk capacities) x {reserve, extend with under-/over-reporting size hints} x end {drop, unwind from a user callback, into_slice, into_boxed_slice / into_str / into_cstr / helper return}, optionally followed by one more allocation; positions of all chunks are recorded at every phase; non-trivial = a life cycle with at least one element after a non-empty prelude or with a chunk switch",
                500,
            );
            sp.suffix = c15_specs(thorough);
            sp.tail = vec![al(8, 8)];
            vec![sp]
        }
        "C17" => {
            let t = |op: TypedOp| Op::Typed { op, try_: true };
            let a = vec![
                al(3, 1),
                al(8, 8),
                al(40, 32),
                t(TypedOp::SizedU64),
                t(TypedOp::SizedArr3),
                t(TypedOp::SizedA32),
                t(TypedOp::SliceU8(5)),
                t(TypedOp::SliceU64(3)),
                t(TypedOp::SliceForU64(2)),
                t(TypedOp::Layout(24, 8)),
                t(TypedOp::AllocU64),
                t(TypedOp::AllocSliceCopyU8(7)),
                t(TypedOp::AllocUninitSliceU8(9)),
                Op::AllocRem { extra: 1, align: 1 },
                Op::Grow { sel: Sel::Newest, delta: 8, align: 0, zeroed: false },
                Op::Grow { sel: Sel::Newest, delta: 16, align: 0, zeroed: true },
                Op::Alloc { size: 16, align: 4, zeroed: true },
                Op::Shrink { sel: Sel::Newest, to: ShrinkTo::Half, align: 0 },
                Op::ShrinkSlice { sel: Sel::Newest, to: ShrinkTo::Half },
                Op::Dealloc { sel: Sel::Newest },
                Op::Dealloc { sel: Sel::Second },
                Op::Reserve { n: 64, try_: true },
                Op::Prep { size: 8, align: 8, commit: Commit::Half, rev: false },
                Op::PrepSlice { elem: 8, min_cap: 2, commit: Commit::Full, rev: false, try_: true },
                Op::PrepSlice { elem: 3, min_cap: 3, commit: Commit::Half, rev: true, try_: true },
                Op::TryWith { mutable: true, ok: false, inner: None, try_: true },
                Op::Enter(Region::Scoped),
                Op::Exit,
                Op::ResetToStart,
            ];
            // an arena without a chunk takes the entry points through the chunk-creating slow path first
            let mut ps = params(&[Handle::Direct], &[Ctor::TryNew], &[z, og]);
            ps.extend(params(&[Handle::Direct], &[Ctor::Unallocated], &[z]));
            let mut sp = mk(
                a,
                d(3, 4),
                ps,
                FaultMode::None,
                nontrivial_c01,
                "every enabled history over the alphabet up to the depth bound is executed through the reference entry point (Bump / BumpScope inherent and static trait impls) and through 14 alternative entry points (&, &&, &mut, dyn MutBumpAllocatorCoreScope, WithoutDealloc, WithoutShrink, both nestings, dyn BumpAllocatorCoreScope, dyn BumpAllocatorCore, panicking twin, dyn + panicking twin, generic layout path instead of typed fast paths, BumpScope by value instead of Bump); after every step the chunk index and offset of the returned block, its layout, allocated(), count() and remaining() must be equal; transitions counts reference + variant runs; non-trivial = the reference history performed a realloc, switched chunks or had >= 2 live blocks",
                500,
            );
            sp.variants = c17_variants();
            vec![sp]
        }
        _ => panic!("unknown property {prop}"),
    }
}
