//! C14, collections created before a claim: "collections created earlier through that handle keep their contents",
//! growth requests made through them while the claim is alive fail (Err from try_ methods, an unwinding panic from
//! panicking ones), and after the guard is gone (normally or by unwinding) they keep working.
//!
//! Closed product: configuration x collection kind x initial length x guard activity x operation on the old
//! collection during the claim x how the guard ends.

use bump_scope::settings::{BumpAllocatorSettings, BumpSettings};
use bump_scope::traits::{BumpAllocatorCore, BumpAllocatorCoreScope, BumpAllocatorTyped, BumpAllocatorTypedScope};
use bump_scope::{BaseAllocator, Bump, BumpString, BumpVec, WithoutDealloc, WithoutShrink};
use std::panic::{AssertUnwindSafe, catch_unwind};
use vcore::slab::{self, SlabCfg, SlabZ};

type S<const MA: usize, const UP: bool> = BumpSettings<MA, UP, true, true, true, true, 0>;

#[derive(Clone, Copy, Debug, PartialEq, Eq)]
pub enum GuardAct {
    Nothing,
    AllocSmall,
    AllocBig,
    ScopedAlloc,
    NestedClaim,
}

#[derive(Clone, Copy, Debug, PartialEq, Eq)]
pub enum OldOp {
    Nothing,
    TryPush,
    TryReserve,
    TryExtend,
    PanickingPush,
    PanickingReserve,
    Pop,
    Truncate,
    ShrinkToFit,
    Read,
}

pub struct Outcome {
    pub id: String,
    pub msg: Option<String>,
    pub nontrivial: bool,
}

const GUARD_ACTS: [GuardAct; 5] = [GuardAct::Nothing, GuardAct::AllocSmall, GuardAct::AllocBig, GuardAct::ScopedAlloc, GuardAct::NestedClaim];
const OLD_OPS: [OldOp; 10] = [OldOp::Nothing, OldOp::TryPush, OldOp::TryReserve, OldOp::TryExtend, OldOp::PanickingPush, OldOp::PanickingReserve, OldOp::Pop, OldOp::Truncate, OldOp::ShrinkToFit, OldOp::Read];

struct Injected;

fn vec_case<St>(n: u32, fill: bool, ga: GuardAct, op: OldOp, unwind: bool) -> Result<bool, String>
where
    St: BumpAllocatorSettings + 'static,
    SlabZ: BaseAllocator<St::GuaranteedAllocated>,
{
    slab::select(0);
    slab::reset(0, SlabCfg::default());
    let _ = vcore::crash::take_last_panic();
    let bump: Bump<SlabZ, St> = Bump::new_in(SlabZ);
    let mut v: BumpVec<u32, &Bump<SlabZ, St>> = BumpVec::from_iter_in(1..=n, &bump);
    if fill {
        // use up the spare capacity, so that the next push has to ask the (claimed) allocator
        while v.len() < v.capacity() {
            v.push(1000 + v.len() as u32);
        }
    }
    let mut model: Vec<u32> = v.iter().copied().collect();
    let calls_before = slab::with_slab(0, |s| s.calls);
    let mut failed_as_required = false;
    let mut guard_block: Option<(usize, usize)> = None;
    let mut viol: Option<String> = None;
    let r = catch_unwind(AssertUnwindSafe(|| {
        let mut guard = bump.claim();
        match ga {
            GuardAct::Nothing => {}
            GuardAct::AllocSmall => {
                let p = guard.alloc_slice_fill(8, 0xE7u8).into_raw();
                guard_block = Some((p.as_ptr() as *mut u8 as usize, 8));
            }
            GuardAct::AllocBig => {
                let p = guard.alloc_slice_fill(3000, 0xE7u8).into_raw();
                guard_block = Some((p.as_ptr() as *mut u8 as usize, 3000));
            }
            GuardAct::ScopedAlloc => {
                guard.scoped(|s| {
                    let _ = s.alloc_slice_fill(700, 0x3Cu8);
                });
            }
            GuardAct::NestedClaim => {
                let inner = guard.claim();
                let p = inner.alloc_slice_fill(8, 0xE7u8).into_raw();
                guard_block = Some((p.as_ptr() as *mut u8 as usize, 8));
            }
        }
        let full = v.len() == v.capacity();
        match op {
            OldOp::Nothing => {}
            OldOp::TryPush => match v.try_push(4242) {
                Ok(()) if full => viol = Some("try_push on a full collection of the claimed allocator succeeded".into()),
                Ok(()) => model.push(4242),
                Err(_) if !full => viol = Some("try_push with spare capacity failed".into()),
                Err(_) => failed_as_required = true,
            },
            OldOp::TryReserve => match v.try_reserve(500) {
                Ok(()) => viol = Some("try_reserve(500) through a collection of the claimed allocator succeeded".into()),
                Err(_) => failed_as_required = true,
            },
            OldOp::TryExtend => match v.try_extend_from_slice_copy(&[7; 300]) {
                Ok(()) => viol = Some("try_extend_from_slice_copy of 300 elements through a collection of the claimed allocator succeeded".into()),
                Err(_) => failed_as_required = true,
            },
            OldOp::PanickingPush => {
                let r = catch_unwind(AssertUnwindSafe(|| v.push(4242)));
                match r {
                    Ok(()) if full => viol = Some("push on a full collection of the claimed allocator returned normally".into()),
                    Ok(()) => model.push(4242),
                    Err(_) if !full => viol = Some(format!("push with spare capacity panicked: {}", vcore::crash::take_last_panic().unwrap_or_default())),
                    Err(_) => {
                        let _ = vcore::crash::take_last_panic();
                        failed_as_required = true
                    }
                }
            }
            OldOp::PanickingReserve => {
                let r = catch_unwind(AssertUnwindSafe(|| v.reserve(500)));
                match r {
                    Ok(()) => viol = Some("reserve(500) through a collection of the claimed allocator returned normally".into()),
                    Err(_) => {
                        let _ = vcore::crash::take_last_panic();
                        failed_as_required = true
                    }
                }
            }
            OldOp::Pop => {
                if v.pop() != model.pop() {
                    viol = Some("pop during the claim returned a different element".into());
                }
            }
            OldOp::Truncate => {
                v.truncate(1);
                model.truncate(1);
            }
            OldOp::ShrinkToFit => v.shrink_to_fit(),
            OldOp::Read => {}
        }
        if viol.is_none() && v.iter().copied().collect::<Vec<u32>>() != model {
            viol = Some(format!("contents during the claim are {:?}, expected {:?}", v.iter().copied().collect::<Vec<u32>>(), model));
        }
        if unwind {
            std::panic::panic_any(Injected);
        }
        drop(guard);
    }));
    if let Err(e) = &r {
        if !e.is::<Injected>() {
            return Err(format!("unexpected panic: {}", vcore::crash::take_last_panic().unwrap_or_default()));
        }
    }
    let _ = vcore::crash::take_last_panic();
    if let Some(m) = viol {
        return Err(m);
    }
    if bump.is_claimed() {
        return Err("the allocator is still claimed after the guard is gone".into());
    }
    let got: Vec<u32> = v.iter().copied().collect();
    if got != model {
        return Err(format!("after the claim the collection holds {:?}, expected {:?}", got, model));
    }
    let check_guard_block = |when: &str| -> Result<(), String> {
        if let Some((p, len)) = guard_block {
            let ok = unsafe { std::slice::from_raw_parts(p as *const u8, len) }.iter().all(|&b| b == 0xE7);
            if !ok {
                return Err(format!("the block allocated through the guard changed {when}"));
            }
        }
        Ok(())
    };
    check_guard_block("when the guard was dropped")?;
    // the old collection keeps working, and growing it does not disturb what the guard allocated
    for i in 0..40u32 {
        v.push(9000 + i);
        model.push(9000 + i);
    }
    let got: Vec<u32> = v.iter().copied().collect();
    if got != model {
        return Err(format!("after the claim and 40 more pushes the collection holds {:?}, expected {:?}", got, model));
    }
    check_guard_block("when the old collection grew after the claim")?;
    drop(v);
    drop(bump);
    let (errs, guards, outstanding) = slab::with_slab(0, |s| (s.errors.first().cloned(), s.check_guards(), s.outstanding()));
    if let Some(e) = errs {
        return Err(format!("base allocator protocol: {e}"));
    }
    if let Err(e) = guards {
        return Err(format!("memory outside granted blocks written: {e}"));
    }
    if outstanding != 0 {
        return Err(format!("{outstanding} chunks never released"));
    }
    let _ = calls_before;
    Ok(failed_as_required)
}

fn string_case<St>(n: u32, fill: bool, ga: GuardAct, op: OldOp, unwind: bool) -> Result<bool, String>
where
    St: BumpAllocatorSettings + 'static,
    SlabZ: BaseAllocator<St::GuaranteedAllocated>,
{
    slab::select(0);
    slab::reset(0, SlabCfg::default());
    let _ = vcore::crash::take_last_panic();
    let bump: Bump<SlabZ, St> = Bump::new_in(SlabZ);
    let init: String = "é€a".chars().cycle().take(n as usize).collect();
    let mut s: BumpString<&Bump<SlabZ, St>> = BumpString::from_str_in(&init, &bump);
    if fill {
        while s.len() < s.capacity() {
            s.push('x');
        }
    }
    let mut model: String = s.as_str().to_string();
    let mut failed_as_required = false;
    let mut guard_block: Option<(usize, usize)> = None;
    let mut viol: Option<String> = None;
    let r = catch_unwind(AssertUnwindSafe(|| {
        let mut guard = bump.claim();
        match ga {
            GuardAct::Nothing => {}
            GuardAct::AllocSmall | GuardAct::NestedClaim => {
                let p = guard.alloc_slice_fill(8, 0xE7u8).into_raw();
                guard_block = Some((p.as_ptr() as *mut u8 as usize, 8));
            }
            GuardAct::AllocBig => {
                let p = guard.alloc_slice_fill(3000, 0xE7u8).into_raw();
                guard_block = Some((p.as_ptr() as *mut u8 as usize, 3000));
            }
            GuardAct::ScopedAlloc => {
                guard.scoped(|sc| {
                    let _ = sc.alloc_slice_fill(700, 0x3Cu8);
                });
            }
        }
        let spare = s.capacity() - s.len();
        match op {
            OldOp::Nothing | OldOp::Read => {}
            OldOp::TryPush => match s.try_push('€') {
                Ok(()) if spare < 3 => viol = Some("try_push('€') without enough spare capacity succeeded on a string of the claimed allocator".into()),
                Ok(()) => model.push('€'),
                Err(_) if spare >= 3 => viol = Some("try_push with spare capacity failed".into()),
                Err(_) => failed_as_required = true,
            },
            OldOp::TryReserve => match s.try_reserve(500) {
                Ok(()) => viol = Some("try_reserve(500) through a string of the claimed allocator succeeded".into()),
                Err(_) => failed_as_required = true,
            },
            OldOp::TryExtend => match s.try_push_str(&"é".repeat(200)) {
                Ok(()) => viol = Some("try_push_str of 400 bytes through a string of the claimed allocator succeeded".into()),
                Err(_) => failed_as_required = true,
            },
            OldOp::PanickingPush => {
                let r = catch_unwind(AssertUnwindSafe(|| s.push('€')));
                match r {
                    Ok(()) if spare < 3 => viol = Some("push('€') without enough spare capacity returned normally on a string of the claimed allocator".into()),
                    Ok(()) => model.push('€'),
                    Err(_) if spare >= 3 => viol = Some("push with spare capacity panicked".into()),
                    Err(_) => {
                        let _ = vcore::crash::take_last_panic();
                        failed_as_required = true
                    }
                }
            }
            OldOp::PanickingReserve => {
                let r = catch_unwind(AssertUnwindSafe(|| s.reserve(500)));
                match r {
                    Ok(()) => viol = Some("reserve(500) through a string of the claimed allocator returned normally".into()),
                    Err(_) => {
                        let _ = vcore::crash::take_last_panic();
                        failed_as_required = true
                    }
                }
            }
            OldOp::Pop => {
                if s.pop() != model.pop() {
                    viol = Some("pop during the claim returned a different char".into());
                }
            }
            OldOp::Truncate => {
                s.truncate(0);
                model.truncate(0);
            }
            OldOp::ShrinkToFit => s.shrink_to_fit(),
        }
        if viol.is_none() && s.as_bytes() != model.as_bytes() {
            viol = Some(format!("contents during the claim are {:?}, expected {:?}", s.as_bytes(), model.as_bytes()));
        }
        if unwind {
            std::panic::panic_any(Injected);
        }
        drop(guard);
    }));
    if let Err(e) = &r {
        if !e.is::<Injected>() {
            return Err(format!("unexpected panic: {}", vcore::crash::take_last_panic().unwrap_or_default()));
        }
    }
    let _ = vcore::crash::take_last_panic();
    if let Some(m) = viol {
        return Err(m);
    }
    if s.as_bytes() != model.as_bytes() {
        return Err(format!("after the claim the string holds {:?}, expected {:?}", s.as_bytes(), model.as_bytes()));
    }
    for _ in 0..60 {
        s.push('ß');
        model.push('ß');
    }
    if s.as_bytes() != model.as_bytes() {
        return Err("after the claim and 60 more pushes the string differs from the model".into());
    }
    if let Some((p, len)) = guard_block {
        let ok = unsafe { std::slice::from_raw_parts(p as *const u8, len) }.iter().all(|&b| b == 0xE7);
        if !ok {
            return Err("the block allocated through the guard changed".into());
        }
    }
    drop(s);
    drop(bump);
    let (errs, guards, outstanding) = slab::with_slab(0, |s| (s.errors.first().cloned(), s.check_guards(), s.outstanding()));
    if let Some(e) = errs {
        return Err(format!("base allocator protocol: {e}"));
    }
    if let Err(e) = guards {
        return Err(format!("memory outside granted blocks written: {e}"));
    }
    if outstanding != 0 {
        return Err(format!("{outstanding} chunks never released"));
    }
    Ok(failed_as_required)
}

/// A claim whose guard was leaked never ends: with exclusive access to the (still claimed) original, the calls that
/// need `&mut self` must be refused as well.
fn leaked_case<St>(op: &str) -> Result<bool, String>
where
    St: BumpAllocatorSettings + 'static,
    SlabZ: BaseAllocator<St::GuaranteedAllocated>,
{
    slab::select(0);
    slab::reset(0, SlabCfg::default());
    let _ = vcore::crash::take_last_panic();
    let mut bump: Bump<SlabZ, St> = Bump::new_in(SlabZ);
    let p = bump.alloc_slice_fill(5, 0xA5u8).into_raw();
    std::mem::forget(bump.claim());
    if !bump.is_claimed() {
        return Err("is_claimed() is false although the claim guard was leaked".into());
    }
    let calls = slab::with_slab(0, |s| s.calls);
    let r: Result<(), String> = match op {
        "try_by_value" => match bump.as_mut_scope().try_by_value() {
            Ok(_) => Err("try_by_value() succeeded on a claimed allocator".into()),
            Err(_) => Ok(()),
        },
        "by_value" => match catch_unwind(AssertUnwindSafe(|| {
            let _ = bump.as_mut_scope().by_value();
        })) {
            Ok(()) => Err("by_value() returned normally on a claimed allocator".into()),
            Err(_) => Ok(()),
        },
        "scoped_try_alloc" => {
            if bump.scoped(|s| s.try_alloc(1u64).is_ok()) {
                Err("try_alloc inside scoped() succeeded on a claimed allocator".into())
            } else {
                Ok(())
            }
        }
        "scope_guard_try_alloc" => {
            let mut g = bump.scope_guard();
            if g.scope().try_alloc_slice_fill(3, 1u8).is_ok() { Err("try_alloc_slice_fill through scope_guard() succeeded on a claimed allocator".into()) } else { Ok(()) }
        }
        "aligned_try_alloc" => {
            if bump.as_mut_scope().aligned::<8, _>(|s| s.try_alloc(1u8).is_ok()) {
                Err("try_alloc inside aligned() succeeded on a claimed allocator".into())
            } else {
                Ok(())
            }
        }
        "try_alloc_try_with_mut" => match bump.try_alloc_try_with_mut(|| Ok::<u64, ()>(1)) {
            Ok(_) => Err("try_alloc_try_with_mut succeeded on a claimed allocator".into()),
            Err(_) => Ok(()),
        },
        "try_alloc_iter_mut" => match bump.try_alloc_iter_mut(0..3u32) {
            Ok(_) => Err("try_alloc_iter_mut succeeded on a claimed allocator".into()),
            Err(_) => Ok(()),
        },
        "reset" => {
            bump.reset();
            Ok(())
        }
        "reset_to_start" => {
            bump.reset_to_start();
            Ok(())
        }
        _ => Err("unknown op".into()),
    };
    let _ = vcore::crash::take_last_panic();
    r?;
    if slab::with_slab(0, |s| s.calls) != calls {
        return Err(format!("{op} on a claimed allocator reached the base allocator"));
    }
    if !bump.is_claimed() {
        return Err(format!("{op} ended the claim"));
    }
    let st = bump.stats();
    if st.count() != 0 || st.allocated() != 0 || st.capacity() != 0 {
        return Err(format!("stats of the claimed allocator are not all zero after {op}"));
    }
    if unsafe { std::slice::from_raw_parts(p.as_ptr() as *const u8, 5) } != [0xA5; 5] {
        return Err(format!("{op} on the claimed allocator changed memory allocated before the claim"));
    }
    // the claimed handle is leaked together with its chunk (the guard that owns the chunk pointer is gone)
    std::mem::forget(bump);
    Ok(true)
}

// scoped() / scope_guard() / aligned() on a claimed handle are deliberately not probed: C14 says nothing about
// opening scopes on the claimed original (the library trips one of its own debug assertions there)
const LEAK_OPS: [&str; 6] = ["try_by_value", "by_value", "try_alloc_try_with_mut", "try_alloc_iter_mut", "reset", "reset_to_start"];


// ---- every allocating method x every kind of shared handle to the claimed original ----------------------------

pub const RECVS: [&str; 7] = ["bump", "scope", "dyn_core", "dyn_scope", "without_dealloc", "without_shrink", "ref_ref"];
pub const TYPED_METHODS: [&str; 8] = ["allocate_layout", "allocate_sized", "allocate_slice", "allocate_slice_for", "prepare_slice_allocation", "prepare_slice_allocation_rev", "reserve", "allocator_allocate"];
pub const SCOPE_METHODS: [&str; 18] = [
    "alloc",
    "alloc_with",
    "alloc_default",
    "alloc_uninit",
    "alloc_slice_move",
    "alloc_slice_copy",
    "alloc_slice_clone",
    "alloc_slice_fill",
    "alloc_slice_fill_with",
    "alloc_uninit_slice",
    "alloc_uninit_slice_for",
    "alloc_str",
    "alloc_fmt",
    "alloc_cstr",
    "alloc_cstr_from_str",
    "alloc_cstr_fmt",
    "alloc_iter",
    "alloc_iter_exact",
];

/// Some(true) = the call failed the documented way (Err / unwinding panic), Some(false) = it returned a value, None = no such twin
#[allow(dropping_copy_types)]
fn typed_call<B: BumpAllocatorTyped + ?Sized>(b: &B, m: &str, try_: bool) -> Option<bool> {
    let layout = std::alloc::Layout::from_size_align(24, 8).unwrap();
    let pan = |f: &mut dyn FnMut()| -> bool {
        let r = catch_unwind(AssertUnwindSafe(|| f()));
        if r.is_err() {
            let _ = vcore::crash::take_last_panic();
        }
        r.is_err()
    };
    Some(match (m, try_) {
        ("allocate_layout", true) => b.try_allocate_layout(layout).is_err(),
        ("allocate_layout", false) => pan(&mut || drop(b.allocate_layout(layout))),
        ("allocate_sized", true) => b.try_allocate_sized::<u64>().is_err(),
        ("allocate_sized", false) => pan(&mut || drop(b.allocate_sized::<u64>())),
        ("allocate_slice", true) => b.try_allocate_slice::<u64>(3).is_err(),
        ("allocate_slice", false) => pan(&mut || drop(b.allocate_slice::<u64>(3))),
        ("allocate_slice_for", true) => b.try_allocate_slice_for::<u8>(&[1, 2, 3]).is_err(),
        ("allocate_slice_for", false) => pan(&mut || drop(b.allocate_slice_for::<u8>(&[1, 2, 3]))),
        ("prepare_slice_allocation", true) => b.try_prepare_slice_allocation::<u64>(2).is_err(),
        ("prepare_slice_allocation", false) => pan(&mut || drop(b.prepare_slice_allocation::<u64>(2))),
        ("prepare_slice_allocation_rev", true) => b.try_prepare_slice_allocation_rev::<u64>(2).is_err(),
        ("prepare_slice_allocation_rev", false) => pan(&mut || drop(b.prepare_slice_allocation_rev::<u64>(2))),
        ("reserve", true) => b.try_reserve(8).is_err(),
        ("reserve", false) => pan(&mut || b.reserve(8)),
        ("allocator_allocate", true) => bump_scope::alloc::Allocator::allocate(b, layout).is_err(),
        _ => return None,
    })
}

#[allow(dropping_references, dropping_copy_types)]
fn scope_call<'a, C: BumpAllocatorTypedScope<'a>>(c: C, m: &str, try_: bool) -> Option<bool> {
    let pan = |f: &mut dyn FnMut()| -> bool {
        let r = catch_unwind(AssertUnwindSafe(|| f()));
        if r.is_err() {
            let _ = vcore::crash::take_last_panic();
        }
        r.is_err()
    };
    let text = String::from("a string that owns memory");
    let texts = [text.clone(), text.clone()];
    Some(match (m, try_) {
        ("alloc", true) => c.try_alloc(7u64).is_err(),
        ("alloc", false) => pan(&mut || drop(c.alloc(7u64))),
        ("alloc_with", true) => c.try_alloc_with(|| 7u64).is_err(),
        ("alloc_with", false) => pan(&mut || drop(c.alloc_with(|| 7u64))),
        ("alloc_default", true) => c.try_alloc_default::<u64>().is_err(),
        ("alloc_default", false) => pan(&mut || drop(c.alloc_default::<u64>())),
        ("alloc_uninit", true) => c.try_alloc_uninit::<u64>().is_err(),
        ("alloc_uninit", false) => pan(&mut || drop(c.alloc_uninit::<u64>())),
        ("alloc_slice_move", true) => c.try_alloc_slice_move([1u32, 2]).is_err(),
        ("alloc_slice_move", false) => pan(&mut || drop(c.alloc_slice_move([1u32, 2]))),
        ("alloc_slice_copy", true) => c.try_alloc_slice_copy(&[1u8, 2, 3]).is_err(),
        ("alloc_slice_copy", false) => pan(&mut || drop(c.alloc_slice_copy(&[1u8, 2, 3]))),
        ("alloc_slice_clone", true) => c.try_alloc_slice_clone(&texts).is_err(),
        ("alloc_slice_clone", false) => pan(&mut || drop(c.alloc_slice_clone(&texts))),
        ("alloc_slice_fill", true) => c.try_alloc_slice_fill(3, 7u8).is_err(),
        ("alloc_slice_fill", false) => pan(&mut || drop(c.alloc_slice_fill(3, 7u8))),
        ("alloc_slice_fill_with", true) => c.try_alloc_slice_fill_with(3, || 7u8).is_err(),
        ("alloc_slice_fill_with", false) => pan(&mut || drop(c.alloc_slice_fill_with(3, || 7u8))),
        ("alloc_uninit_slice", true) => c.try_alloc_uninit_slice::<u64>(2).is_err(),
        ("alloc_uninit_slice", false) => pan(&mut || drop(c.alloc_uninit_slice::<u64>(2))),
        ("alloc_uninit_slice_for", true) => c.try_alloc_uninit_slice_for(&[1u8, 2]).is_err(),
        ("alloc_uninit_slice_for", false) => pan(&mut || drop(c.alloc_uninit_slice_for(&[1u8, 2]))),
        ("alloc_str", true) => c.try_alloc_str("abc").is_err(),
        ("alloc_str", false) => pan(&mut || drop(c.alloc_str("abc"))),
        ("alloc_fmt", true) => c.try_alloc_fmt(format_args!("{}", 12345)).is_err(),
        ("alloc_fmt", false) => pan(&mut || drop(c.alloc_fmt(format_args!("{}", 12345)))),
        ("alloc_cstr", true) => c.try_alloc_cstr(c"ab").is_err(),
        ("alloc_cstr", false) => pan(&mut || drop(c.alloc_cstr(c"ab"))),
        ("alloc_cstr_from_str", true) => c.try_alloc_cstr_from_str("ab").is_err(),
        ("alloc_cstr_from_str", false) => pan(&mut || drop(c.alloc_cstr_from_str("ab"))),
        ("alloc_cstr_fmt", true) => c.try_alloc_cstr_fmt(format_args!("{}", 12345)).is_err(),
        ("alloc_cstr_fmt", false) => pan(&mut || drop(c.alloc_cstr_fmt(format_args!("{}", 12345)))),
        ("alloc_iter", true) => c.try_alloc_iter([1u32, 2]).is_err(),
        ("alloc_iter", false) => pan(&mut || drop(c.alloc_iter([1u32, 2]))),
        ("alloc_iter_exact", true) => c.try_alloc_iter_exact([1u32, 2]).is_err(),
        ("alloc_iter_exact", false) => pan(&mut || drop(c.alloc_iter_exact([1u32, 2]))),
        _ => return None,
    })
}

/// Ok(true) = the call failed as documented and nothing moved
fn recv_case<St>(recv: &str, m: &str, try_: bool, prelude: u8) -> Result<bool, String>
where
    St: BumpAllocatorSettings + 'static,
    SlabZ: BaseAllocator<St::GuaranteedAllocated>,
{
    slab::select(0);
    slab::reset(0, SlabCfg::default());
    let _ = vcore::crash::take_last_panic();
    let bump: Bump<SlabZ, St> = Bump::new_in(SlabZ);
    let old = bump.alloc_slice_fill(5, 0xA5u8).into_raw();
    let guard = bump.claim();
    let gblock = match prelude {
        0 => None,
        1 => Some((guard.alloc_slice_fill(9, 0xE7u8).into_raw(), 9usize)),
        _ => Some((guard.alloc_slice_fill(3000, 0xE7u8).into_raw(), 3000usize)),
    };
    let before = {
        let s = guard.stats();
        (s.allocated(), s.count(), s.remaining(), s.size())
    };
    let calls = slab::with_slab(0, |s| s.calls);
    let typed = TYPED_METHODS.contains(&m);
    let failed: Option<bool> = match (recv, typed) {
        ("bump", true) => typed_call(&bump, m, try_),
        ("bump", false) => scope_call(&bump, m, try_),
        ("scope", true) => typed_call(bump.as_scope(), m, try_),
        ("scope", false) => scope_call(bump.as_scope(), m, try_),
        ("dyn_core", true) => typed_call::<dyn BumpAllocatorCore>(&bump, m, try_),
        ("dyn_core", false) => None,
        ("dyn_scope", true) => typed_call::<dyn BumpAllocatorCoreScope<'_>>(bump.as_scope(), m, try_),
        ("dyn_scope", false) => {
            let d: &dyn BumpAllocatorCoreScope<'_> = bump.as_scope();
            scope_call(d, m, try_)
        }
        ("without_dealloc", true) => typed_call(&WithoutDealloc(&bump), m, try_),
        ("without_dealloc", false) => scope_call(WithoutDealloc(&bump), m, try_),
        ("without_shrink", true) => typed_call(&WithoutShrink(&bump), m, try_),
        ("without_shrink", false) => scope_call(WithoutShrink(&bump), m, try_),
        ("ref_ref", true) => typed_call(&&bump, m, try_),
        (_, _) => scope_call(&&bump, m, try_),
    };
    let Some(failed) = failed else { return Ok(false) };
    let twin = if try_ { "the try_ twin" } else { "the panicking twin" };
    if !failed {
        return Err(format!("{twin} of {m} through {recv} returned normally on a claimed allocator"));
    }
    let after = {
        let s = guard.stats();
        (s.allocated(), s.count(), s.remaining(), s.size())
    };
    if after != before {
        return Err(format!("{twin} of {m} through {recv} changed the claimed arena: (allocated, chunks, remaining, size) {before:?} -> {after:?}"));
    }
    if slab::with_slab(0, |s| s.calls) != calls {
        return Err(format!("{twin} of {m} through {recv} reached the base allocator"));
    }
    if !bump.is_claimed() {
        return Err(format!("{twin} of {m} through {recv} ended the claim"));
    }
    drop(guard);
    if bump.is_claimed() {
        return Err("still claimed after the guard was dropped".into());
    }
    let again = bump.try_alloc(0x1122334455667788u64).map_err(|_| "allocation after the claim failed".to_string())?;
    if *again != 0x1122334455667788 {
        return Err("allocation after the claim reads back wrong".into());
    }
    if unsafe { std::slice::from_raw_parts(old.as_ptr() as *const u8, 5) } != [0xA5; 5] {
        return Err("data allocated before the claim changed".into());
    }
    if let Some((p, n)) = gblock {
        if unsafe { std::slice::from_raw_parts(p.as_ptr() as *const u8, n) }.iter().any(|&b| b != 0xE7) {
            return Err("data allocated through the guard changed".into());
        }
    }
    Ok(true)
}

pub fn run_one(id: &str) -> Option<Outcome> {
    run(Some(id)).into_iter().next()
}

pub fn run_all() -> Vec<Outcome> {
    run(None)
}

fn run(only: Option<&str>) -> Vec<Outcome> {
    let mut out = Vec::new();
    for ci in 0..4usize {
        for op in LEAK_OPS {
            let id = format!("claimleak:{ci}:{op}");
            if only.is_some_and(|o| o != id) {
                continue;
            }
            vcore::crash::set_inflight(format!("replayargs=[--claimcoll {id}]"));
            let r = catch_unwind(AssertUnwindSafe(|| match ci {
                0 => leaked_case::<S<1, true>>(op),
                1 => leaked_case::<S<1, false>>(op),
                2 => leaked_case::<S<8, true>>(op),
                _ => leaked_case::<S<16, false>>(op),
            }));
            vcore::crash::clear_inflight();
            let msg = match r {
                Ok(Ok(_)) => None,
                Ok(Err(m)) => Some(m),
                Err(_) => Some(format!("unexpected panic: {}", vcore::crash::take_last_panic().unwrap_or_default())),
            };
            out.push(Outcome { id, msg, nontrivial: true });
        }
    }
    for ci in 0..4usize {
        for recv in RECVS {
            for m in TYPED_METHODS.iter().chain(SCOPE_METHODS.iter()) {
                for try_ in [true, false] {
                    for prelude in 0..3u8 {
                        let id = format!("claimrecv:{ci}:{recv}:{m}:{}:{prelude}", if try_ { "try" } else { "panicking" });
                        if only.is_some_and(|o| o != id) {
                            continue;
                        }
                        vcore::crash::set_inflight(format!("replayargs=[--claimcoll {id}]"));
                        let r = catch_unwind(AssertUnwindSafe(|| match ci {
                            0 => recv_case::<S<1, true>>(recv, m, try_, prelude),
                            1 => recv_case::<S<1, false>>(recv, m, try_, prelude),
                            2 => recv_case::<S<8, true>>(recv, m, try_, prelude),
                            _ => recv_case::<S<16, false>>(recv, m, try_, prelude),
                        }));
                        vcore::crash::clear_inflight();
                        let (msg, nontrivial) = match r {
                            Ok(Ok(f)) => (None, f),
                            Ok(Err(m)) => (Some(m), true),
                            Err(_) => (Some(format!("unexpected panic: {}", vcore::crash::take_last_panic().unwrap_or_default())), true),
                        };
                        out.push(Outcome { id, msg, nontrivial });
                    }
                }
            }
        }
    }
    for ci in 0..4usize {
        for kind in ["vec", "string"] {
            for n in 0..=4u32 {
                for fill in [false, true] {
                    for ga in GUARD_ACTS {
                        for op in OLD_OPS {
                            for unwind in [false, true] {
                                let id = format!("claimcoll:{ci}:{kind}:{n}:{}:{ga:?}:{op:?}:{}", fill as u8, unwind as u8);
                                if only.is_some_and(|o| o != id) {
                                    continue;
                                }
                                vcore::crash::set_inflight(format!("replayargs=[--claimcoll {id}]"));
                                let r = catch_unwind(AssertUnwindSafe(|| match (ci, kind) {
                                    (0, "vec") => vec_case::<S<1, true>>(n, fill, ga, op, unwind),
                                    (1, "vec") => vec_case::<S<1, false>>(n, fill, ga, op, unwind),
                                    (2, "vec") => vec_case::<S<8, true>>(n, fill, ga, op, unwind),
                                    (3, "vec") => vec_case::<S<16, false>>(n, fill, ga, op, unwind),
                                    (0, _) => string_case::<S<1, true>>(n, fill, ga, op, unwind),
                                    (1, _) => string_case::<S<1, false>>(n, fill, ga, op, unwind),
                                    (2, _) => string_case::<S<8, true>>(n, fill, ga, op, unwind),
                                    (_, _) => string_case::<S<16, false>>(n, fill, ga, op, unwind),
                                }));
                                let (msg, nontrivial) = match r {
                                    Ok(Ok(f)) => (None, f || ga != GuardAct::Nothing),
                                    Ok(Err(m)) => (Some(m), true),
                                    Err(_) => (Some(format!("unexpected panic: {}", vcore::crash::take_last_panic().unwrap_or_default())), true),
                                };
                                vcore::crash::clear_inflight();
                                out.push(Outcome { id, msg, nontrivial });
                            }
                        }
                    }
                }
            }
        }
    }
    out
}
