//! arena-mc: explicit-state exploration of the real `Bump`/`BumpScope` (DESIGN.md §1, §3); see cli.rs.
mod cli;
mod configs;
mod props;

fn main() {
    cli::run()
}
