//! arena-mc: explicit-state exploration of the real `Bump`/`BumpScope` (DESIGN.md §1, §3); see cli.rs.
mod cli;
mod configs;
mod conv;
mod props;

use vcore::json::J;

fn arg(args: &[String], name: &str) -> Option<String> {
    args.iter().position(|a| a == name).and_then(|i| args.get(i + 1).cloned())
}

/// C18 also owns the settings-conversion product (conv.rs): a closed, complete enumeration that is run before the
/// history exploration
fn conv_space(tier: &str) {
    let t0 = std::time::Instant::now();
    let outs = conv::run_all();
    let total = outs.len();
    let nontrivial = outs.iter().filter(|o| o.nontrivial).count();
    let mut viol = 0;
    for o in &outs {
        if let Some(m) = &o.msg {
            viol += 1;
            let vj = J::obj()
                .set("prop", "C18")
                .set("cfg", "conv")
                .set("params", "")
                .set("history", o.id.as_str())
                .set("step", 0usize)
                .set("msg", format!("settings conversion {}: {m}", o.id))
                .set("replay_args", vec!["--conv".to_string(), o.id.clone()]);
            println!("VIOL {}", vj.to_string());
        }
    }
    let mut cov = J::obj();
    cov.put("states", total);
    cov.put("transitions", total);
    cov.put("traces_validated_against_impl", total);
    cov.put("evaluations", total);
    cov.put("distinct_nontrivial", nontrivial);
    cov.put("rule", "conversion raises the minimum alignment, or the source is unallocated / claimed");
    cov.put("samples", outs.iter().filter(|o| o.nontrivial).take(6).map(|o| o.id.clone()).collect::<Vec<_>>());
    cov.put("exhaustive", true);
    let j = J::obj()
        .set("property_id", "C18")
        .set("space", "settings-conversions")
        .set("tier", tier)
        .set("seed", 0u64)
        .set("level", "model_checking")
        .set("coverage", cov)
        .set("wall_s", t0.elapsed().as_secs_f64())
        .set("violations", viol)
        .set("floor", 100usize)
        .set("floor_ok", nontrivial >= 100 || viol > 0);
    println!("SPACE {}", j.to_string());
}

fn main() {
    let args: Vec<String> = std::env::args().collect();
    let cmd = args.get(1).map(String::as_str).unwrap_or("");
    let prop = arg(&args, "--prop").unwrap_or_default();
    if prop == "C18" && cmd == "check" {
        vcore::crash::install();
        conv_space(&arg(&args, "--tier").unwrap_or_else(|| "quick".into()));
    }
    if prop == "C18" && cmd == "replay" {
        if let Some(id) = arg(&args, "--conv") {
            vcore::crash::install();
            match conv::run_all().into_iter().find(|o| o.id == id) {
                Some(o) => match o.msg {
                    Some(m) => println!("REPLAY VIOLATION step=0 msg=settings conversion {}: {m}", o.id),
                    None => println!("REPLAY OK"),
                },
                None => println!("REPLAY DISABLED at=0"),
            }
            return;
        }
    }
    cli::run()
}
