//! arena-mc: explicit-state exploration of the real `Bump`/`BumpScope` (DESIGN.md §1, §3); see cli.rs.
mod claimcoll;
mod cli;
mod configs;
mod conv;
mod fwd;
mod props;

use vcore::json::J;

fn arg(args: &[String], name: &str) -> Option<String> {
    args.iter().position(|a| a == name).and_then(|i| args.get(i + 1).cloned())
}

/// A closed, complete product of cases that is run before the history exploration of its property
/// (C18: settings conversions, conv.rs; C14: collections created before a claim, claimcoll.rs).
fn closed_space(prop: &str, space: &str, flag: &str, rule: &str, tier: &str, outs: Vec<(String, Option<String>, bool)>, floor: usize) {
    let t0 = std::time::Instant::now();
    let total = outs.len();
    let nontrivial = outs.iter().filter(|o| o.2).count();
    let mut viol = 0;
    for (id, msg, _) in &outs {
        if let Some(m) = msg {
            viol += 1;
            if viol > 8 {
                continue;
            }
            let vj = J::obj()
                .set("prop", prop)
                .set("cfg", space)
                .set("params", "")
                .set("history", id.as_str())
                .set("step", 0usize)
                .set("msg", format!("{id}: {m}"))
                .set("replay_args", vec![flag.to_string(), id.clone()]);
            println!("VIOL {}", vj.to_string());
        }
    }
    let mut cov = J::obj();
    cov.put("states", total);
    cov.put("transitions", total);
    cov.put("traces_validated_against_impl", total);
    cov.put("evaluations", total);
    cov.put("distinct_nontrivial", nontrivial);
    cov.put("rule", rule);
    cov.put("samples", outs.iter().filter(|o| o.2).step_by((nontrivial / 6).max(1)).take(6).map(|o| o.0.clone()).collect::<Vec<_>>());
    cov.put("exhaustive", true);
    let j = J::obj()
        .set("property_id", prop)
        .set("space", space)
        .set("tier", tier)
        .set("seed", 0u64)
        .set("level", "model_checking")
        .set("coverage", cov)
        .set("wall_s", t0.elapsed().as_secs_f64())
        .set("violations", viol)
        .set("floor", floor)
        .set("floor_ok", nontrivial >= floor || viol > 0);
    println!("SPACE {}", j.to_string());
}

const CONV_RULE: &str = "settings conversions: Bump::with_settings, BumpScope::with_settings (by value) and borrow_mut_with_settings for a product of source settings x target settings (minimum alignment 1/4/16 lowered and raised, guaranteed-allocated and claimable switched on/off, both directions) x arena state {allocated with a misaligned position, unallocated, claimed by a leaked guard}; a conversion must panic exactly when the target needs an allocated / unclaimed arena and the source is not, afterwards the position is a multiple of the new minimum alignment, earlier data is intact and the next allocation works; non-trivial = the conversion raises the minimum alignment, or the source is unallocated / claimed";
const FWD_RULE: &str = "forwarded methods: every value-level allocation method (alloc, alloc_with, alloc_default, alloc_slice_move / copy / clone / fill / fill_with, alloc_str, alloc_fmt(_mut), alloc_cstr, alloc_cstr_from_str, alloc_cstr_fmt(_mut), alloc_iter, alloc_iter_exact, alloc_iter_mut(_rev), alloc_uninit, alloc_uninit_slice(_for), alloc_try_with(_mut), reserve; and the first 15 again with an 8-aligned zero-sized element type, where only the effect on the arena is compared) x entry point {Bump inherent, BumpScope inherent, trait method on BumpScope, trait method on &Bump / &mut Bump; each panicking and try_} x 4 configurations (both directions, MIN_ALIGN 1 / 8 / 16) x prelude {empty arena, misaligned position, 5 bytes left in the chunk}; every entry point must produce the result at the same chunk offset with the same contents and leave the same allocated(), remaining() and chunk sizes as the trait method on BumpScope; non-trivial = non-empty prelude";
const CLAIMCOLL_RULE: &str = "collections created before a claim: {BumpVec, BumpString} x 4 configurations x initial length 0..4 x spare capacity {as created, none} x guard activity {nothing, small allocation, chunk-growing allocation, scoped allocation, nested claim} x operation on the old collection during the claim {none, try_push, try_reserve, try_extend, push, reserve, pop, truncate, shrink_to_fit, read} x guard end {drop, unwind}; growth that needs memory must fail (Err / unwinding panic) and leave the contents alone, operations that need no memory behave as usual, after the claim the collection still holds its contents, keeps working (40-60 more pushes) and the blocks allocated through the guard are intact; non-trivial = a growth request was refused or the guard did something. Plus every allocating method x every kind of shared handle to the claimed original: {allocate_layout, allocate_sized, allocate_slice, allocate_slice_for, prepare_slice_allocation(_rev), reserve, Allocator::allocate, and 18 value-level methods alloc .. alloc_iter_exact} x {&Bump, &BumpScope, &dyn BumpAllocatorCore, &dyn BumpAllocatorCoreScope, WithoutDealloc(&Bump), WithoutShrink(&Bump), &&Bump} x {try_ twin: must return Err; panicking twin: must unwind - an abort is a process crash and reported as such} x guard state {idle, small allocation, chunk-growing allocation} x 4 configurations; nothing about the claimed arena may change, the base allocator is not reached, and after the guard is dropped the original allocates again with all earlier data intact";

fn main() {
    let args: Vec<String> = std::env::args().collect();
    let cmd = args.get(1).map(String::as_str).unwrap_or("");
    let prop = arg(&args, "--prop").unwrap_or_default();
    let tier = arg(&args, "--tier").unwrap_or_else(|| "quick".into());
    // C10 states the same about the position ("a multiple of the minimum alignment in force" after every public
    // operation); the conversions are public operations that no history of the C10 space contains
    if cmd == "check" && (prop == "C18" || prop == "C10") {
        vcore::crash::install();
        let outs = conv::run_all().into_iter().map(|o| (o.id, o.msg, o.nontrivial)).collect();
        closed_space(&prop, "settings-conversions", "--conv", CONV_RULE, &tier, outs, 100);
    }
    if cmd == "check" && prop == "C14" {
        vcore::crash::install();
        let outs = claimcoll::run_all().into_iter().map(|o| (o.id, o.msg, o.nontrivial)).collect();
        closed_space("C14", "collections-created-before-the-claim", "--claimcoll", CLAIMCOLL_RULE, &tier, outs, 1000);
    }
    if cmd == "check" && prop == "C17" {
        vcore::crash::install();
        let outs = fwd::run(None).into_iter().map(|o| (o.id, o.msg, o.nontrivial)).collect();
        closed_space("C17", "forwarded-methods", "--fwd", FWD_RULE, &tier, outs, 1000);
    }
    if cmd == "replay" {
        let found = if let Some(id) = arg(&args, "--fwd") {
            vcore::crash::install();
            Some((id.clone(), fwd::run(Some(&id)).into_iter().next().map(|o| o.msg)))
        } else if let Some(id) = arg(&args, "--conv") {
            vcore::crash::install();
            Some((id.clone(), conv::run_all().into_iter().find(|o| o.id == id).map(|o| o.msg)))
        } else if let Some(id) = arg(&args, "--claimcoll") {
            vcore::crash::install();
            Some((id.clone(), claimcoll::run_one(&id).map(|o| o.msg)))
        } else {
            None
        };
        if let Some((id, r)) = found {
            match r {
                Some(Some(m)) => println!("REPLAY VIOLATION step=0 msg={id}: {m}"),
                Some(None) => println!("REPLAY OK"),
                None => println!("REPLAY DISABLED at=0"),
            }
            return;
        }
    }
    cli::run()
}
