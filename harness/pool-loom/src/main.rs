//! pool-loom: exhaustive interleaving exploration (loom, DPOR) of the real `BumpPool` (C19).
//! Must be built with RUSTFLAGS="--cfg bump_scope_verif" so that the pool's lock is loom's Mutex.
//!
//! usage: pool-loom check --prop C19 --tier quick|thorough
//!        pool-loom replay --prop C19 --case "<name>"

use bump_scope::settings::BumpSettings;
use bump_scope::traits::BumpAllocatorTypedScope;
use bump_scope::{BumpPool, BumpPoolGuard};
use std::alloc::Layout;
use std::collections::HashSet;
use std::sync::Mutex as StdMutex;
use std::sync::atomic::{AtomicU64, Ordering};
use std::time::Instant;
use vcore::json::J;
use vcore::slab::{self, SlabCfg, SlabS8};

#[cfg(not(bump_scope_verif))]
compile_error!("pool-loom must be built with RUSTFLAGS=\"--cfg bump_scope_verif\"");

fn arg(args: &[String], name: &str) -> Option<String> {
    args.iter().position(|a| a == name).and_then(|i| args.get(i + 1).cloned())
}

#[derive(Clone, Copy, Debug, PartialEq, Eq)]
enum GetKind {
    Get,
    TryGet,
    WithSize,
    WithCapacity,
}
#[derive(Clone, Copy, Debug, PartialEq, Eq)]
enum EndMode {
    Reset,
    ResetToStart,
    Drop,
}

#[derive(Clone, Copy, Debug)]
struct Case {
    name: &'static str,
    threads: usize,
    rounds: usize,
    get: GetKind,
    end: EndMode,
    up: bool,
    /// bytes allocated per round (more than the 16 bytes of the first chunk => chunk growth under the guard)
    bytes: usize,
    preemption_bound: Option<usize>,
    /// hold the guard of round 0 across round 1 (nested guards in one thread)
    nested: bool,
    /// arenas created (and returned) by the main thread before the workers start: idle arenas must be reused
    prefill: usize,
}

#[derive(Default)]
struct Registry {
    live: HashSet<usize>,
    seen: HashSet<usize>,
    in_flight: usize,
    peak_in_flight: usize,
    slices: Vec<(usize, usize, u8)>,
    violation: Option<String>,
}

static REG: StdMutex<Option<Registry>> = StdMutex::new(None);
static EXECUTIONS: AtomicU64 = AtomicU64::new(0);
static OUTCOMES: StdMutex<Option<HashSet<(usize, usize)>>> = StdMutex::new(None);

fn reg<R>(f: impl FnOnce(&mut Registry) -> R) -> R {
    let mut g = REG.lock().unwrap_or_else(|e| e.into_inner());
    f(g.get_or_insert_with(Registry::default))
}

fn violated() -> bool {
    reg(|r| r.violation.is_some())
}

type SUp = BumpSettings<1, true, true, true, true, true, 0>;
type SDown = BumpSettings<1, false, true, true, true, true, 0>;

macro_rules! body {
    ($S:ty, $case:expr) => {{
        let case: Case = $case;
        slab::select(0);
        slab::reset(0, SlabCfg::default());
        *REG.lock().unwrap_or_else(|e| e.into_inner()) = Some(Registry::default());
        EXECUTIONS.fetch_add(1, Ordering::Relaxed);
        let pool: loom::sync::Arc<BumpPool<SlabS8, $S>> = loom::sync::Arc::new(BumpPool::new_in(SlabS8 { id: 0xB00 }));
        if case.prefill > 0 {
            // `prefill` guards alive at the same time, then all returned: the pool now holds that many idle arenas
            let gs: Vec<BumpPoolGuard<'_, SlabS8, $S>> = (0..case.prefill).map(|_| pool.get()).collect();
            reg(|r| {
                r.peak_in_flight = r.peak_in_flight.max(case.prefill);
                for g in &gs {
                    r.seen.insert(g.stats().small_to_big().next().map_or(0, |c| c.chunk_start().as_ptr() as usize));
                }
            });
            drop(gs);
        }
        let mut handles = Vec::new();
        for t in 0..case.threads {
            let pool = pool.clone();
            handles.push(loom::thread::spawn(move || {
                let mut held: Vec<BumpPoolGuard<'_, SlabS8, $S>> = Vec::new();
                for round in 0..case.rounds {
                    if violated() {
                        break;
                    }
                    reg(|r| {
                        r.in_flight += 1;
                        r.peak_in_flight = r.peak_in_flight.max(r.in_flight);
                    });
                    let guard: BumpPoolGuard<'_, SlabS8, $S> = match case.get {
                        GetKind::Get => pool.get(),
                        GetKind::TryGet => pool.try_get().expect("try_get"),
                        GetKind::WithSize => pool.get_with_size(100),
                        GetKind::WithCapacity => pool.get_with_capacity(Layout::from_size_align(40, 8).unwrap()),
                    };
                    // identity of the arena: the first chunk it ever obtained
                    let id = guard.stats().small_to_big().next().map_or(0, |c| c.chunk_start().as_ptr() as usize);
                    let dup = reg(|r| {
                        r.seen.insert(id);
                        !r.live.insert(id)
                    });
                    if dup {
                        reg(|r| r.violation = Some(format!("two live guards refer to the same arena (thread {t}, round {round})")));
                        std::mem::forget(guard);
                        break;
                    }
                    // allocate a patterned slice whose lifetime is the pool's
                    let pat = (t * 16 + round + 1) as u8;
                    let src = vec![pat; case.bytes];
                    let s: &[u8] = guard.alloc_slice_copy(&src).into_ref();
                    reg(|r| r.slices.push((s.as_ptr() as usize, s.len(), pat)));
                    if case.nested && round == 0 && case.rounds > 1 {
                        held.push(guard);
                        continue;
                    }
                    reg(|r| {
                        r.live.remove(&id);
                    });
                    drop(guard);
                    reg(|r| r.in_flight -= 1);
                }
                for g in held.drain(..) {
                    let id = g.stats().small_to_big().next().map_or(0, |c| c.chunk_start().as_ptr() as usize);
                    reg(|r| {
                        r.live.remove(&id);
                    });
                    drop(g);
                    reg(|r| r.in_flight -= 1);
                }
            }));
        }
        for h in handles {
            h.join().unwrap();
        }
        if !violated() {
            // everything allocated through a guard is still valid and unchanged
            let bad = reg(|r| {
                for &(p, n, pat) in &r.slices {
                    let s = unsafe { std::slice::from_raw_parts(p as *const u8, n) };
                    if s.iter().any(|&b| b != pat) {
                        return Some(format!("a slice allocated through a guard changed after the guard was dropped (pattern {pat})"));
                    }
                }
                if r.seen.len() > r.peak_in_flight {
                    return Some(format!("{} arenas were created although at most {} guards were alive at the same time", r.seen.len(), r.peak_in_flight));
                }
                None
            });
            if let Some(b) = bad {
                reg(|r| r.violation = Some(b));
            }
        }
        if !violated() {
            let (arenas, peak) = reg(|r| (r.seen.len(), r.peak_in_flight));
            OUTCOMES.lock().unwrap_or_else(|e| e.into_inner()).get_or_insert_with(HashSet::new).insert((arenas, peak));
            let mut pool = match loom::sync::Arc::try_unwrap(pool) {
                Ok(p) => p,
                Err(_) => panic!("pool still shared after join"),
            };
            let grants_before = slab::with_slab(0, |s| s.grants.iter().filter(|g| !g.released).count());
            let n_bumps = pool.bumps().len();
            let mut msg = None;
            if n_bumps != arenas {
                msg = Some(format!("the pool holds {n_bumps} arenas after all guards were dropped, {arenas} were created"));
            }
            match case.end {
                EndMode::Reset => {
                    pool.reset();
                    for b in pool.bumps().iter() {
                        if b.stats().count() != 1 || b.stats().allocated() != 0 {
                            msg = Some(format!("after pool.reset() an arena has count {} allocated {}", b.stats().count(), b.stats().allocated()));
                        }
                    }
                    let now = slab::with_slab(0, |s| s.grants.iter().filter(|g| !g.released).count());
                    if now != n_bumps {
                        msg = Some(format!("after pool.reset() {now} chunks are outstanding for {n_bumps} arenas (before: {grants_before})"));
                    }
                }
                EndMode::ResetToStart => {
                    pool.reset_to_start();
                    for b in pool.bumps().iter() {
                        if b.stats().allocated() != 0 {
                            msg = Some(format!("after pool.reset_to_start() an arena has allocated {}", b.stats().allocated()));
                        }
                    }
                    let now = slab::with_slab(0, |s| s.grants.iter().filter(|g| !g.released).count());
                    if now != grants_before {
                        msg = Some(format!("pool.reset_to_start() released chunks ({grants_before} -> {now})"));
                    }
                }
                EndMode::Drop => {}
            }
            drop(pool);
            let (errs, guards, outstanding) = slab::with_slab(0, |s| (s.errors.first().cloned(), s.check_guards(), s.outstanding()));
            if let Some(e) = errs {
                msg = Some(format!("base allocator protocol: {e}"));
            } else if let Err(e) = guards {
                msg = Some(format!("memory outside granted blocks: {e}"));
            } else if outstanding != 0 {
                msg = Some(format!("{outstanding} chunks were never released after the pool was dropped"));
            }
            if let Some(m) = msg {
                reg(|r| r.violation = Some(m));
            }
        } else {
            // leak everything: the state is not trustworthy any more
            std::mem::forget(pool);
        }
    }};
}

struct ViolationFound;

fn run_case(case: Case) -> (u64, Option<String>, f64, usize) {
    let t0 = Instant::now();
    EXECUTIONS.store(0, Ordering::Relaxed);
    *OUTCOMES.lock().unwrap() = Some(HashSet::new());
    let first_violation: std::sync::Arc<StdMutex<Option<String>>> = std::sync::Arc::new(StdMutex::new(None));
    let fv = first_violation.clone();
    let mut b = loom::model::Builder::new();
    b.preemption_bound = case.preemption_bound;
    b.max_branches = 100_000;
    let res = std::panic::catch_unwind(std::panic::AssertUnwindSafe(|| {
        b.check(move || {
            if fv.lock().unwrap().is_some() {
                return;
            }
            if case.up {
                body!(SUp, case)
            } else {
                body!(SDown, case)
            }
            if let Some(v) = reg(|r| r.violation.clone()) {
                {
                    let mut g = fv.lock().unwrap();
                    if g.is_none() {
                        *g = Some(v);
                    }
                }
                // end the exploration here: an execution that returns early makes loom replay the recorded path
                // against a shorter execution, which never terminates. All model threads have been joined at this
                // point, so the unwinding leaves through `check` and is caught by the caller.
                std::panic::resume_unwind(Box::new(ViolationFound));
            }
        });
    }));
    let mut v = first_violation.lock().unwrap().clone();
    if res.is_err() && v.is_none() {
        v = Some(format!("the model panicked: {}", vcore::crash::take_last_panic().unwrap_or_default()));
    }
    let outcomes = OUTCOMES.lock().unwrap().as_ref().map_or(0, |o| o.len());
    (EXECUTIONS.load(Ordering::Relaxed), v, t0.elapsed().as_secs_f64(), outcomes)
}

fn cases(thorough: bool) -> Vec<Case> {
    let c = |name, threads, rounds, get, end, up, bytes, pb, nested| Case { name, threads, rounds, get, end, up, bytes, preemption_bound: pb, nested, prefill: 0 };
    let p = |mut case: Case, prefill: usize| {
        case.prefill = prefill;
        case
    };
    let mut v = vec![
        c("2x2-get-reset-up", 2, 2, GetKind::Get, EndMode::Reset, true, 40, None, false),
        c("2x2-tryget-drop-down", 2, 2, GetKind::TryGet, EndMode::Drop, false, 40, None, false),
        c("2x3-get-reset_to_start-up", 2, 3, GetKind::Get, EndMode::ResetToStart, true, 8, None, false),
        c("2x2-withsize-reset-down", 2, 2, GetKind::WithSize, EndMode::Reset, false, 200, None, false),
        c("2x2-nested-get-drop-up", 2, 2, GetKind::WithCapacity, EndMode::Drop, true, 40, None, true),
        c("3x2-get-reset-up-pb2", 3, 2, GetKind::Get, EndMode::Reset, true, 40, Some(2), false),
        // idle arenas exist before the workers start: every get variant must reuse them, also under contention
        p(c("2x2-tryget-prefill2-drop-up", 2, 2, GetKind::TryGet, EndMode::Drop, true, 40, None, false), 2),
        p(c("2x1-get-prefill3-reset-down", 2, 1, GetKind::Get, EndMode::Reset, false, 40, None, false), 3),
        p(c("2x1-withcapacity-prefill2-drop-up", 2, 1, GetKind::WithCapacity, EndMode::Drop, true, 40, None, false), 2),
    ];
    if thorough {
        v.push(c("3x1-get-drop-up", 3, 1, GetKind::Get, EndMode::Drop, true, 40, None, false));
        v.push(c("3x2-get-reset-down-pb3", 3, 2, GetKind::Get, EndMode::Reset, false, 40, Some(3), false));
        v.push(c("3x2-nested-tryget-reset-up-pb3", 3, 2, GetKind::TryGet, EndMode::Reset, true, 40, Some(3), true));
        v.push(c("2x4-get-reset-up", 2, 4, GetKind::Get, EndMode::Reset, true, 8, None, false));
        v.push(c("4x1-get-reset-up-pb3", 4, 1, GetKind::Get, EndMode::Reset, true, 40, Some(3), false));
    }
    v
}

fn main() {
    vcore::crash::install();
    let args: Vec<String> = std::env::args().collect();
    let cmd = args.get(1).map(String::as_str).unwrap_or("");
    match cmd {
        "check" => {
            let thorough = arg(&args, "--tier").as_deref() == Some("thorough");
            // wall cap: loom has no deadline of its own; a run that exceeds the cap is a machinery failure, never a verdict
            let cap: u64 = arg(&args, "--cap-secs").and_then(|s| s.parse().ok()).unwrap_or(if thorough { 3600 } else { 600 });
            std::thread::spawn(move || {
                std::thread::sleep(std::time::Duration::from_secs(cap));
                eprintln!("pool-loom: wall cap of {cap} s exceeded, giving up without a verdict");
                std::process::exit(3);
            });
            let t0 = Instant::now();
            let mut total = 0u64;
            let mut samples = Vec::new();
            let mut per_case = Vec::new();
            let mut nviol = 0;
            let mut distinct_outcomes = 0usize;
            for case in cases(thorough) {
                let (execs, v, secs, outcomes) = run_case(case);
                total += execs;
                distinct_outcomes += outcomes;
                per_case.push(J::obj().set("case", case.name).set("schedules", execs).set("wall_s", secs).set("preemption_bound", case.preemption_bound.map_or(-1i64, |b| b as i64)).set("distinct_outcomes", outcomes));
                samples.push(format!("{case:?}"));
                if let Some(m) = v {
                    nviol += 1;
                    let vj = J::obj().set("prop", "C19").set("cfg", case.name).set("params", format!("{case:?}")).set("history", case.name).set("msg", m).set("replay_args", vec!["--case".to_string(), case.name.to_string()]);
                    println!("VIOL {}", vj.to_string());
                    break;
                }
            }
            let cov = J::obj()
                .set("states", total)
                .set("transitions", total)
                .set("traces_validated_against_impl", total)
                .set("evaluations", total)
                .set("schedules", total)
                .set("distinct_nontrivial", total)
                .set("rule", "loom (DPOR) explores every interleaving of the harness threads at the pool's mutex operations (complete unless a preemption bound is listed for the case); each schedule is one execution of the real BumpPool with 2-4 threads x 1-4 rounds of get/try_get/get_with_size/get_with_capacity -> allocate a patterned slice with the pool's lifetime -> drop guard (optionally holding a first guard across the second round), followed by reset / reset_to_start / drop; every schedule is non-trivial (>= 2 threads contend for the pool); distinct (arenas created, peak live guards) outcomes are reported per case")
                .set("samples", samples)
                .set("exhaustive", true)
                .set("cases", per_case)
                .set("distinct_outcomes", distinct_outcomes);
            let space = J::obj()
                .set("property_id", "C19")
                .set("tier", if thorough { "thorough" } else { "quick" })
                .set("seed", 0)
                .set("level", "model_checking")
                .set("coverage", cov)
                .set("wall_s", t0.elapsed().as_secs_f64())
                .set("violations", nviol)
                .set("floor", 100)
                .set("floor_ok", total >= 100 || nviol > 0);
            println!("SPACE {}", space.to_string());
            println!("DONE violations={nviol}");
        }
        "replay" => {
            let name = arg(&args, "--case").expect("--case");
            let case = cases(true).into_iter().find(|c| c.name == name).expect("unknown case");
            let (execs, v, _, _) = run_case(case);
            match v {
                Some(m) => println!("REPLAY VIOLATION step=0 msg={m}"),
                None => println!("REPLAY OK schedules={execs}"),
            }
        }
        _ => {
            eprintln!("usage: pool-loom check|replay ...");
            std::process::exit(2);
        }
    }
}
