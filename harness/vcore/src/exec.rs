//! Interpreter of operation histories over the real arena + shadow model + oracles (DESIGN.md §2.3, §3).

use crate::facade::*;
use crate::ops::*;
use crate::slab;
use std::alloc::Layout;
use std::panic::{AssertUnwindSafe, catch_unwind, resume_unwind};
use std::ptr::NonNull;

pub const SCRUB: u8 = slab::FRESH_BYTE;

/// Oracle groups. A run enables the groups of the property it decides.
pub mod grp {
    pub const CONTAIN: u32 = 1 << 0; // C01
    pub const CONTENT: u32 = 1 << 1; // C02
    pub const RESTORE: u32 = 1 << 2; // C03
    pub const RELEASE: u32 = 1 << 3; // C05
    pub const FAILURE: u32 = 1 << 4; // C07
    pub const STATS: u32 = 1 << 5; // C10
    pub const CHUNKFIT: u32 = 1 << 6; // C12
    pub const RECLAIM: u32 = 1 << 7; // C13
    pub const CLAIM: u32 = 1 << 8; // C14
    pub const ALIGN: u32 = 1 << 9; // C18
    pub const MUTCOLL: u32 = 1 << 10; // C15
    pub const ALL: u32 = (1 << 11) - 1;
}

#[derive(Clone, Copy, Debug)]
pub struct Block {
    pub ptr: NonNull<u8>,
    pub size: usize,
    pub align: usize,
    pub depth: u16,
    pub id: u32,
    /// 0 = raw layout block, 1 = `[u8]` typed slice, 8 = `[u64]` typed slice
    pub elem: u8,
}

impl Block {
    pub fn addr(&self) -> usize {
        self.ptr.as_ptr() as usize
    }
    pub fn layout(&self) -> Layout {
        Layout::from_size_align(self.size, self.align).unwrap()
    }
}

#[inline]
fn pat(id: u32, i: usize) -> u8 {
    (id.wrapping_mul(37).wrapping_add(i as u32 * 11).wrapping_add(5)) as u8
}

unsafe fn fill(b: &Block) {
    unsafe {
        for i in 0..b.size {
            *b.ptr.as_ptr().add(i) = pat(b.id, i);
        }
    }
}

unsafe fn verify_prefix(ptr: NonNull<u8>, id: u32, n: usize) -> Option<usize> {
    unsafe {
        for i in 0..n {
            if *ptr.as_ptr().add(i) != pat(id, i) {
                return Some(i);
            }
        }
        None
    }
}

#[derive(Clone, Copy, Debug, Default)]
pub struct Entry {
    pub allocated: usize,
    pub pos: usize,
    pub cur: usize,
    pub count: usize,
    pub size: usize,
    pub calls: u32,
    pub pc: usize,
    pub nblocks: usize,
}

#[derive(Clone, Copy, Debug)]
pub struct Frame {
    pub region: Region,
    pub entry: Entry,
    pub is_scope: bool,
    pub touched_outer: bool,
}

#[derive(Clone, Debug, Default)]
pub struct Model {
    pub blocks: Vec<Block>,
    pub frames: Vec<Frame>,
    pub next_id: u32,
    /// id of the block returned by the immediately preceding allocator call (C13)
    pub last_returned: Option<u32>,
}

impl Model {
    pub fn scope_depth(&self) -> u16 {
        self.frames.iter().filter(|f| f.is_scope).count() as u16
    }
    pub fn claim_depth(&self) -> usize {
        self.frames.iter().filter(|f| f.region == Region::Claim).count()
    }
    fn select(&self, sel: Sel) -> Option<usize> {
        let n = self.blocks.len();
        match sel {
            Sel::Newest => n.checked_sub(1),
            Sel::Second => n.checked_sub(2),
            Sel::Oldest => {
                if n >= 3 {
                    Some(0)
                } else {
                    None
                }
            }
        }
    }
}

#[derive(Clone, Debug)]
pub struct Viol {
    pub group: u32,
    pub step: usize,
    pub msg: String,
}

#[derive(Clone, Copy, Debug, Default)]
pub struct Cover {
    pub chunk_switch: bool,
    pub inplace_realloc: bool,
    pub moved_realloc: bool,
    pub reclaim: bool,
    pub depth2: bool,
    pub unwound: bool,
    pub alloc_failed: bool,
    pub multi_live: bool,
    pub nontrivial: bool,
}

pub struct RunOpts {
    pub groups: u32,
    pub h: Handle,
    /// evaluate the oracles only after the last operation (all proper prefixes are explored as histories of their own)
    pub last_only: bool,
    /// `into_raw` / `from_raw` round trip before the final drop
    pub raw_roundtrip: bool,
    /// run follow-up probes after the last op (C13 reclaim probe, C03 replay oracle)
    pub probes: bool,
    /// the arena was constructed with `with_capacity(layout)`: allocating that layout first must not need another chunk (C12)
    pub ctor_capacity: Option<(usize, usize)>,
}

pub struct UnwindMarker;

pub enum Flow {
    Done,
    Exit,
}

pub struct Exec<'a> {
    pub ops: &'a [Op],
    pub pc: usize,
    pub model: Model,
    pub opts: &'a RunOpts,
    pub viol: Option<Viol>,
    pub disabled_at: Option<usize>,
    pub cover: Cover,
    pub st: StatsSnap,
    pub st2: StatsSnap,
    pub st3: StatsSnap,
    /// byte ranges that were live before the current step and are dead now
    pub exempt: Vec<(usize, usize)>,
    /// the current op may legitimately have dirtied free space (e.g. `alloc_try_with` → Err)
    pub dirty_free: bool,
    pub replaying: bool,
    pub has_unwind: bool,
    pub state_hash: u64,
    pub steps_run: usize,
    pub refused_at_step: u32,
    /// concrete values of state-relative arguments (`*Rem` ops), by pc, so that a replayed scope body repeats the same requests
    pub rem_log: Vec<(usize, usize)>,
    /// per-step observable effects for lock-step comparison of entry points (C17)
    pub trace: Option<Vec<[u64; 5]>>,
}

macro_rules! viol {
    ($self:expr, $g:expr, $($arg:tt)*) => {{
        if $self.viol.is_none() && !$self.replaying {
            $self.viol = Some(Viol { group: $g, step: $self.pc.saturating_sub(1), msg: format!($($arg)*) });
        }
    }};
}

impl<'a> Exec<'a> {
    pub fn new(ops: &'a [Op], opts: &'a RunOpts) -> Self {
        Exec {
            ops,
            pc: 0,
            model: Model::default(),
            opts,
            viol: None,
            disabled_at: None,
            cover: Cover::default(),
            st: StatsSnap::default(),
            st2: StatsSnap::default(),
            st3: StatsSnap::default(),
            exempt: Vec::new(),
            dirty_free: false,
            replaying: false,
            has_unwind: ops.iter().any(|o| matches!(o, Op::ExitUnwind)),
            state_hash: 0,
            steps_run: 0,
            refused_at_step: 0,
            rem_log: Vec::new(),
            trace: None,
        }
    }

    fn on(&self, g: u32) -> bool {
        self.opts.groups & g != 0 && !self.replaying
    }

    /// value of a state-relative argument: computed from the current state, or — while replaying a scope body —
    /// the value the first execution used at the same program counter
    fn rem_value(&mut self, now: usize) -> usize {
        let pc = self.pc;
        if self.replaying {
            if let Some(&(_, v)) = self.rem_log.iter().rev().find(|e| e.0 == pc) {
                return v;
            }
        }
        self.rem_log.push((pc, now));
        now
    }

    fn stop(&self) -> bool {
        self.viol.is_some() || self.disabled_at.is_some()
    }

    fn disable(&mut self) {
        if self.disabled_at.is_none() {
            self.disabled_at = Some(self.pc - 1);
        }
    }

    fn check_now(&self) -> bool {
        !self.replaying && (!self.opts.last_only || self.pc >= self.ops.len())
    }

    fn new_block(&mut self, ptr: NonNull<u8>, size: usize, align: usize, elem: u8) -> Block {
        let id = self.model.next_id;
        self.model.next_id += 1;
        let b = Block { ptr, size, align, depth: self.model.scope_depth(), id, elem };
        self.model.blocks.push(b);
        self.model.last_returned = Some(id);
        if self.model.blocks.iter().filter(|b| b.size > 0).count() >= 2 {
            self.cover.multi_live = true;
        }
        b
    }

    fn kill_at(&mut self, idx: usize) -> Block {
        let b = self.model.blocks.remove(idx);
        if b.size > 0 {
            self.exempt.push((b.addr(), b.addr() + b.size));
        }
        b
    }

    fn note_outer_touch(&mut self, b: &Block) {
        let d = self.model.scope_depth();
        if b.depth < d {
            for f in self.model.frames.iter_mut().rev() {
                if f.is_scope {
                    f.touched_outer = true;
                }
            }
        }
    }

    /// Runs operations on `arena` until the history ends or the innermost region is left.
    pub fn run(&mut self, arena: &mut dyn DynArena, orig: Option<&dyn DynArena>) -> Flow {
        while self.pc < self.ops.len() && !self.stop() {
            let op = self.ops[self.pc];
            self.pc += 1;
            self.steps_run += 1;
            self.exempt.clear();
            self.dirty_free = false;
            self.refused_at_step = slab::with_current(|s| s.refused);
            match op {
                Op::Exit => {
                    if self.model.frames.is_empty() {
                        self.disable();
                        return Flow::Done;
                    }
                    return Flow::Exit;
                }
                Op::ExitUnwind => {
                    // the checkpoint region is a manual checkpoint()/reset_to() pair: unwinding out of it is not a scope end
                    if self.model.frames.is_empty() || self.model.frames.last().unwrap().region == Region::Checkpoint {
                        self.disable();
                        return Flow::Done;
                    }
                    self.cover.unwound = true;
                    resume_unwind(Box::new(UnwindMarker));
                }
                Op::Enter(region) => self.enter(arena, orig, region),
                _ => {
                    self.step(arena, orig, op);
                    if !self.stop() {
                        self.after_step(arena, op);
                    }
                }
            }
        }
        Flow::Done
    }

    fn region_enabled(&self, arena: &dyn DynArena, region: Region) -> bool {
        let cfg = arena.d_cfg();
        if self.model.frames.len() >= 3 {
            return false;
        }
        match region {
            Region::Claim => cfg.claimable,
            // the panicking `by_value` on an arena without a chunk allocates the first chunk; when the base allocator
            // is set up to refuse requests that ends in `handle_alloc_error` (an abort, which is the documented outcome
            // for a panicking method): not part of a fault-injecting history
            Region::ByValue => {
                let mut st = StatsSnap::default();
                arena.d_stats(&mut st);
                st.count > 0 || slab::with_current(|s| s.cfg.fail_mask) == 0
            }
            _ => true,
        }
    }

    fn snapshot_entry(&mut self, arena: &dyn DynArena) -> Entry {
        arena.d_stats(&mut self.st);
        Entry {
            allocated: self.st.allocated,
            pos: self.st.current.map_or(0, |c| c.pos),
            cur: self.st.current.map_or(0, |c| c.chunk_start),
            count: self.st.count,
            size: self.st.size,
            calls: slab::with_current(|s| s.calls),
            pc: self.pc,
            nblocks: self.model.blocks.len(),
        }
    }

    fn enter(&mut self, arena: &mut dyn DynArena, orig: Option<&dyn DynArena>, region: Region) {
        if !self.region_enabled(arena, region) {
            self.disable();
            return;
        }
        let entry = self.snapshot_entry(arena);
        // `is_scope`: blocks created inside die when the region is left (ByValue: bounded by the borrow)
        let is_scope = !matches!(region, Region::Aligned(_) | Region::Claim);
        self.model.frames.push(Frame { region, entry, is_scope, touched_outer: false });
        if self.model.scope_depth() >= 2 {
            self.cover.depth2 = true;
        }
        let enter_pc = self.pc;
        let mut claim_last: Option<StatsSnap> = None;
        let mut inner_min_align = 0usize;
        let res = {
            let this = &mut *self;
            let claim_last = &mut claim_last;
            let inner_min_align = &mut inner_min_align;
            let mut body = move |inner: &mut dyn DynArena, o2: Option<&dyn DynArena>| {
                *inner_min_align = inner.d_cfg().min_align;
                // C18: the position is a multiple of N at region entry
                if this.check_now_entry() {
                    this.check_entry_alignment(inner, region);
                }
                let o = if o2.is_some() { o2 } else { orig };
                let _ = this.run(inner, o);
                if region == Region::Claim && !this.stop() {
                    let mut s = StatsSnap::default();
                    inner.d_stats(&mut s);
                    *claim_last = Some(s);
                }
            };
            catch_unwind(AssertUnwindSafe(|| arena.d_region(region, &mut body)))
        };
        let mut unwound = false;
        if let Err(payload) = res {
            if payload.is::<UnwindMarker>() {
                unwound = true;
            } else {
                resume_unwind(payload);
            }
        }
        if self.stop() {
            // still pop the frame to keep the model consistent for the final drop checks
            self.model.frames.pop();
            return;
        }
        let frame = self.model.frames.pop().unwrap();
        self.exempt.clear();
        self.dirty_free = false;
        if frame.is_scope {
            let d = self.model.scope_depth() + 1;
            let mut i = 0;
            while i < self.model.blocks.len() {
                if self.model.blocks[i].depth >= d {
                    self.kill_at(i);
                } else {
                    i += 1;
                }
            }
            self.model.last_returned = None;
        }
        let exit_pc = self.pc;
        if self.check_now() {
            self.check_region_exit(arena, &frame, unwound, claim_last.as_ref());
        }
        if !self.stop() {
            self.after_step(arena, Op::Exit);
        }
        // C03 replay oracle: the same body in a fresh scope needs no new memory
        if !self.stop()
            && self.on(grp::RESTORE)
            && self.opts.probes
            && self.check_now()
            && frame.is_scope
            && frame.region != Region::ByValue
            && !frame.touched_outer
            && !unwound
            && slab::with_current(|s| s.cfg.fail_mask) == 0
        {
            self.replay_body(arena, orig, region, enter_pc, exit_pc);
        }
        let _ = inner_min_align;
    }

    fn check_now_entry(&self) -> bool {
        // entry checks are cheap; do them whenever the ALIGN group is on and we are not replaying
        self.on(grp::ALIGN)
    }

    fn check_entry_alignment(&mut self, inner: &dyn DynArena, region: Region) {
        let n = match region {
            Region::Aligned(n) | Region::ScopedAligned(n) => n,
            _ => return,
        };
        inner.d_stats(&mut self.st3);
        if let Some(c) = self.st3.current {
            if c.pos % n != 0 {
                viol!(self, grp::ALIGN, "bump position {:#x} is not a multiple of {} at entry of {:?}", c.pos, n, region);
            }
        }
    }

    fn replay_body(&mut self, arena: &mut dyn DynArena, orig: Option<&dyn DynArena>, region: Region, enter_pc: usize, exit_pc: usize) {
        let calls_before = slab::with_current(|s| s.calls);
        arena.d_stats(&mut self.st2);
        let before = (self.st2.allocated, self.st2.current.map_or(0, |c| c.pos), self.st2.current.map_or(0, |c| c.chunk_start));
        let saved_model = self.model.clone();
        let saved_pc = self.pc;
        let saved_cover = self.cover;
        self.replaying = true;
        self.pc = enter_pc;
        let is_scope = true;
        self.model.frames.push(Frame { region, entry: Entry::default(), is_scope, touched_outer: false });
        // only replay ops[enter_pc..exit_pc): temporarily narrow the op slice
        let full_ops = self.ops;
        let end = exit_pc.min(full_ops.len());
        // an explicit Exit token is part of [enter_pc, exit_pc) when present; run() returns on it
        self.ops = &full_ops[..end];
        let res = {
            let this = &mut *self;
            let mut body = move |inner: &mut dyn DynArena, o2: Option<&dyn DynArena>| {
                let o = if o2.is_some() { o2 } else { orig };
                let _ = this.run(inner, o);
            };
            catch_unwind(AssertUnwindSafe(|| arena.d_region(region, &mut body)))
        };
        self.ops = full_ops;
        self.replaying = false;
        self.pc = saved_pc;
        self.model = saved_model;
        self.cover = saved_cover;
        self.disabled_at = None;
        if let Err(p) = res {
            if !p.is::<UnwindMarker>() {
                resume_unwind(p);
            }
        }
        let calls_after = slab::with_current(|s| s.calls);
        if calls_after != calls_before {
            viol!(
                self,
                grp::RESTORE,
                "repeating the body of a closed {:?} scope in a fresh scope made {} new base-allocator call(s)",
                region,
                calls_after - calls_before
            );
        }
        arena.d_stats(&mut self.st2);
        let after = (self.st2.allocated, self.st2.current.map_or(0, |c| c.pos), self.st2.current.map_or(0, |c| c.chunk_start));
        if before != after {
            viol!(self, grp::RESTORE, "state after the repeated scope differs: (allocated,pos,chunk) {:x?} vs {:x?}", before, after);
        }
        // the replay wrote patterns into now-dead memory: scrub again
        self.scrub(arena, false);
    }

    fn check_region_exit(&mut self, arena: &dyn DynArena, frame: &Frame, unwound: bool, claim_last: Option<&StatsSnap>) {
        arena.d_stats(&mut self.st);
        let st = &self.st;
        let e = frame.entry;
        if frame.is_scope && frame.region != Region::ByValue && self.on(grp::RESTORE) {
            let pos = st.current.map_or(0, |c| c.pos);
            let cur = st.current.map_or(0, |c| c.chunk_start);
            if e.cur != 0 {
                if st.allocated != e.allocated || pos != e.pos || cur != e.cur {
                    viol!(
                        self,
                        grp::RESTORE,
                        "leaving {:?}{}: (allocated,pos,chunk)=({},{:#x},{:#x}) but at entry ({},{:#x},{:#x})",
                        frame.region,
                        if unwound { " by unwinding" } else { "" },
                        st.allocated,
                        pos,
                        cur,
                        e.allocated,
                        e.pos,
                        e.cur
                    );
                }
            } else if let Some(c) = st.current {
                // entered unallocated: must be back at the very start of the first chunk
                let first = st.fwd.first().copied().unwrap_or_default();
                let start = if arena.d_cfg().up { first.content_start } else { first.content_end };
                if st.allocated != 0 || c.chunk_start != first.chunk_start || c.pos != start {
                    viol!(
                        self,
                        grp::RESTORE,
                        "leaving {:?} entered while unallocated: allocated={} pos={:#x} chunk={:#x}, expected start of first chunk {:#x}/{:#x}",
                        frame.region,
                        st.allocated,
                        c.pos,
                        c.chunk_start,
                        start,
                        first.chunk_start
                    );
                }
            }
            if st.count < e.count || st.size < e.size {
                viol!(self, grp::RESTORE, "chunks were lost by leaving {:?}: count {}→{}, size {}→{}", frame.region, e.count, st.count, e.size, st.size);
            }
        }
        if frame.region == Region::Claim && self.on(grp::CLAIM) {
            if let Some(last) = claim_last {
                let same = last.allocated == st.allocated && last.current.map(|c| (c.pos, c.chunk_start)) == st.current.map(|c| (c.pos, c.chunk_start)) && last.count == st.count;
                if !same {
                    viol!(
                        self,
                        grp::CLAIM,
                        "after the claim guard was dropped the original does not continue where the guard stopped: guard (allocated {}, cur {:x?}) vs original (allocated {}, cur {:x?})",
                        last.allocated,
                        last.current.map(|c| (c.pos, c.chunk_start)),
                        st.allocated,
                        st.current.map(|c| (c.pos, c.chunk_start))
                    );
                }
            }
            if Via::shared(arena, Handle::Direct).is_claimed() {
                viol!(self, grp::CLAIM, "original still reports is_claimed() after the guard was dropped");
            }
        }
    }

    // ------------------------------------------------------------------------------------------
    // single operations
    // ------------------------------------------------------------------------------------------

    fn step(&mut self, arena: &mut dyn DynArena, orig: Option<&dyn DynArena>, op: Op) {
        let h = self.opts.h;
        let cfg = arena.d_cfg();
        match op {
            Op::Alloc { size, align, zeroed } => {
                let layout = Layout::from_size_align(size as usize, align as usize).unwrap();
                self.do_alloc(arena, h, layout, zeroed);
            }
            Op::AllocRem { extra, align } => {
                arena.d_stats(&mut self.st);
                let rem = self.st.current.map_or(0, |c| c.remaining);
                let rem = self.rem_value(rem);
                let layout = Layout::from_size_align(rem + extra as usize, align as usize).unwrap();
                self.do_alloc(arena, h, layout, false);
            }
            Op::Grow { sel, delta, align, zeroed } => {
                let Some(i) = self.model.select(sel) else { return self.disable() };
                let b = self.model.blocks[i];
                let new_align = if align == 0 { b.align } else { align as usize };
                let new = Layout::from_size_align(b.size + delta as usize, new_align).unwrap();
                self.do_grow(arena, h, i, new, zeroed);
            }
            Op::GrowRem { sel, extra } => {
                let Some(i) = self.model.select(sel) else { return self.disable() };
                let b = self.model.blocks[i];
                arena.d_stats(&mut self.st);
                let rem = self.st.current.map_or(0, |c| c.remaining);
                let rem = self.rem_value(rem);
                let new = Layout::from_size_align(b.size + rem + extra as usize, b.align).unwrap();
                self.do_grow(arena, h, i, new, false);
            }
            Op::Shrink { sel, to, align } => {
                let Some(i) = self.model.select(sel) else { return self.disable() };
                let b = self.model.blocks[i];
                let new_align = if align == 0 { b.align } else { align as usize };
                let new_size = to.apply(b.size);
                if new_size == b.size && new_align == b.align && to != ShrinkTo::Same {
                    return self.disable();
                }
                let new = Layout::from_size_align(new_size, new_align).unwrap();
                self.do_shrink(arena, h, i, new);
            }
            Op::Dealloc { sel } => {
                let Some(i) = self.model.select(sel) else { return self.disable() };
                self.do_dealloc(arena, h, i, false);
            }
            Op::DeallocTyped { sel } => {
                let Some(i) = self.model.select(sel) else { return self.disable() };
                let b = self.model.blocks[i];
                if !(b.align == 1 || (b.align == 8 && b.size % 8 == 0)) || b.size == 0 {
                    return self.disable();
                }
                self.do_dealloc(arena, h, i, true);
            }
            Op::VecBuf { sel, act, try_ } => {
                let Some(i) = self.model.select(sel) else { return self.disable() };
                let b = self.model.blocks[i];
                if !(b.align == 1 || (b.align == 8 && b.size % 8 == 0)) || b.size == 0 {
                    return self.disable();
                }
                self.do_vecbuf(arena, h, i, act, try_);
            }
            Op::Split { sel } => {
                let Some(i) = self.model.select(sel) else { return self.disable() };
                let b = self.model.blocks[i];
                // boundary must be element-aligned: treat the block as [align-sized elements]
                let elems = b.size / b.align;
                if elems < 2 || b.size % b.align != 0 {
                    return self.disable();
                }
                let left = (elems / 2) * b.align;
                self.model.blocks[i].size = left;
                let right_ptr = unsafe { NonNull::new_unchecked(b.ptr.as_ptr().add(left)) };
                let id = self.model.next_id;
                self.model.next_id += 1;
                let rb = Block { ptr: right_ptr, size: b.size - left, align: b.align, depth: b.depth, id, elem: b.elem };
                unsafe { fill(&rb) };
                // keep creation order semantic: the right part is the "newer" one
                self.model.blocks.insert(i + 1, rb);
                self.model.last_returned = None;
            }
            Op::Typed { op: t, try_ } => self.do_typed(arena, h, t, try_),
            Op::ShrinkSlice { sel, to } => {
                let Some(i) = self.model.select(sel) else { return self.disable() };
                let b = self.model.blocks[i];
                if b.elem == 0 {
                    return self.disable();
                }
                let es = b.elem as usize;
                let old_len = b.size / es;
                let new_len = to.apply(old_len);
                self.do_shrink_slice(arena, h, i, old_len, new_len);
            }
            Op::Prep { size, align, commit, rev } => self.do_prep(arena, h, size as usize, align as usize, commit, rev),
            Op::PrepSlice { elem, min_cap, commit, rev, try_ } => self.do_prep_slice(arena, h, elem as usize, min_cap as usize, commit, rev, try_),
            Op::Reserve { n, try_ } => self.do_reserve(arena, h, n as usize, try_),
            Op::ReserveRem { extra } => {
                arena.d_stats(&mut self.st);
                let n = self.st.remaining;
                let n = self.rem_value(n) + extra as usize;
                self.do_reserve(arena, h, n, true);
            }
            Op::Reset | Op::ResetToStart => {
                if !arena.d_is_root() || !self.model.frames.is_empty() {
                    return self.disable();
                }
                arena.d_stats(&mut self.st2);
                let before = self.st2.clone();
                let grants_before: Vec<slab::Grant> = slab::with_current(|s| s.grants.clone());
                if matches!(op, Op::Reset) {
                    arena.d_reset();
                } else {
                    arena.d_reset_to_start();
                }
                while !self.model.blocks.is_empty() {
                    self.kill_at(0);
                }
                self.model.last_returned = None;
                if self.check_now() {
                    self.check_reset(arena, matches!(op, Op::Reset), &before, &grants_before);
                }
            }
            Op::TryWith { mutable, ok, inner, try_ } => self.do_try_with(arena, mutable, ok, inner, try_),
            Op::Orig(o) => {
                let Some(orig) = orig else { return self.disable() };
                self.do_orig(arena, orig, o);
            }
            Op::Nop => {}
            Op::AllocHuge { align } => {
                let a = align as usize;
                let l = Layout::from_size_align((isize::MAX as usize) & !(a - 1), a).unwrap();
                let calls = self.count_calls();
                if Via::new(arena, h).allocate(l, false).is_ok() {
                    viol!(self, grp::FAILURE, "allocate({l:?}) succeeded");
                }
                if Via::new(arena, h).typed(TypedOp::Layout(l.size(), a), true).is_ok() {
                    viol!(self, grp::FAILURE, "try_allocate_layout({l:?}) succeeded");
                }
                let _ = calls;
                self.model.last_returned = None;
            }
            Op::GrowHuge { sel } => {
                let Some(i) = self.model.select(sel) else { return self.disable() };
                let b = self.model.blocks[i];
                let l = Layout::from_size_align((isize::MAX as usize) & !(b.align - 1), b.align).unwrap();
                if unsafe { Via::new(arena, h).grow(b.ptr, b.layout(), l, false) }.is_ok() {
                    viol!(self, grp::FAILURE, "grow to {l:?} succeeded");
                }
                self.model.last_returned = None;
            }
            Op::ReserveHuge { max } => {
                let n = if max { usize::MAX } else { isize::MAX as usize };
                if Via::new(arena, h).reserve(n, true).is_ok() {
                    viol!(self, grp::FAILURE, "try_reserve({n}) succeeded");
                }
                self.model.last_returned = None;
            }
            Op::MutColl(spec) => self.do_mut_coll(arena, &spec),
            Op::Enter(_) | Op::Exit | Op::ExitUnwind => unreachable!(),
        }
        let _ = cfg;
    }

    fn expect_alloc_ok(&mut self, what: &str, layout: Layout) -> bool {
        // An `Err` is legitimate only if the base allocator refused something (fault plan / huge request).
        let refused = slab::with_current(|s| s.refused);
        if refused == self.refused_at_step {
            viol!(self, grp::FAILURE | grp::CONTAIN, "{what}({layout:?}) failed although the base allocator never refused a request");
            false
        } else {
            self.cover.alloc_failed = true;
            true
        }
    }

    fn count_calls(&self) -> u32 {
        slab::with_current(|s| s.calls)
    }

    fn do_alloc(&mut self, arena: &mut dyn DynArena, h: Handle, layout: Layout, zeroed: bool) {
        let calls = self.count_calls();
        arena.d_stats(&mut self.st2);
        let count_before = self.st2.count;
        let r = Via::new(arena, h).allocate(layout, zeroed);
        match r {
            Ok(p) => {
                let ptr: NonNull<u8> = p.cast();
                if p.len() < layout.size() {
                    viol!(self, grp::CONTAIN, "allocate({layout:?}) returned a block of only {} bytes", p.len());
                }
                if zeroed && self.on(grp::CONTENT) {
                    for i in 0..layout.size() {
                        if unsafe { *ptr.as_ptr().add(i) } != 0 {
                            viol!(self, grp::CONTENT, "allocate_zeroed({layout:?}): byte {i} is not zero");
                            break;
                        }
                    }
                }
                let b = self.new_block(ptr, layout.size(), layout.align(), 0);
                unsafe { fill(&b) };
                self.check_returned_len(arena, &b, p.len());
                if self.pc == 1 && self.opts.ctor_capacity == Some((layout.size(), layout.align())) && self.on(grp::CHUNKFIT) {
                    arena.d_stats(&mut self.st2);
                    if self.st2.count != count_before || self.count_calls() != calls {
                        viol!(self, grp::CHUNKFIT, "with_capacity({layout:?}) created a chunk that does not fit that layout: allocating it changed the chunk count from {} to {}", count_before, self.st2.count);
                        return;
                    }
                }
                if self.count_calls() != calls {
                    self.cover.chunk_switch = true;
                    self.check_chunk_fit(arena, count_before, &b);
                }
            }
            Err(_) => {
                self.model.last_returned = None;
                if !self.expect_alloc_ok("allocate", layout) {}
            }
        }
    }

    /// C01: the whole returned slice must be usable, not just the requested size.
    fn check_returned_len(&mut self, _arena: &dyn DynArena, b: &Block, ret_len: usize) {
        if ret_len > b.size && self.on(grp::CONTAIN) {
            // treat the surplus as part of the block for containment / disjointness
            let surplus = (b.addr() + b.size, b.addr() + ret_len);
            for o in &self.model.blocks {
                if o.id != b.id && o.size > 0 && o.addr() < surplus.1 && surplus.0 < o.addr() + o.size {
                    viol!(self, grp::CONTAIN, "returned length {} of block #{} overlaps live block #{}", ret_len, b.id, o.id);
                    return;
                }
            }
        }
    }

    /// C12: the request that caused a new chunk is served from that chunk and exactly one chunk was added.
    fn check_chunk_fit(&mut self, arena: &dyn DynArena, count_before: usize, b: &Block) {
        if !self.on(grp::CHUNKFIT) {
            return;
        }
        arena.d_stats(&mut self.st2);
        let st = &self.st2;
        let refused = slab::with_current(|s| s.refused);
        if refused == 0 && st.count != count_before + 1 {
            viol!(self, grp::CHUNKFIT, "a request that reached the base allocator changed the chunk count from {} to {}", count_before, st.count);
            return;
        }
        if let Some(last) = st.fwd.last() {
            let in_last = b.size == 0 || (b.addr() >= last.content_start && b.addr() + b.size <= last.content_end);
            if refused == 0 && !in_last {
                viol!(self, grp::CHUNKFIT, "the request that created a chunk was not served from the new chunk");
            }
            if st.fwd.len() >= 2 {
                let prev = st.fwd[st.fwd.len() - 2];
                if last.size + 16 < 2 * prev.size {
                    viol!(self, grp::CHUNKFIT, "new chunk of {} bytes is smaller than twice the previous one ({}) less 16", last.size, prev.size);
                }
            }
        }
    }

    fn do_grow(&mut self, arena: &mut dyn DynArena, h: Handle, i: usize, new: Layout, zeroed: bool) {
        let b = self.model.blocks[i];
        self.note_outer_touch(&b);
        let calls = self.count_calls();
        arena.d_stats(&mut self.st2);
        let count_before = self.st2.count;
        let adjacent = self.is_adjacent(&self.st2.clone(), arena.d_cfg().up, &b);
        let was_last_returned = self.model.last_returned == Some(b.id) && adjacent;
        let room = self.room_after(arena, &b);
        let r = unsafe { Via::new(arena, h).grow(b.ptr, b.layout(), new, zeroed) };
        match r {
            Ok(p) => {
                let ptr: NonNull<u8> = p.cast();
                if p.len() < new.size() {
                    viol!(self, grp::CONTAIN, "grow to {new:?} returned only {} bytes", p.len());
                }
                if self.on(grp::CONTENT) {
                    if let Some(k) = unsafe { verify_prefix(ptr, b.id, b.size) } {
                        viol!(self, grp::CONTENT, "grow {:?}→{new:?}: byte {k} of the old contents was not preserved", b.layout());
                    }
                    if zeroed {
                        for k in b.size..new.size() {
                            if unsafe { *ptr.as_ptr().add(k) } != 0 {
                                viol!(self, grp::CONTENT, "grow_zeroed {:?}→{new:?}: new byte {k} is not zero", b.layout());
                                break;
                            }
                        }
                    }
                }
                let moved = ptr != b.ptr;
                if moved {
                    self.cover.moved_realloc = true;
                } else {
                    self.cover.inplace_realloc = true;
                }
                // C13: growing the most recent allocation in an upward arena with enough room stays in place
                // (the statement covers allocations whose size is a multiple of the minimum alignment, with deallocation enabled)
                let cfg = arena.d_cfg();
                if self.on(grp::RECLAIM) && cfg.up && cfg.deallocates && !h.suppresses_dealloc() && was_last_returned && b.size > 0 && b.size % cfg.min_align == 0 && b.addr() % new.align() == 0 {
                    if let Some(room) = room {
                        if new.size() <= room && moved {
                            viol!(self, grp::RECLAIM, "grow of the most recent allocation {:?}→{new:?} moved although {} bytes were available in place", b.layout(), room);
                        }
                    }
                }
                self.kill_at(i);
                let nb = self.new_block(ptr, new.size(), new.align(), 0);
                unsafe { fill(&nb) };
                self.check_returned_len(arena, &nb, p.len());
                if self.count_calls() != calls {
                    self.cover.chunk_switch = true;
                    self.check_chunk_fit(arena, count_before, &nb);
                }
            }
            Err(_) => {
                self.model.last_returned = None;
                self.expect_alloc_ok("grow", new);
            }
        }
    }

    /// The selected block as the buffer of a full `BumpVec`: whatever the vector does with it, the buffer it ends up with
    /// is a live block like any other (inside owned memory, aligned, disjoint from the others, old contents kept).
    fn do_vecbuf(&mut self, arena: &mut dyn DynArena, h: Handle, i: usize, act: VecAct, try_: bool) {
        let b = self.model.blocks[i];
        self.note_outer_touch(&b);
        let elem8 = b.align == 8;
        let es = if elem8 { 8 } else { 1 };
        let calls = self.count_calls();
        arena.d_stats(&mut self.st2);
        let count_before = self.st2.count;
        let out = unsafe { Via::new(arena, h).vec_act(elem8, b.ptr, b.size / es, act, try_) };
        if out.gone {
            self.kill_at(i);
            self.model.last_returned = None;
            return;
        }
        if out.failed {
            self.model.last_returned = None;
            self.expect_alloc_ok("vector growth", b.layout());
            if out.ptr != b.ptr || out.len != b.size || out.cap != b.size {
                viol!(self, grp::FAILURE | grp::CONTAIN, "a failed try_ {act:?} changed the vector: buffer {:#x} len {} cap {} (was {:#x}, {}, {})", out.ptr.as_ptr() as usize, out.len, out.cap, b.addr(), b.size, b.size);
            } else if self.on(grp::CONTENT) {
                if let Some(k) = unsafe { verify_prefix(b.ptr, b.id, b.size) } {
                    viol!(self, grp::CONTENT, "a failed try_ {act:?} changed byte {k} of the vector");
                }
            }
            return;
        }
        let (keep, want_len, min_cap) = match act {
            VecAct::Push => (b.size, b.size + es, b.size + es),
            VecAct::Reserve(n) | VecAct::ReserveExact(n) => (b.size, b.size, b.size + n as usize * es),
            VecAct::ExtendCopy(n) => (b.size, b.size + n as usize * es, b.size + n as usize * es),
            VecAct::PopShrinkFit | VecAct::PopIntoBoxed => (b.size - es, b.size - es, b.size - es),
            VecAct::Drop => unreachable!(),
        };
        if out.len != want_len {
            viol!(self, grp::CONTAIN | grp::CONTENT, "{act:?} on a vector of {} bytes left a length of {} bytes, expected {want_len}", b.size, out.len);
        }
        if out.cap < min_cap || out.cap < out.len {
            viol!(self, grp::CONTAIN, "{act:?} on a vector of {} bytes left a capacity of {} bytes, needs {min_cap}", b.size, out.cap);
        }
        if act == VecAct::PopShrinkFit && out.cap != b.size && out.cap != b.size - es {
            viol!(self, grp::CONTAIN, "pop + shrink_to_fit on a full vector of {} bytes left a capacity of {} bytes", b.size, out.cap);
        }
        if out.cap > 0 && out.ptr.as_ptr() as usize % b.align != 0 {
            viol!(self, grp::CONTAIN, "{act:?}: the vector's buffer {:#x} is not aligned to {}", out.ptr.as_ptr() as usize, b.align);
        }
        if self.on(grp::CONTENT) && out.cap >= out.len && out.len >= keep {
            if let Some(k) = unsafe { verify_prefix(out.ptr, b.id, keep) } {
                viol!(self, grp::CONTENT, "{act:?}: byte {k} of the vector's old contents was not preserved");
            }
            for k in keep..out.len {
                if unsafe { *out.ptr.as_ptr().add(k) } != crate::facade::VEC_FILL {
                    viol!(self, grp::CONTENT, "{act:?}: appended byte {k} reads back wrong");
                    break;
                }
            }
        }
        if out.ptr != b.ptr {
            self.cover.moved_realloc = true;
        } else {
            self.cover.inplace_realloc = true;
        }
        let depth = b.depth;
        self.kill_at(i);
        if out.cap == 0 {
            self.model.last_returned = None;
            return;
        }
        let nb = self.new_block(out.ptr, out.cap, b.align, b.elem);
        if nb.addr() >= b.addr() && nb.addr() + nb.size <= b.addr() + b.size {
            self.model.blocks.last_mut().unwrap().depth = depth;
        }
        let nb = *self.model.blocks.last().unwrap();
        unsafe { fill(&nb) };
        if self.count_calls() != calls {
            self.cover.chunk_switch = true;
            self.check_chunk_fit(arena, count_before, &nb);
        }
    }

    /// bytes from the block's start to the end of the current chunk if the block is the last allocation (UP)
    fn room_after(&mut self, arena: &dyn DynArena, b: &Block) -> Option<usize> {
        arena.d_stats(&mut self.st3);
        let c = self.st3.current?;
        if b.addr() >= c.content_start && b.addr() <= c.content_end { Some(c.content_end - b.addr()) } else { None }
    }

    fn do_shrink(&mut self, arena: &mut dyn DynArena, h: Handle, i: usize, new: Layout) {
        let b = self.model.blocks[i];
        self.note_outer_touch(&b);
        arena.d_stats(&mut self.st2);
        let alloc_before = self.st2.allocated;
        let cur_before = self.st2.current.map(|c| c.chunk_start);
        let adjacent = self.is_adjacent(&self.st2.clone(), arena.d_cfg().up, &b);
        let r = unsafe { Via::new(arena, h).shrink(b.ptr, b.layout(), new) };
        match r {
            Ok(p) => {
                let ptr: NonNull<u8> = p.cast();
                if p.len() < new.size() {
                    viol!(self, grp::CONTAIN, "shrink to {new:?} returned only {} bytes", p.len());
                }
                if self.on(grp::CONTENT) {
                    if let Some(k) = unsafe { verify_prefix(ptr, b.id, new.size()) } {
                        viol!(self, grp::CONTENT, "shrink {:?}→{new:?}: byte {k} of the contents was not preserved", b.layout());
                    }
                }
                let moved = ptr != b.ptr;
                if moved {
                    self.cover.moved_realloc = true;
                } else {
                    self.cover.inplace_realloc = true;
                }
                let depth = b.depth;
                self.kill_at(i);
                let nb = self.new_block(ptr, new.size(), new.align(), 0);
                // a shrink that stayed inside the old byte range keeps the scope of the old block
                let inside = nb.addr() >= b.addr() && nb.addr() + nb.size <= b.addr() + b.size;
                if inside {
                    self.model.blocks.last_mut().unwrap().depth = depth;
                }
                let nb = *self.model.blocks.last().unwrap();
                unsafe { fill(&nb) };
                // surplus of the returned slice: only meaningful when the block did not move
                if !moved && p.len() > b.size {
                    viol!(self, grp::CONTAIN, "shrink returned a longer block ({}) than the old one ({})", p.len(), b.size);
                }
                if self.on(grp::RECLAIM) {
                    arena.d_stats(&mut self.st2);
                    let same_chunk = self.st2.current.map(|c| c.chunk_start) == cur_before;
                    let decreased = same_chunk && self.st2.allocated < alloc_before;
                    let cfg = arena.d_cfg();
                    if decreased && (!cfg.shrinks || h.suppresses_shrink()) {
                        viol!(self, grp::RECLAIM, "shrink decreased allocated() ({}→{}) although shrinking is disabled on this path", alloc_before, self.st2.allocated);
                    }
                    if decreased && !adjacent {
                        viol!(self, grp::RECLAIM, "shrink of a block that is not the most recent allocation decreased allocated() ({}→{})", alloc_before, self.st2.allocated);
                    }
                    if decreased {
                        self.cover.reclaim = true;
                    }
                }
            }
            Err(_) => {
                self.model.last_returned = None;
                // "shrink never errors unless the new alignment is greater"
                if new.align() <= b.align {
                    viol!(self, grp::CONTAIN | grp::FAILURE, "shrink {:?}→{new:?} failed although the alignment did not increase", b.layout());
                } else {
                    self.expect_alloc_ok("shrink", new);
                }
            }
        }
    }

    /// model-level adjacency: the block touches the bump position of the current chunk exactly
    fn is_adjacent(&self, st: &StatsSnap, up: bool, b: &Block) -> bool {
        let Some(c) = st.current else { return false };
        if up { b.addr() + b.size == c.pos } else { b.addr() == c.pos }
    }

    fn do_dealloc(&mut self, arena: &mut dyn DynArena, h: Handle, i: usize, typed: bool) {
        let b = self.model.blocks[i];
        self.note_outer_touch(&b);
        arena.d_stats(&mut self.st2);
        let alloc_before = self.st2.allocated;
        let adjacent = self.is_adjacent(&self.st2.clone(), arena.d_cfg().up, &b);
        // "most recent allocation": returned by the immediately preceding call *and* still touching the bump position
        // (a shrink that was not allowed to reclaim returns the block without making it adjacent)
        let was_last_returned = self.model.last_returned == Some(b.id) && adjacent;
        if typed {
            unsafe { Via::new(arena, h).dealloc_typed(b.align == 8, b.ptr, if b.align == 8 { b.size / 8 } else { b.size }) };
        } else {
            unsafe { Via::new(arena, h).deallocate(b.ptr, b.layout()) };
        }
        self.kill_at(i);
        self.model.last_returned = None;
        if self.on(grp::RECLAIM) {
            let cfg = arena.d_cfg();
            arena.d_stats(&mut self.st2);
            let after = self.st2.allocated;
            let enabled = cfg.deallocates && !h.suppresses_dealloc();
            if after > alloc_before {
                viol!(self, grp::RECLAIM, "deallocate increased allocated() {}→{}", alloc_before, after);
            }
            if after < alloc_before {
                self.cover.reclaim = true;
                if !enabled {
                    viol!(self, grp::RECLAIM, "deallocate changed allocated() ({}→{}) although deallocation is disabled on this path", alloc_before, after);
                }
                if !adjacent {
                    viol!(self, grp::RECLAIM, "deallocate of a block that is not the most recent allocation changed allocated() ({}→{})", alloc_before, after);
                }
            }
            // must reclaim: the same request again returns the same address
            if enabled && was_last_returned && b.size > 0 && b.size % cfg.min_align == 0 && self.opts.probes && self.pc >= self.ops.len() {
                match Via::new(arena, h).allocate(b.layout(), false) {
                    Ok(p) => {
                        let p: NonNull<u8> = p.cast();
                        if p != b.ptr {
                            viol!(
                                self,
                                grp::RECLAIM,
                                "deallocating the most recent allocation {:?} did not make its space reusable: same request now at {:#x}, before at {:#x}",
                                b.layout(),
                                p.as_ptr() as usize,
                                b.addr()
                            );
                        }
                        let nb = self.new_block(p, b.size, b.align, 0);
                        unsafe { fill(&nb) };
                    }
                    Err(_) => viol!(self, grp::RECLAIM, "re-allocating a just-deallocated block failed"),
                }
            }
        }
    }

    fn do_typed(&mut self, arena: &mut dyn DynArena, h: Handle, t: TypedOp, try_: bool) {
        let calls = self.count_calls();
        arena.d_stats(&mut self.st2);
        let count_before = self.st2.count;
        let r = Via::new(arena, h).typed(t, try_);
        match r {
            Ok(blk) => {
                if t == TypedOp::SliceOverflow {
                    viol!(self, grp::FAILURE, "a slice whose byte size overflows was allocated");
                    return;
                }
                let elem = match t {
                    TypedOp::SliceU8(_) | TypedOp::AllocSliceCopyU8(_) | TypedOp::AllocUninitSliceU8(_) => 1,
                    TypedOp::SliceU64(_) | TypedOp::SliceForU64(_) => 8,
                    _ => 0,
                };
                if self.on(grp::CONTENT) {
                    match t {
                        TypedOp::AllocU64 => {
                            let v = unsafe { (blk.ptr.as_ptr() as *const u64).read_unaligned() };
                            if v != 0x0706_0504_0302_0100u64 {
                                viol!(self, grp::CONTENT, "alloc(value) stored {v:#x}");
                            }
                        }
                        TypedOp::AllocSliceCopyU8(_) => {
                            for k in 0..blk.len {
                                if unsafe { *blk.ptr.as_ptr().add(k) } != 0xAB {
                                    viol!(self, grp::CONTENT, "alloc_slice_copy: byte {k} differs from the source");
                                    break;
                                }
                            }
                        }
                        _ => {}
                    }
                }
                let b = self.new_block(blk.ptr, blk.len, blk.align, elem);
                unsafe { fill(&b) };
                if self.count_calls() != calls {
                    self.cover.chunk_switch = true;
                    self.check_chunk_fit(arena, count_before, &b);
                }
            }
            Err(()) => {
                self.model.last_returned = None;
                if t != TypedOp::SliceOverflow {
                    self.expect_alloc_ok("typed allocation", Layout::new::<u8>());
                }
            }
        }
    }

    fn do_shrink_slice(&mut self, arena: &mut dyn DynArena, h: Handle, i: usize, old_len: usize, new_len: usize) {
        let b = self.model.blocks[i];
        self.note_outer_touch(&b);
        let es = b.elem as usize;
        arena.d_stats(&mut self.st2);
        let alloc_before = self.st2.allocated;
        let r = unsafe { Via::new(arena, h).shrink_slice(b.elem == 8, b.ptr, old_len, new_len) };
        let ptr = r.unwrap_or(b.ptr);
        if self.on(grp::CONTENT) {
            if let Some(k) = unsafe { verify_prefix(ptr, b.id, new_len * es) } {
                viol!(self, grp::CONTENT, "shrink_slice {old_len}→{new_len}: byte {k} of the contents was not preserved");
            }
        }
        if r.is_some() {
            self.cover.inplace_realloc = true;
        }
        let depth = b.depth;
        self.kill_at(i);
        let _ = self.new_block(ptr, new_len * es, b.align, b.elem);
        self.model.blocks.last_mut().unwrap().depth = depth;
        let nb = *self.model.blocks.last().unwrap();
        unsafe { fill(&nb) };
        if self.on(grp::RECLAIM) {
            arena.d_stats(&mut self.st2);
            let cfg = arena.d_cfg();
            if self.st2.allocated < alloc_before {
                self.cover.reclaim = true;
                if !cfg.shrinks || h.suppresses_shrink() {
                    viol!(self, grp::RECLAIM, "shrink_slice decreased allocated() although shrinking is disabled on this path");
                }
            }
        }
    }

    fn do_prep(&mut self, arena: &mut dyn DynArena, h: Handle, size: usize, align: usize, commit: Commit, rev: bool) {
        // contract: sizes are multiples of the alignment (array layouts)
        if size % align != 0 {
            return self.disable();
        }
        let layout = Layout::from_size_align(size, align).unwrap();
        let calls = self.count_calls();
        let range = match Via::new(arena, h).prepare(layout, rev) {
            Ok(r) => r,
            Err(_) => {
                self.model.last_returned = None;
                self.expect_alloc_ok("prepare_allocation", layout);
                return;
            }
        };
        let (s, e) = (range.start.as_ptr() as usize, range.end.as_ptr() as usize);
        if e < s || e - s < size {
            viol!(self, grp::CONTAIN, "prepare_allocation({layout:?}) returned a range of {} bytes", e.wrapping_sub(s));
            return;
        }
        if s % align != 0 || e % align != 0 {
            viol!(self, grp::CONTAIN, "prepare_allocation({layout:?}) returned a range {s:#x}..{e:#x} with unaligned ends");
            return;
        }
        // the prepared range must be free space of the arena: disjoint from every live block, inside a chunk
        if self.on(grp::CONTAIN) {
            for o in &self.model.blocks {
                if o.size > 0 && o.addr() < e && s < o.addr() + o.size {
                    viol!(self, grp::CONTAIN, "prepared range {s:#x}..{e:#x} overlaps live block #{}", o.id);
                    return;
                }
            }
            arena.d_stats(&mut self.st2);
            if !self.st2.fwd.iter().any(|c| s >= c.content_start && e <= c.content_end) {
                viol!(self, grp::CONTAIN, "prepared range {s:#x}..{e:#x} is not inside a chunk");
                return;
            }
        }
        let units = size / align;
        let csize = match commit {
            Commit::Full => size,
            Commit::Half => (units / 2) * align,
            Commit::Zero => 0,
        };
        let clayout = Layout::from_size_align(csize, align).unwrap();
        // the user fills the part of the range it is going to commit: front for the forward form, back for `_rev`
        let id = self.model.next_id;
        unsafe {
            let base = if rev { range.end.as_ptr().sub(csize) } else { range.start.as_ptr() };
            for k in 0..csize {
                *base.add(k) = pat(id, k);
            }
        }
        self.dirty_free = true; // data is moved inside the prepared range
        let p = unsafe { Via::new(arena, h).commit(clayout, range.clone(), rev) };
        let pa = p.as_ptr() as usize;
        if pa < s || pa + csize > e {
            viol!(self, grp::CONTAIN, "allocate_prepared returned {pa:#x}+{csize} outside the prepared range {s:#x}..{e:#x}");
            return;
        }
        if self.on(grp::CONTENT) {
            if let Some(k) = unsafe { verify_prefix(p, id, csize) } {
                viol!(self, grp::CONTENT, "allocate_prepared{}: byte {k} of the prepared contents was lost", if rev { "_rev" } else { "" });
            }
        }
        let b = self.new_block(p, csize, align, 0);
        debug_assert_eq!(b.id, id);
        if self.count_calls() != calls {
            self.cover.chunk_switch = true;
        }
    }

    fn do_prep_slice(&mut self, arena: &mut dyn DynArena, h: Handle, elem: usize, min_cap: usize, commit: Commit, rev: bool, try_: bool) {
        let calls = self.count_calls();
        let id = self.model.next_id;
        let mut len_chosen = 0usize;
        let mut len_of = |cap: usize| {
            let l = match commit {
                Commit::Full => cap.min(min_cap.max(1)),
                Commit::Half => cap.min(min_cap) / 2,
                Commit::Zero => 0,
            };
            len_chosen = l;
            l
        };
        let mut fill_fn = |p: NonNull<u8>, bytes: usize| unsafe {
            for k in 0..bytes {
                *p.as_ptr().add(k) = pat(id, k);
            }
        };
        self.dirty_free = true;
        let r = Via::new(arena, h).prepared_slice(elem, min_cap, &mut len_of, rev, try_, &mut fill_fn);
        match r {
            Ok((start, cap, res, rlen)) => {
                let s = start.as_ptr() as usize;
                let e = s + cap * elem;
                if cap < min_cap {
                    viol!(self, grp::CONTAIN, "prepare_slice_allocation({min_cap}) returned capacity {cap}");
                }
                let ra = res.as_ptr() as usize;
                let align = if elem == 32 { 32 } else if elem == 8 { 8 } else { 1 };
                if rlen != len_chosen || ra < s || ra + rlen * elem > e {
                    viol!(self, grp::CONTAIN, "allocate_prepared_slice returned {ra:#x} len {rlen} outside the prepared range {s:#x}..{e:#x} (len requested {len_chosen})");
                    return;
                }
                if self.on(grp::CONTENT) {
                    if let Some(k) = unsafe { verify_prefix(res, id, rlen * elem) } {
                        viol!(self, grp::CONTENT, "allocate_prepared_slice{}: byte {k} of the prepared contents was lost", if rev { "_rev" } else { "" });
                    }
                }
                let te = if elem == 1 { 1 } else if elem == 8 { 8 } else { 0 };
                let b = self.new_block(res, rlen * elem, align, te);
                debug_assert_eq!(b.id, id);
                if self.count_calls() != calls {
                    self.cover.chunk_switch = true;
                }
            }
            Err(()) => {
                self.model.last_returned = None;
                self.expect_alloc_ok("prepare_slice_allocation", Layout::new::<u8>());
            }
        }
    }

    fn do_reserve(&mut self, arena: &mut dyn DynArena, h: Handle, n: usize, try_: bool) {
        arena.d_stats(&mut self.st2);
        let before = self.st2.clone();
        let r = Via::new(arena, h).reserve(n, try_);
        self.model.last_returned = None;
        match r {
            Ok(()) => {
                arena.d_stats(&mut self.st2);
                if self.st2.remaining < n {
                    viol!(self, grp::CONTAIN | grp::CHUNKFIT, "reserve({n}) succeeded but remaining() is {}", self.st2.remaining);
                }
                if self.st2.count != before.count {
                    self.cover.chunk_switch = true;
                    if self.on(grp::CHUNKFIT) && self.st2.count != before.count + 1 && slab::with_current(|s| s.refused) == 0 {
                        viol!(self, grp::CHUNKFIT, "reserve({n}) changed the chunk count from {} to {}", before.count, self.st2.count);
                    }
                }
            }
            Err(()) => {
                self.expect_alloc_ok("reserve", Layout::new::<u8>());
            }
        }
    }

    fn do_try_with(&mut self, arena: &mut dyn DynArena, mutable: bool, ok: bool, inner: Option<(u32, u32)>, try_: bool) {
        if mutable && inner.is_some() {
            return self.disable();
        }
        let entry = self.snapshot_entry(arena);
        let inner_layout = inner.map(|(s, a)| Layout::from_size_align(s as usize, a as usize).unwrap());
        self.dirty_free = true;
        crate::facade::INNER_BLOCK.with(|c| c.set(None));
        let r = arena.d_alloc_try_with(mutable, ok, inner_layout, try_);
        self.model.last_returned = None;
        // what the closure allocated through the arena is an ordinary live block from now on
        if let Some((p, size, align)) = crate::facade::INNER_BLOCK.with(|c| c.take()) {
            let b = self.new_block(NonNull::new(p as *mut u8).unwrap(), size, align, 0);
            unsafe { fill(&b) };
            self.model.last_returned = None;
        }
        match r {
            Ok(blk) => {
                if !ok {
                    viol!(self, grp::CONTENT, "alloc_try_with returned Ok although the closure returned Err");
                    return;
                }
                if self.on(grp::CONTENT) {
                    for k in 0..blk.len {
                        if unsafe { *blk.ptr.as_ptr().add(k) } != 0x5A {
                            viol!(self, grp::CONTENT, "alloc_try_with: byte {k} of the value differs");
                            break;
                        }
                    }
                }
                let b = self.new_block(blk.ptr, blk.len, blk.align, 0);
                unsafe { fill(&b) };
            }
            Err(()) => {
                if ok {
                    // allocation failure path
                    self.expect_alloc_ok("alloc_try_with", Layout::new::<[u8; 24]>());
                    return;
                }
                // C03: Err without own allocations restores the position exactly
                if inner.is_none() && self.on(grp::RESTORE) && self.check_now() && slab::with_current(|s| s.refused) == self.refused_at_step {
                    arena.d_stats(&mut self.st);
                    let pos = self.st.current.map_or(0, |c| c.pos);
                    let cur = self.st.current.map_or(0, |c| c.chunk_start);
                    let exact = if entry.cur != 0 {
                        self.st.allocated == entry.allocated && pos == entry.pos && cur == entry.cur
                    } else {
                        self.st.allocated == 0
                    };
                    if !exact {
                        viol!(
                            self,
                            grp::RESTORE,
                            "alloc_try_with{} → Err left (allocated,pos,chunk)=({},{:#x},{:#x}), before ({},{:#x},{:#x})",
                            if mutable { "_mut" } else { "" },
                            self.st.allocated,
                            pos,
                            cur,
                            entry.allocated,
                            entry.pos,
                            entry.cur
                        );
                    }
                }
            }
        }
    }

    fn do_mut_coll(&mut self, arena: &mut dyn DynArena, spec: &crate::mutcoll::MutSpec) {
        use crate::mutcoll::*;
        let cfg = arena.d_cfg();
        let mut rep = MutReport::default();
        self.dirty_free = true; // the collection legitimately writes into free space while it is being filled
        arena.d_mut_coll(spec, &mut rep);
        self.model.last_returned = None;
        let g = grp::MUTCOLL;
        if let Some(u) = &rep.unexpected {
            viol!(self, g, "{:?}: {u}", spec);
            return;
        }
        let expect_panic = spec.end == MutEnd::Unwind;
        if rep.panicked != expect_panic {
            viol!(self, g, "{:?}: panicked={} but expected {}", spec, rep.panicked, expect_panic);
            return;
        }
        let before = rep.snaps.first().cloned().unwrap_or_default();
        let finalised = rep.result.is_some();
        // -- filling phases, and the end state of a collection that was dropped / unwound: no chunk that existed before
        //    has a different position (at most a later, still empty chunk became current)
        let last = rep.snaps.len().saturating_sub(1);
        for (si, s) in rep.snaps.iter().enumerate().skip(1) {
            if finalised && si == last {
                continue;
            }
            for (k, b) in before.chunks.iter().enumerate() {
                match s.chunks.get(k) {
                    Some(c) if c.0 == b.0 => {
                        if c.3 != b.3 {
                            viol!(self, g, "{:?}: bump position of chunk {k} moved from {:#x} to {:#x} in phase '{}' (offset {} → {})", spec, b.3, c.3, s.tag, b.3 - b.0, c.3.wrapping_sub(c.0));
                            return;
                        }
                    }
                    _ => {
                        viol!(self, g, "{:?}: chunk {k} disappeared in phase '{}'", spec, s.tag);
                        return;
                    }
                }
            }
            // chunks created while filling stay empty
            for c in s.chunks.iter().skip(before.chunks.len()) {
                let start = if cfg.up { c.1 } else { c.2 };
                if c.3 != start {
                    viol!(self, g, "{:?}: a chunk created while filling has a moved position in phase '{}' ({:#x}, start {:#x})", spec, s.tag, c.3, start);
                    return;
                }
            }
        }
        if let Some(blk) = rep.result {
            if !rep.content_ok {
                viol!(self, g, "{:?}: the finalised contents differ from what was pushed (len {})", spec, rep.len);
                return;
            }
            let end = rep.snaps.last().unwrap();
            let bytes = rep.len * rep.elem_size.max(if spec.kind == MutKind::Str || spec.kind == MutKind::FmtMut || spec.kind == MutKind::CstrFmtMut { 1 } else { 0 });
            let bytes = if rep.elem_size == 0 { 0 } else { bytes };
            let bound = bytes + (rep.elem_align - 1) + (cfg.min_align - 1);
            let mut advanced_chunks = 0;
            let mut d9: Option<String> = None;
            for (k, c) in end.chunks.iter().enumerate() {
                let entry_pos = match before.chunks.get(k) {
                    Some(b) if b.0 == c.0 => b.3,
                    _ => {
                        if cfg.up {
                            c.1
                        } else {
                            c.2
                        }
                    }
                };
                let adv = if cfg.up { c.3.wrapping_sub(entry_pos) } else { entry_pos.wrapping_sub(c.3) };
                if adv != 0 {
                    advanced_chunks += 1;
                    if adv > bound {
                        // D9 (known finding): `alloc_try_with_mut` leaves the part of the `Result<T, E>` slot that lies in front of the
                        // value in bump direction allocated (upwards: discriminant / padding before it; downwards: what follows it)
                        // (tagged only if the new position is exactly the MIN_ALIGN-rounded far edge of the value: then all of the
                        // excess comes from where the value sits inside the slot)
                        let value_edge = if cfg.up { (blk.ptr.as_ptr() as usize + blk.len + cfg.min_align - 1) & !(cfg.min_align - 1) } else { (blk.ptr.as_ptr() as usize) & !(cfg.min_align - 1) };
                        if spec.kind == MutKind::TryWithMut && rep.slot_size > rep.elem_size && c.3 == value_edge {
                            // reported last, so that every other oracle still judges this history
                            d9 = Some(format!("alloc_try_with_mut slot waste: {:?}: returning Ok advanced the position of chunk {k} by {adv} bytes for {bytes} bytes of contents (padding bound {}, Result slot {} bytes)", spec, bound - bytes, rep.slot_size));
                        } else {
                        viol!(self, g, "{:?}: finalising advanced the position of chunk {k} by {adv} bytes, more than contents {bytes} + padding bound {}", spec, bound - bytes);
                        return;
                        }
                    }
                    // the result must be the memory the position moved over
                    if blk.len > 0 {
                        let (lo, hi) = if cfg.up { (entry_pos, c.3) } else { (c.3, entry_pos) };
                        let a = blk.ptr.as_ptr() as usize;
                        if a < lo || a + blk.len > hi {
                            viol!(self, g, "{:?}: the finalised block {:#x}+{} is not inside the bytes the position moved over ({:#x}..{:#x})", spec, a, blk.len, lo, hi);
                            return;
                        }
                    }
                }
            }
            if advanced_chunks > 1 {
                viol!(self, g, "{:?}: finalising moved the position of {advanced_chunks} chunks", spec);
                return;
            }
            if advanced_chunks == 0 && blk.len > 0 {
                viol!(self, g, "{:?}: a non-empty result was produced but no position moved (the result is not protected)", spec);
                return;
            }
            if (blk.ptr.as_ptr() as usize) % blk.align != 0 {
                viol!(self, g, "{:?}: result is not aligned to {}", spec, blk.align);
                return;
            }
            let b = self.new_block(blk.ptr, blk.len, blk.align, 0);
            unsafe { fill(&b) };
            self.model.last_returned = None;
            if let Some(m) = d9 {
                viol!(self, g, "{m}");
            }
        }
    }

    fn do_orig(&mut self, arena: &mut dyn DynArena, orig: &dyn DynArena, o: OrigOp) {
        // `orig` is claimed: every memory request fails in the documented way, dealloc/shrink do nothing.
        let h = self.opts.h;
        let mut via = Via::shared(orig, h);
        arena.d_stats(&mut self.st2);
        let guard_before = (self.st2.allocated, self.st2.count, self.st2.current.map(|c| c.pos));
        let calls = self.count_calls();
        let g = grp::CLAIM;
        match o {
            OrigOp::Allocate(s, a) => {
                let l = Layout::from_size_align(s as usize, a as usize).unwrap();
                if l.size() == 0 {
                    // zero-sized requests through the allocator interface still "request memory": either outcome is accepted
                    let _ = via.allocate(l, false);
                } else if via.allocate(l, false).is_ok() {
                    viol!(self, g, "allocate({l:?}) on a claimed allocator succeeded");
                }
            }
            OrigOp::TryTyped => {
                if via.typed(TypedOp::SizedU64, true).is_ok() {
                    viol!(self, g, "try_allocate_sized on a claimed allocator succeeded");
                }
                if via.typed(TypedOp::AllocSliceCopyU8(3), true).is_ok() {
                    viol!(self, g, "try_alloc_slice_copy on a claimed allocator succeeded");
                }
            }
            OrigOp::PanickingTyped => {
                let r = catch_unwind(AssertUnwindSafe(|| via.typed(TypedOp::AllocU64, false)));
                match r {
                    Ok(_) => viol!(self, g, "panicking alloc on a claimed allocator returned normally"),
                    Err(p) => {
                        if p.is::<UnwindMarker>() {
                            resume_unwind(p);
                        }
                    }
                }
            }
            OrigOp::ZstTyped => {
                // values of zero-sized types never touch the allocator
                let r = catch_unwind(AssertUnwindSafe(|| via.typed(TypedOp::AllocUnit, false)));
                match r {
                    Err(_) => viol!(self, g, "alloc(()) of a zero-sized value on a claimed allocator panicked"),
                    Ok(Err(())) => viol!(self, g, "alloc(()) of a zero-sized value on a claimed allocator failed"),
                    Ok(Ok(_)) => {}
                }
                if via.typed(TypedOp::AllocUnit, true).is_err() {
                    viol!(self, g, "try_alloc(()) of a zero-sized value on a claimed allocator failed");
                }
            }
            OrigOp::GrowOld | OrigOp::ShrinkOld | OrigOp::DeallocOld => {
                // a block allocated before the claim (depth below the claim frame)
                let claim_idx = self.model.frames.iter().rposition(|f| f.region == Region::Claim).unwrap();
                let nb = self.model.frames[claim_idx].entry.nblocks;
                let Some(i) = (0..nb.min(self.model.blocks.len())).rev().find(|&i| self.model.blocks[i].size >= 2) else {
                    return self.disable();
                };
                let b = self.model.blocks[i];
                match o {
                    OrigOp::GrowOld => {
                        let new = Layout::from_size_align(b.size + 8, b.align).unwrap();
                        if unsafe { via.grow(b.ptr, b.layout(), new, false) }.is_ok() {
                            viol!(self, g, "grow through a claimed allocator succeeded");
                        }
                    }
                    OrigOp::ShrinkOld => {
                        let new = Layout::from_size_align(b.size / 2, b.align).unwrap();
                        match unsafe { via.shrink(b.ptr, b.layout(), new) } {
                            Ok(p) => {
                                let p: NonNull<u8> = p.cast();
                                if p != b.ptr {
                                    viol!(self, g, "shrink through a claimed allocator moved the block");
                                }
                                // the caller now owns the block with the new layout
                                self.model.blocks[i].size = new.size();
                                self.exempt.push((b.addr() + new.size(), b.addr() + b.size));
                            }
                            Err(_) => viol!(self, g, "shrink (same alignment) through a claimed allocator failed"),
                        }
                    }
                    OrigOp::DeallocOld => {
                        unsafe { via.deallocate(b.ptr, b.layout()) };
                        self.kill_at(i);
                    }
                    _ => unreachable!(),
                }
            }
            OrigOp::TryReserve(n) => {
                if via.reserve(n as usize, true).is_ok() {
                    viol!(self, g, "try_reserve({n}) on a claimed allocator succeeded");
                }
            }
            OrigOp::PanickingReserve(n) => {
                let r = catch_unwind(AssertUnwindSafe(|| via.reserve(n as usize, false)));
                if r.is_ok() {
                    viol!(self, g, "reserve({n}) on a claimed allocator returned normally");
                }
            }
            OrigOp::Prepare(n) => {
                let l = Layout::from_size_align(n as usize, 1).unwrap();
                if via.prepare(l, false).is_ok() {
                    viol!(self, g, "prepare_allocation({n}) on a claimed allocator succeeded");
                }
            }
            OrigOp::Stats => {
                orig.d_stats(&mut self.st3);
                let z = &self.st3;
                if z.count != 0 || z.size != 0 || z.capacity != 0 || z.allocated != 0 || z.remaining != 0 || z.current.is_some() || !z.fwd.is_empty() {
                    viol!(self, g, "stats() of a claimed allocator are not all zero: {:?}", (z.count, z.size, z.capacity, z.allocated, z.remaining));
                }
                via.any_stats(&mut self.st3);
                let z = &self.st3;
                if z.count != 0 || z.size != 0 || z.capacity != 0 || z.allocated != 0 || z.remaining != 0 || z.current.is_some() {
                    viol!(self, g, "any_stats() of a claimed allocator are not all zero");
                }
                if !via.is_claimed() {
                    viol!(self, g, "is_claimed() is false while a claim guard is alive");
                }
            }
            OrigOp::ClaimAgain => {
                if !orig.d_second_claim_panics() {
                    viol!(self, g, "a second claim() on a claimed allocator did not panic");
                }
                if !via.is_claimed() {
                    viol!(self, g, "is_claimed() is false while a claim guard is alive");
                }
            }
        }
        // nothing done on the claimed original may affect the guard's arena or reach the base allocator
        arena.d_stats(&mut self.st2);
        let guard_after = (self.st2.allocated, self.st2.count, self.st2.current.map(|c| c.pos));
        if guard_after != guard_before {
            viol!(self, g, "an operation on the claimed original changed the guard's arena: {:?} → {:?}", guard_before, guard_after);
        }
        if self.count_calls() != calls {
            viol!(self, g, "an operation on the claimed original reached the base allocator");
        }
        self.model.last_returned = None;
    }

    fn check_reset(&mut self, arena: &dyn DynArena, full: bool, before: &StatsSnap, grants_before: &[slab::Grant]) {
        arena.d_stats(&mut self.st);
        let st = self.st.clone();
        let up = arena.d_cfg().up;
        if before.count == 0 {
            if st.count != 0 && self.on(grp::RELEASE) {
                viol!(self, grp::RELEASE, "reset of an unallocated arena created chunks");
            }
            return;
        }
        if st.allocated != 0 {
            viol!(self, grp::RESTORE | grp::RELEASE, "allocated() is {} after reset", st.allocated);
        }
        let grants_now: Vec<slab::Grant> = slab::with_current(|s| s.grants.clone());
        let newly_released: Vec<&slab::Grant> = grants_now.iter().filter(|g| g.released && grants_before.iter().any(|b| b.seq == g.seq && !b.released)).collect();
        if full {
            if st.count != 1 {
                viol!(self, grp::RELEASE | grp::RESTORE, "reset() left {} chunks", st.count);
                return;
            }
            let largest = before.fwd.iter().map(|c| c.size).max().unwrap();
            let kept = st.fwd[0];
            if kept.size != largest {
                viol!(self, grp::RELEASE, "reset() kept a chunk of {} bytes, the largest was {}", kept.size, largest);
            }
            if newly_released.len() != before.count - 1 {
                viol!(self, grp::RELEASE, "reset() released {} of {} chunks", newly_released.len(), before.count);
            }
            let start = if up { kept.content_start } else { kept.content_end };
            if kept.pos != start {
                viol!(self, grp::RESTORE, "position after reset() is {:#x}, expected {:#x}", kept.pos, start);
            }
        } else {
            if !newly_released.is_empty() {
                viol!(self, grp::RELEASE, "reset_to_start() released {} chunk(s)", newly_released.len());
            }
            if st.count != before.count || st.size != before.size {
                viol!(self, grp::RESTORE, "reset_to_start() changed the chunk list: count {}→{}", before.count, st.count);
            }
            let first = st.fwd[0];
            let start = if up { first.content_start } else { first.content_end };
            if st.current.map(|c| (c.chunk_start, c.pos)) != Some((first.chunk_start, start)) {
                viol!(self, grp::RESTORE, "reset_to_start() did not rewind to the start of the first chunk");
            }
        }
    }

    // ------------------------------------------------------------------------------------------
    // state oracles (after every step)
    // ------------------------------------------------------------------------------------------

    pub fn after_step(&mut self, arena: &dyn DynArena, op: Op) {
        let check = self.check_now();
        arena.d_stats(&mut self.st);
        if self.trace.is_some() && !self.replaying {
            let st = &self.st;
            let mut e = [u64::MAX, 0, st.allocated as u64, ((st.count as u64) << 40) | st.remaining as u64, self.pc as u64];
            if let Some(id) = self.model.last_returned {
                if let Some(b) = self.model.blocks.iter().find(|b| b.id == id) {
                    let ci = st.fwd.iter().position(|c| b.addr() >= c.chunk_start && b.addr() <= c.chunk_end);
                    if let Some(ci) = ci {
                        e[0] = ((ci as u64) << 40) | (b.addr() - st.fwd[ci].chunk_start) as u64;
                    } else {
                        e[0] = u64::MAX - 1;
                    }
                    e[1] = ((b.size as u64) << 8) | b.align.trailing_zeros() as u64;
                }
            }
            self.trace.as_mut().unwrap().push(e);
        }
        if check {
            self.check_state(arena, op);
        }
        if self.viol.is_none() {
            self.scrub(arena, check && self.on(grp::CONTENT) && !self.dirty_free);
        }
    }

    fn check_state(&mut self, arena: &dyn DynArena, _op: Op) {
        let cfg = arena.d_cfg();
        // --- base allocator log and guards (C05, C02)
        if self.on(grp::RELEASE) || self.on(grp::CONTENT) {
            let (errs, guards) = slab::with_current(|s| (s.errors.first().cloned(), s.check_guards()));
            if let Some(e) = errs {
                viol!(self, grp::RELEASE, "base allocator protocol: {e}");
            }
            if let Err(e) = guards {
                viol!(self, grp::RELEASE | grp::CONTENT, "memory outside the granted blocks: {e}");
            }
        }
        let in_claim_orig = false;
        let _ = in_claim_orig;
        // --- statistics (C10)
        if self.on(grp::STATS) || self.on(grp::ALIGN) {
            self.check_stats(arena, &cfg);
        }
        // --- live blocks (C01, C02)
        if self.on(grp::CONTAIN) {
            let st = &self.st;
            let blocks = &self.model.blocks;
            let mut msg = None;
            'outer: for (i, b) in blocks.iter().enumerate() {
                if b.addr() % b.align != 0 {
                    msg = Some(format!("block #{} at {:#x} is not aligned to {}", b.id, b.addr(), b.align));
                    break;
                }
                if b.size == 0 {
                    continue;
                }
                let inside_chunk = st.fwd.iter().any(|c| b.addr() >= c.content_start && b.addr() + b.size <= c.content_end);
                if !inside_chunk {
                    msg = Some(format!("block #{} {:#x}+{} is not inside the content range of any chunk", b.id, b.addr(), b.size));
                    break;
                }
                let granted = slab::with_current(|s| s.live_grant_containing(b.addr(), b.size).is_some());
                if !granted {
                    msg = Some(format!("block #{} {:#x}+{} is not inside memory currently granted by the base allocator", b.id, b.addr(), b.size));
                    break;
                }
                // a live block never lies in memory the arena considers free: not in the free part of its chunk and
                // not in a chunk after the current one (that memory will be handed out again)
                if let (Some(cur_idx), Some(k)) = (st.current_index(), st.fwd.iter().position(|c| b.addr() >= c.content_start && b.addr() + b.size <= c.content_end)) {
                    if k > cur_idx {
                        msg = Some(format!("live block #{} {:#x}+{} lies in chunk {k}, after the current chunk {cur_idx}: the arena treats that chunk as unused", b.id, b.addr(), b.size));
                        break;
                    }
                    let c = &st.fwd[k];
                    let ok = if cfg.up { b.addr() + b.size <= c.pos } else { b.addr() >= c.pos };
                    if !ok {
                        msg = Some(format!("live block #{} {:#x}+{} reaches into the free part of its chunk (bump position {:#x}, bumping {})", b.id, b.addr(), b.size, c.pos, if cfg.up { "upwards" } else { "downwards" }));
                        break;
                    }
                }
                for o in &blocks[i + 1..] {
                    if o.size > 0 && b.addr() < o.addr() + o.size && o.addr() < b.addr() + b.size {
                        msg = Some(format!(
                            "live blocks #{} ({:#x}+{}) and #{} ({:#x}+{}) overlap",
                            b.id,
                            b.addr(),
                            b.size,
                            o.id,
                            o.addr(),
                            o.size
                        ));
                        break 'outer;
                    }
                }
            }
            if let Some(m) = msg {
                viol!(self, grp::CONTAIN, "{m}");
            }
        }
        if self.on(grp::CONTENT) {
            let mut msg = None;
            for b in &self.model.blocks {
                if let Some(k) = unsafe { verify_prefix(b.ptr, b.id, b.size) } {
                    msg = Some(format!("byte {k} of live block #{} ({:#x}+{}) was changed by an operation on something else", b.id, b.addr(), b.size));
                    break;
                }
            }
            if let Some(m) = msg {
                viol!(self, grp::CONTENT, "{m}");
            }
        }
    }

    fn check_stats(&mut self, arena: &dyn DynArena, cfg: &Cfg) {
        let st = self.st.clone();
        let g = grp::STATS;
        // position
        if let Some(c) = st.current {
            if c.pos < c.content_start || c.pos > c.content_end {
                viol!(self, g, "bump position {:#x} outside content range {:#x}..{:#x}", c.pos, c.content_start, c.content_end);
            }
            if c.pos % cfg.min_align != 0 {
                viol!(self, g | grp::ALIGN, "bump position {:#x} is not a multiple of the minimum alignment {}", c.pos, cfg.min_align);
            }
        }
        if !self.on(grp::STATS) {
            return;
        }
        let grants: Vec<slab::Grant> = slab::with_current(|s| s.grants.iter().filter(|g| !g.released).copied().collect());
        for (i, c) in st.fwd.iter().enumerate() {
            if c.size % 16 != 0 || c.size == 0 {
                viol!(self, g, "chunk {i} has size {}", c.size);
            }
            if c.chunk_end.wrapping_sub(c.chunk_start) != c.size {
                viol!(self, g, "chunk {i}: chunk_end - chunk_start != size");
            }
            match grants.iter().find(|gr| gr.addr == c.chunk_start) {
                None => viol!(self, g, "chunk {i} at {:#x} does not start at a block granted by the base allocator", c.chunk_start),
                Some(gr) => {
                    if c.chunk_start + c.size > gr.addr + gr.granted {
                        viol!(self, g, "chunk {i} of {} bytes exceeds its grant of {} bytes", c.size, gr.granted);
                    }
                    if c.size < gr.req_size {
                        viol!(self, g, "chunk {i} of {} bytes is smaller than the {} bytes requested for it", c.size, gr.req_size);
                    }
                }
            }
            let (cs, ce) = if cfg.up { (c.chunk_start + cfg.header_size, c.chunk_end) } else { (c.chunk_start, c.chunk_end - cfg.header_size) };
            if c.content_start != cs || c.content_end != ce {
                viol!(
                    self,
                    g,
                    "chunk {i}: content range {:#x}..{:#x} but header of {} bytes implies {:#x}..{:#x}",
                    c.content_start,
                    c.content_end,
                    cfg.header_size,
                    cs,
                    ce
                );
            }
            if c.capacity != c.content_end.wrapping_sub(c.content_start) {
                viol!(self, g, "chunk {i}: capacity {} != content range", c.capacity);
            }
            if i > 0 && st.fwd[i - 1].size >= c.size {
                viol!(self, g, "chunk {i} ({} bytes) is not larger than its predecessor ({} bytes)", c.size, st.fwd[i - 1].size);
            }
        }
        if let Some(c) = st.current {
            if c.allocated + c.remaining != c.capacity {
                viol!(self, g, "current chunk: allocated {} + remaining {} != capacity {}", c.allocated, c.remaining, c.capacity);
            }
            let expect_alloc = if cfg.up { c.pos.wrapping_sub(c.content_start) } else { c.content_end.wrapping_sub(c.pos) };
            if c.allocated != expect_alloc {
                viol!(self, g, "current chunk: allocated() {} does not match the position ({})", c.allocated, expect_alloc);
            }
        }
        let rev: Vec<ChunkSnap> = st.bwd.iter().rev().copied().collect();
        if rev != st.fwd {
            viol!(self, g, "small_to_big() and big_to_small() are not reverses of each other");
        }
        if st.count != st.fwd.len() {
            viol!(self, g, "count() {} but the chunk list has {} entries", st.count, st.fwd.len());
        }
        if st.count != 0 && st.walk_prev + 1 + st.walk_next != st.count {
            viol!(self, g, "prev/next walk from the current chunk sees {} chunks, count() {}", st.walk_prev + 1 + st.walk_next, st.count);
        }
        let owned = grants.len();
        if st.count != owned && self.model.claim_depth() == 0 {
            viol!(self, g, "count() {} but {} blocks are outstanding at the base allocator", st.count, owned);
        }
        if st.allocated + st.remaining != st.capacity || st.capacity > st.size {
            viol!(self, g, "allocated {} + remaining {} != capacity {} (size {})", st.allocated, st.remaining, st.capacity, st.size);
        }
        let sum_size: usize = st.fwd.iter().map(|c| c.size).sum();
        let sum_cap: usize = st.fwd.iter().map(|c| c.capacity).sum();
        if st.size != sum_size || st.capacity != sum_cap {
            viol!(self, g, "size()/capacity() {} / {} differ from the sums over chunks {} / {}", st.size, st.capacity, sum_size, sum_cap);
        }
        if let Some(ci) = st.current_index() {
            let before: usize = st.fwd[..ci].iter().map(|c| c.capacity).sum();
            if st.allocated != before + st.fwd[ci].allocated {
                viol!(self, g, "allocated() {} != capacity of earlier chunks {} + allocated of current {}", st.allocated, before, st.fwd[ci].allocated);
            }
        } else if st.count != 0 {
            viol!(self, g, "current chunk is not part of the chunk list");
        }
        if st.count == 0 && (st.size | st.capacity | st.allocated | st.remaining) != 0 {
            viol!(self, g, "no chunks but non-zero statistics");
        }
        // type-erased statistics: static entry point and through the handle under test
        arena.s_any_stats(&mut self.st2);
        if self.st2 != st {
            let d = diff_stats(&st, &self.st2);
            viol!(self, g, "any_stats() differs from stats(): {d}");
        }
        if self.opts.h != Handle::Direct {
            Via::shared(arena, self.opts.h).any_stats(&mut self.st2);
            if self.st2 != st {
                let d = diff_stats(&st, &self.st2);
                viol!(self, g, "any_stats() through {} differs from stats(): {d}", self.opts.h.name());
            }
        }
    }

    /// Overwrites every content byte that the model does not attribute to a live block with `SCRUB`; when `verify`
    /// is set, first checks that dead bytes that were dead before this step still carry `SCRUB`.
    pub fn scrub(&mut self, arena: &dyn DynArena, verify: bool) {
        let _ = arena;
        let mut live: Vec<(usize, usize)> = self.model.blocks.iter().filter(|b| b.size > 0).map(|b| (b.addr(), b.addr() + b.size)).collect();
        live.sort_unstable();
        let mut bad: Option<(usize, usize)> = None;
        for (ci, c) in self.st.fwd.iter().enumerate() {
            let end = c.content_end;
            let mut p = c.content_start;
            let first = live.partition_point(|r| r.1 <= p);
            let mut li = first;
            loop {
                let (gap_end, next_p) = if li < live.len() && live[li].0 < end { (live[li].0.max(p), live[li].1) } else { (end, end) };
                if gap_end > p {
                    // [p, gap_end) is dead
                    unsafe {
                        let ptr = p as *mut u8;
                        let n = gap_end - p;
                        if verify && bad.is_none() {
                            for k in 0..n {
                                if *ptr.add(k) != SCRUB {
                                    let a = p + k;
                                    if !self.exempt.iter().any(|r| a >= r.0 && a < r.1) {
                                        bad = Some((ci, a));
                                        break;
                                    }
                                }
                            }
                        }
                        std::ptr::write_bytes(ptr, SCRUB, n);
                    }
                }
                p = next_p.max(p);
                li += 1;
                if p >= end {
                    break;
                }
            }
        }
        if let Some((ci, a)) = bad {
            viol!(self, grp::CONTENT, "a byte outside every live block was written (chunk {ci}, address {a:#x})");
        }
    }

    /// canonical state hash (addresses relative to chunk starts)
    pub fn canon_hash(&self) -> u64 {
        use std::hash::{Hash, Hasher};
        let mut hs = std::collections::hash_map::DefaultHasher::new();
        let st = &self.st;
        st.fwd.len().hash(&mut hs);
        for c in &st.fwd {
            c.size.hash(&mut hs);
            (c.chunk_start % 4096).hash(&mut hs);
            (c.pos.wrapping_sub(c.chunk_start)).hash(&mut hs);
        }
        st.current_index().hash(&mut hs);
        for b in &self.model.blocks {
            let ci = st.fwd.iter().position(|c| b.addr() >= c.chunk_start && b.addr() <= c.chunk_end);
            ci.hash(&mut hs);
            if let Some(ci) = ci {
                (b.addr() - st.fwd[ci].chunk_start).hash(&mut hs);
            }
            b.size.hash(&mut hs);
            b.align.hash(&mut hs);
            b.depth.hash(&mut hs);
        }
        self.model.frames.len().hash(&mut hs);
        for f in &self.model.frames {
            std::mem::discriminant(&f.region).hash(&mut hs);
            f.entry.allocated.hash(&mut hs);
        }
        hs.finish()
    }
}

pub fn diff_stats(a: &StatsSnap, b: &StatsSnap) -> String {
    let mut v = Vec::new();
    macro_rules! f {
        ($n:ident) => {
            if a.$n != b.$n {
                v.push(format!("{} {:?} vs {:?}", stringify!($n), a.$n, b.$n));
            }
        };
    }
    f!(count);
    f!(size);
    f!(capacity);
    f!(allocated);
    f!(remaining);
    if a.current != b.current {
        v.push(format!("current_chunk {:x?} vs {:x?}", a.current, b.current));
    }
    if a.fwd != b.fwd {
        v.push("chunk list".to_string());
    }
    if a.bwd != b.bwd {
        v.push("reverse chunk list".to_string());
    }
    v.join("; ")
}
