//! Crash reporting: the history in flight is printed by the panic hook (for non-unwinding panics, i.e. the
//! standard library's UB precondition checks) and by a signal handler (SIGSEGV/SIGBUS/SIGILL/SIGABRT).
//! The orchestrator replays an `INFLIGHT` record twice in fresh processes before it becomes a verdict.
//!
//! A library call that never returns (an endless loop under a defect) is handled the same way: a watchdog thread
//! notices that a worker has been inside the same case for `VERIF_STALL_SECS` (default 120) seconds and signals that
//! thread; its handler prints the case in flight with `reason=stalled`.

use std::cell::{Cell, RefCell};
use std::sync::atomic::{AtomicBool, AtomicU64, Ordering};
use std::sync::{Arc, Mutex};

struct Slot {
    tid: libc::pthread_t,
    /// bumped whenever the case in flight on this thread changes
    epoch: AtomicU64,
    in_subject: AtomicBool,
}

static SLOTS: Mutex<Vec<Arc<Slot>>> = Mutex::new(Vec::new());
static STALL_TARGET: AtomicU64 = AtomicU64::new(0);

thread_local! {
    static SLOT: std::cell::OnceCell<Arc<Slot>> = const { std::cell::OnceCell::new() };
}

fn progress(in_subject: bool) {
    SLOT.with(|s| {
        let slot = s.get_or_init(|| {
            let slot = Arc::new(Slot { tid: unsafe { libc::pthread_self() }, epoch: AtomicU64::new(0), in_subject: AtomicBool::new(false) });
            SLOTS.lock().unwrap_or_else(|e| e.into_inner()).push(slot.clone());
            slot
        });
        slot.epoch.fetch_add(1, Ordering::Relaxed);
        slot.in_subject.store(in_subject, Ordering::Relaxed);
    });
}

fn start_watchdog() {
    let stall: u64 = std::env::var("VERIF_STALL_SECS").ok().and_then(|s| s.parse().ok()).unwrap_or(120);
    if stall == 0 {
        return;
    }
    std::thread::spawn(move || {
        // (epoch seen, seconds it has not changed) per slot
        let mut seen: Vec<(u64, u64)> = Vec::new();
        let tick = 5u64.min(stall.max(1));
        loop {
            std::thread::sleep(std::time::Duration::from_secs(tick));
            let slots: Vec<Arc<Slot>> = SLOTS.lock().unwrap_or_else(|e| e.into_inner()).clone();
            seen.resize(slots.len(), (u64::MAX, 0));
            for (i, s) in slots.iter().enumerate() {
                let e = s.epoch.load(Ordering::Relaxed);
                if e != seen[i].0 || !s.in_subject.load(Ordering::Relaxed) {
                    seen[i] = (e, 0);
                    continue;
                }
                seen[i].1 += tick;
                if seen[i].1 >= stall {
                    STALL_TARGET.store(s.tid as u64, Ordering::SeqCst);
                    unsafe { libc::pthread_kill(s.tid, libc::SIGABRT) };
                    // the handler of that thread reports and ends the process
                    std::thread::sleep(std::time::Duration::from_secs(30));
                    std::process::exit(3);
                }
            }
        }
    });
}

thread_local! {
    static INFLIGHT: RefCell<Option<String>> = const { RefCell::new(None) };
    static INFLIGHT_FN: Cell<Option<(*const (), fn(*const ()) -> String)>> = const { Cell::new(None) };
    static IN_SUBJECT: Cell<bool> = const { Cell::new(false) };
    pub static LAST_PANIC: RefCell<Option<String>> = const { RefCell::new(None) };
}

/// Registers a lazily formatted description of the case in flight on this thread.
pub fn set_inflight_lazy(data: *const (), fmt: fn(*const ()) -> String) {
    INFLIGHT_FN.with(|c| c.set(Some((data, fmt))));
    IN_SUBJECT.with(|c| c.set(true));
    progress(true);
}

/// Registers the description of the case in flight on this thread (eager form).
pub fn set_inflight(desc: String) {
    INFLIGHT.with(|c| *c.borrow_mut() = Some(desc));
    IN_SUBJECT.with(|c| c.set(true));
    progress(true);
}

pub fn clear_inflight() {
    INFLIGHT.with(|c| *c.borrow_mut() = None);
    INFLIGHT_FN.with(|c| c.set(None));
    IN_SUBJECT.with(|c| c.set(false));
    progress(false);
}

fn describe() -> Option<String> {
    if let Some((d, f)) = INFLIGHT_FN.with(|c| c.get()) {
        return Some(f(d));
    }
    INFLIGHT.with(|c| c.borrow().clone())
}

/// Runs `f` with `case` registered as the case in flight; `fmt` receives the pointer to `case` and must return
/// the text `replaycase=<<...>>` (the replay `--case` argument) — only evaluated if the process crashes.
pub fn with_inflight<T, R>(case: &T, fmt: fn(*const ()) -> String, f: impl FnOnce() -> R) -> R {
    set_inflight_lazy(case as *const T as *const (), fmt);
    let r = f();
    clear_inflight();
    r
}

pub fn take_last_panic() -> Option<String> {
    LAST_PANIC.with(|c| c.borrow_mut().take())
}

pub fn install() {
    std::panic::set_hook(Box::new(|info| {
        let msg = if let Some(s) = info.payload().downcast_ref::<&str>() {
            s.to_string()
        } else if let Some(s) = info.payload().downcast_ref::<String>() {
            s.clone()
        } else {
            "<non-string panic payload>".to_string()
        };
        let loc = info.location().map(|l| format!("{}:{}", l.file(), l.line())).unwrap_or_default();
        let full = format!("{msg} @ {loc}");
        LAST_PANIC.with(|c| *c.borrow_mut() = Some(full));
    }));
    unsafe {
        // alternate stack for the signal handler
        let ss_size = 1 << 16;
        let stack = libc::mmap(std::ptr::null_mut(), ss_size, libc::PROT_READ | libc::PROT_WRITE, libc::MAP_PRIVATE | libc::MAP_ANONYMOUS, -1, 0);
        let ss = libc::stack_t { ss_sp: stack, ss_flags: 0, ss_size };
        libc::sigaltstack(&ss, std::ptr::null_mut());
        for sig in [libc::SIGSEGV, libc::SIGBUS, libc::SIGILL, libc::SIGABRT, libc::SIGFPE] {
            let mut sa: libc::sigaction = std::mem::zeroed();
            sa.sa_sigaction = handler as *const () as usize;
            sa.sa_flags = libc::SA_SIGINFO | libc::SA_ONSTACK;
            libc::sigaction(sig, &sa, std::ptr::null_mut());
        }
    }
    start_watchdog();
}

/// Worker threads need their own alternate signal stack.
pub fn install_thread_altstack() {
    unsafe {
        let ss_size = 1 << 16;
        let stack = libc::mmap(std::ptr::null_mut(), ss_size, libc::PROT_READ | libc::PROT_WRITE, libc::MAP_PRIVATE | libc::MAP_ANONYMOUS, -1, 0);
        let ss = libc::stack_t { ss_sp: stack, ss_flags: 0, ss_size };
        libc::sigaltstack(&ss, std::ptr::null_mut());
    }
}

static CRASHING: std::sync::atomic::AtomicBool = std::sync::atomic::AtomicBool::new(false);

extern "C" fn handler(sig: libc::c_int, _info: *mut libc::siginfo_t, _ctx: *mut libc::c_void) {
    // several workers usually hit the same defect at the same time: only the first one reports, the others wait
    if CRASHING.swap(true, std::sync::atomic::Ordering::SeqCst) {
        loop {
            unsafe { libc::pause() };
        }
    }
    // best effort: formatting is not async-signal-safe, but the process is lost anyway
    let d = describe().unwrap_or_else(|| "<none>".into());
    let insub = IN_SUBJECT.with(|c| c.get());
    let msg = LAST_PANIC.with(|c| c.try_borrow().ok().and_then(|m| m.clone())).unwrap_or_default();
    let stalled = STALL_TARGET.load(Ordering::SeqCst) == unsafe { libc::pthread_self() } as u64;
    let (reason, msg) = if stalled { ("stalled".to_string(), "the call did not return within the stall limit (endless loop)".to_string()) } else { (format!("signal{sig}"), msg) };
    let line = format!("\nINFLIGHT in_subject={} reason={} msg={:?} case={}\n", insub, reason, msg, d);
    unsafe {
        libc::write(1, line.as_ptr() as *const libc::c_void, line.len());
        libc::signal(sig, libc::SIG_DFL);
        libc::raise(sig);
    }
}
