#![allow(clippy::all)]
pub mod crash;
pub mod exec;
pub mod explore;
pub mod facade;
pub mod json;
pub mod mutcoll;
pub mod ops;
pub mod runner;
pub mod slab;

/// Instantiates one root configuration (all five minimum alignments).
#[macro_export]
macro_rules! cfg_rows {
    (@unalloc false, $A:ty, $S:ty) => { Some((|| ::bump_scope::Bump::<$A, $S>::unallocated()) as fn() -> ::bump_scope::Bump<$A, $S>) };
    (@unalloc true, $A:ty, $S:ty) => { None };
    (@one $v:ident, $A:ty, $ma:literal, $up:literal, $ga:tt, $de:literal, $sh:literal, $mcs:literal) => {{
        type S = ::bump_scope::settings::BumpSettings<$ma, $up, $ga, true, $de, $sh, $mcs>;
        fn root(ctor: $crate::runner::Ctor, rt: bool, f: &mut dyn FnMut(&mut dyn $crate::facade::DynArena)) -> $crate::runner::RootResult {
            $crate::runner::with_root_impl::<$A, S>(ctor, $crate::cfg_rows!(@unalloc $ga, $A, S), rt, f)
        }
        $v.push($crate::runner::ConfigEntry {
            cfg: $crate::facade::Cfg {
                up: $up,
                min_align: $ma,
                ga: $ga,
                claimable: true,
                deallocates: $de,
                shrinks: $sh,
                min_chunk: $mcs,
                header_size: $crate::facade::header_size::<$A>(),
                header_align: ::core::mem::align_of::<$A>().max(16),
                alloc: <$A as $crate::slab::SlabKind>::NAME,
            },
            with_root: root,
        });
    }};
    ($v:ident; $( ($A:ty, $up:literal, $ga:tt, $de:literal, $sh:literal, $mcs:literal) ),* $(,)?) => {
        $(
            $crate::cfg_rows!(@one $v, $A, 1, $up, $ga, $de, $sh, $mcs);
            $crate::cfg_rows!(@one $v, $A, 2, $up, $ga, $de, $sh, $mcs);
            $crate::cfg_rows!(@one $v, $A, 4, $up, $ga, $de, $sh, $mcs);
            $crate::cfg_rows!(@one $v, $A, 8, $up, $ga, $de, $sh, $mcs);
            $crate::cfg_rows!(@one $v, $A, 16, $up, $ga, $de, $sh, $mcs);
        )*
    };
}
