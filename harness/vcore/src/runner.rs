//! Runs one history on one configuration (fresh arena, fresh substrate) and evaluates the end-of-life oracles.

use crate::crash;
use crate::exec::*;
use crate::facade::*;
use crate::ops::*;
use crate::slab::{self, SlabCfg, SlabKind};
use bump_scope::{BaseAllocator, Bump, settings::BumpAllocatorSettings};
use std::alloc::Layout;
use std::panic::{AssertUnwindSafe, catch_unwind};

#[derive(Clone, Copy, Debug, PartialEq, Eq, Hash)]
pub enum Ctor {
    TryNew,
    New,
    Unallocated,
    TryWithSize(usize),
    TryWithCapacity(usize, usize),
}

impl Ctor {
    pub fn name(&self) -> String {
        match self {
            Ctor::TryNew => "try_new".into(),
            Ctor::New => "new".into(),
            Ctor::Unallocated => "unallocated".into(),
            Ctor::TryWithSize(n) => format!("try_with_size.{n}"),
            Ctor::TryWithCapacity(s, a) => format!("try_with_capacity.{s}.{a}"),
        }
    }
    pub fn parse(s: &str) -> Option<Ctor> {
        let mut it = s.split('.');
        Some(match it.next()? {
            "try_new" => Ctor::TryNew,
            "new" => Ctor::New,
            "unallocated" => Ctor::Unallocated,
            "try_with_size" => Ctor::TryWithSize(it.next()?.parse().ok()?),
            "try_with_capacity" => Ctor::TryWithCapacity(it.next()?.parse().ok()?, it.next()?.parse().ok()?),
            _ => return None,
        })
    }
}

#[derive(Clone, Copy, Debug, PartialEq, Eq)]
pub enum RootResult {
    Ran,
    CtorFailed,
    CtorUnavailable,
}

pub type RootFn = fn(Ctor, bool, &mut dyn FnMut(&mut dyn DynArena)) -> RootResult;

#[derive(Clone, Copy)]
pub struct ConfigEntry {
    pub cfg: Cfg,
    pub with_root: RootFn,
}

pub fn with_root_impl<A, S>(ctor: Ctor, unalloc: Option<fn() -> Bump<A, S>>, roundtrip: bool, f: &mut dyn FnMut(&mut dyn DynArena)) -> RootResult
where
    A: BaseAllocator<S::GuaranteedAllocated> + SlabKind,
    S: BumpAllocatorSettings + 'static,
{
    let bump: Result<Bump<A, S>, ()> = match ctor {
        Ctor::TryNew => Bump::try_new_in(A::default()).map_err(|_| ()),
        Ctor::New => Ok(Bump::new_in(A::default())),
        Ctor::Unallocated => match unalloc {
            Some(mk) => Ok(mk()),
            None => return RootResult::CtorUnavailable,
        },
        Ctor::TryWithSize(n) => Bump::try_with_size_in(n, A::default()).map_err(|_| ()),
        Ctor::TryWithCapacity(s, a) => Bump::try_with_capacity_in(Layout::from_size_align(s, a).unwrap(), A::default()).map_err(|_| ()),
    };
    let Ok(mut bump) = bump else { return RootResult::CtorFailed };
    f(&mut bump);
    if roundtrip {
        let raw = bump.into_raw();
        let again: Bump<A, S> = unsafe { Bump::from_raw(raw) };
        drop(again);
    } else {
        drop(bump);
    }
    RootResult::Ran
}

#[derive(Clone, Copy, Debug)]
pub struct RunParams {
    pub ctor: Ctor,
    pub h: Handle,
    pub slab: SlabCfg,
    pub roundtrip: bool,
}

impl RunParams {
    pub fn describe(&self) -> String {
        format!(
            "ctor={} h={} phase={} overgrant={} fail={:#x} roundtrip={}",
            self.ctor.name(),
            self.h.name(),
            self.slab.phase,
            self.slab.overgrant,
            self.slab.fail_mask,
            self.roundtrip as u8
        )
    }
}

#[derive(Clone, Debug, Default)]
pub struct Outcome {
    pub viol: Option<(u32, usize, String)>,
    pub disabled_at: Option<usize>,
    pub cover: Cover,
    pub calls: u32,
    pub refused: u32,
    pub hash: u64,
    pub ctor_failed: bool,
    pub ctor_unavailable: bool,
    pub trace: Option<Vec<[u64; 5]>>,
}

fn requests_memory(op: &Op) -> bool {
    match op {
        Op::Alloc { size, .. } => *size > 0,
        Op::Typed { op, .. } => !matches!(op, TypedOp::SliceU8(0) | TypedOp::SliceU64(0) | TypedOp::SliceArr3(0) | TypedOp::SliceForU64(0) | TypedOp::AllocSliceCopyU8(0) | TypedOp::AllocUninitSliceU8(0) | TypedOp::Layout(0, _) | TypedOp::SliceOverflow | TypedOp::AllocUnit),
        // by_value needs an allocated arena and creates the first chunk itself
        Op::Enter(Region::ByValue) => true,
        Op::Nop | Op::Enter(_) | Op::Exit | Op::ExitUnwind | Op::Reset | Op::ResetToStart | Op::Dealloc { .. } | Op::DeallocTyped { .. } | Op::Orig(_) => false,
        Op::Reserve { n, .. } => *n > 0,
        Op::VecBuf { act, .. } => !matches!(act, VecAct::PopShrinkFit | VecAct::PopIntoBoxed | VecAct::Drop),
        _ => true,
    }
}

struct InflightCtx<'a> {
    cfg: &'a Cfg,
    params: &'a RunParams,
    ops: &'a [Op],
}

fn fmt_inflight(p: *const ()) -> String {
    let c = unsafe { &*(p as *const InflightCtx<'_>) };
    format!("cfg={} {} history=[{}]", c.cfg.name(), c.params.describe(), history_to_string(c.ops))
}

pub fn run_history(entry: &ConfigEntry, ops: &[Op], params: &RunParams, groups: u32, last_only: bool, probes: bool) -> Outcome {
    run_history_ex(entry, ops, params, groups, last_only, probes, false)
}

pub fn run_history_ex(entry: &ConfigEntry, ops: &[Op], params: &RunParams, groups: u32, last_only: bool, probes: bool, want_trace: bool) -> Outcome {
    slab::select(0);
    slab::reset(0, params.slab);
    let _ = crash::take_last_panic();
    let ctor_capacity = if let Ctor::TryWithCapacity(s, a) = params.ctor { Some((s, a)) } else { None };
    let opts = RunOpts { groups, h: params.h, last_only, raw_roundtrip: params.roundtrip, probes, ctor_capacity };
    let mut exec = Exec::new(ops, &opts);
    if want_trace {
        exec.trace = Some(Vec::with_capacity(ops.len()));
    }
    let ctx = InflightCtx { cfg: &entry.cfg, params, ops };
    crash::set_inflight_lazy(&ctx as *const _ as *const (), fmt_inflight);
    let mut out = Outcome::default();
    let r = catch_unwind(AssertUnwindSafe(|| {
        (entry.with_root)(params.ctor, params.roundtrip, &mut |arena| {
            // state right after construction is also a state the oracles apply to
            if ops.is_empty() {
                exec.after_step(arena, Op::Nop);
            }
            let _ = exec.run(arena, None);
            arena.d_stats(&mut exec.st);
            exec.state_hash = exec.canon_hash();
        })
    }));
    crash::clear_inflight();
    out.cover = exec.cover;
    out.disabled_at = exec.disabled_at;
    out.hash = exec.state_hash;
    out.trace = exec.trace.take();
    if let Some(v) = exec.viol.take() {
        out.viol = Some((v.group, v.step, v.msg));
    }
    let (calls, refused) = slab::with_slab(0, |s| (s.calls, s.refused));
    out.calls = calls;
    out.refused = refused;
    match r {
        Err(p) => {
            let msg = crash::take_last_panic().unwrap_or_else(|| "<unknown panic>".into());
            let _ = p;
            if out.viol.is_none() {
                // With an injected allocation failure the panicking API is allowed (required) to panic; the
                // alphabets used with fault plans only contain `try_` forms, so any panic is unexpected.
                out.viol = Some((grp::ALL, exec.pc.saturating_sub(1), format!("unexpected panic inside the library on a contract-respecting history: {msg}")));
            }
            return out;
        }
        Ok(RootResult::CtorFailed) => {
            out.ctor_failed = true;
            if refused == 0 && out.viol.is_none() {
                out.viol = Some((grp::FAILURE, 0, format!("constructor {} failed although the base allocator never refused a request", params.ctor.name())));
            }
        }
        Ok(RootResult::CtorUnavailable) => {
            out.ctor_unavailable = true;
            return out;
        }
        Ok(RootResult::Ran) => {}
    }
    if out.viol.is_some() || out.disabled_at.is_some() {
        return out;
    }
    // ---- end of life: everything was returned exactly once (C05)
    if groups & (grp::RELEASE | grp::CONTENT) != 0 {
        let (err, guards, outstanding) = slab::with_slab(0, |s| (s.errors.first().cloned(), s.check_guards(), s.outstanding()));
        if let Some(e) = err {
            out.viol = Some((grp::RELEASE, ops.len(), format!("base allocator protocol (at drop): {e}")));
        } else if let Err(e) = guards {
            out.viol = Some((grp::RELEASE | grp::CONTENT, ops.len(), format!("memory outside the granted blocks (at drop): {e}")));
        } else if outstanding != 0 && groups & grp::RELEASE != 0 {
            out.viol = Some((grp::RELEASE, ops.len(), format!("{outstanding} block(s) were never returned to the base allocator")));
        } else if groups & grp::RELEASE != 0 && params.ctor == Ctor::Unallocated && calls != 0 && !ops.iter().any(requests_memory) {
            out.viol = Some((grp::RELEASE, ops.len(), format!("an unallocated arena that never needed memory made {calls} base-allocator call(s)")));
        }
    }
    out
}


/// C03: "a fixed workload run in a reset() loop stops requesting chunks after finitely many rounds".
/// Runs `ops; reset()` `rounds` times on one arena; returns a violation message if one of the last two rounds
/// reached the base allocator or if reset() left more than one chunk.
pub fn run_reset_loop(entry: &ConfigEntry, ops: &[Op], params: &RunParams, rounds: usize) -> Option<String> {
    slab::select(0);
    slab::reset(0, params.slab);
    let _ = crash::take_last_panic();
    let opts = RunOpts { groups: 0, h: params.h, last_only: true, raw_roundtrip: false, probes: false, ctor_capacity: None };
    let ctx = InflightCtx { cfg: &entry.cfg, params, ops };
    crash::set_inflight_lazy(&ctx as *const _ as *const (), fmt_inflight);
    let mut msg: Option<String> = None;
    let r = catch_unwind(AssertUnwindSafe(|| {
        (entry.with_root)(params.ctor, false, &mut |arena| {
            let mut calls_after_round = Vec::new();
            // a *fixed* workload: state-relative arguments (`remaining + 1`) keep the concrete values of round 0
            let mut rem_log = Vec::new();
            for round in 0..rounds {
                let mut exec = Exec::new(ops, &opts);
                if round > 0 {
                    exec.rem_log = rem_log.clone();
                    exec.replaying = true;
                }
                let _ = exec.run(arena, None);
                if round == 0 {
                    rem_log = exec.rem_log.clone();
                }
                if exec.disabled_at.is_some() {
                    return;
                }
                if !arena.d_reset() {
                    return;
                }
                arena.d_stats(&mut exec.st);
                if exec.st.count > 1 && msg.is_none() {
                    msg = Some(format!("after round {round} reset() left {} chunks", exec.st.count));
                }
                calls_after_round.push(slab::with_slab(0, |s| s.calls));
            }
            let n = calls_after_round.len();
            if n >= 3 && calls_after_round[n - 1] != calls_after_round[n - 3] && msg.is_none() {
                msg = Some(format!(
                    "the workload still requested chunks in the last two of {rounds} `workload; reset()` rounds (base-allocator calls after each round: {:?})",
                    calls_after_round
                ));
            }
        })
    }));
    crash::clear_inflight();
    if r.is_err() && msg.is_none() {
        msg = Some(format!("panic in the reset loop: {}", crash::take_last_panic().unwrap_or_default()));
    }
    msg
}
