//! Operation alphabet of the arena explorer, with a textual form used in evidence samples and replay files.

use crate::facade::{Region, TypedOp, VecAct};
use crate::mutcoll::{MutEnd, MutExtra, MutKind, MutSpec};
use std::fmt;

#[derive(Clone, Copy, Debug, PartialEq, Eq, Hash)]
pub enum Sel {
    Newest,
    Second,
    Oldest,
}

#[derive(Clone, Copy, Debug, PartialEq, Eq, Hash)]
pub enum ShrinkTo {
    Zero,
    Half,
    MinusOne,
    Same,
}

#[derive(Clone, Copy, Debug, PartialEq, Eq, Hash)]
pub enum Commit {
    Full,
    Half,
    Zero,
}

/// Operations applied to the *claimed original* handle while a claim guard is alive (C14).
#[derive(Clone, Copy, Debug, PartialEq, Eq, Hash)]
pub enum OrigOp {
    Allocate(u32, u32),
    TryTyped,
    PanickingTyped,
    ZstTyped,
    GrowOld,
    ShrinkOld,
    DeallocOld,
    TryReserve(u32),
    PanickingReserve(u32),
    Prepare(u32),
    Stats,
    ClaimAgain,
}

#[derive(Clone, Copy, Debug, PartialEq, Eq, Hash)]
pub enum Op {
    /// `allocate` / `allocate_zeroed`
    Alloc { size: u32, align: u32, zeroed: bool },
    /// `allocate(remaining-in-current-chunk + extra, align)` — forces the slow path
    AllocRem { extra: u32, align: u32 },
    /// `grow` / `grow_zeroed`: new size = old + delta, align 0 = keep
    Grow { sel: Sel, delta: u32, align: u32, zeroed: bool },
    /// grow to `remaining + old + extra` (cannot be satisfied in the current chunk)
    GrowRem { sel: Sel, extra: u32 },
    Shrink { sel: Sel, to: ShrinkTo, align: u32 },
    Dealloc { sel: Sel },
    /// `BumpAllocatorTyped::dealloc(BumpBox<[u8]> | BumpBox<[u64]>)` (blocks with align 1 / align 8 only)
    DeallocTyped { sel: Sel },
    /// view the selected block (align 1 / align 8 only) as the buffer of a full `BumpVec<u8 | u64>` and let the vector
    /// reallocate, shrink, convert or drop it: "a collection buffer" is a live block like any other
    VecBuf { sel: Sel, act: VecAct, try_: bool },
    /// split the selected block in two live blocks (element-aligned boundary)
    Split { sel: Sel },
    Typed { op: TypedOp, try_: bool },
    /// typed `shrink_slice` on the selected block (must be a u8 / u64 typed slice block)
    ShrinkSlice { sel: Sel, to: ShrinkTo },
    /// `prepare_allocation(_rev)` immediately followed by `allocate_prepared(_rev)`
    Prep { size: u32, align: u32, commit: Commit, rev: bool },
    /// typed `prepare_slice_allocation(_rev)::<T>` + `allocate_prepared_slice(_rev)`; elem ∈ {1,3,8,32}
    PrepSlice { elem: u8, min_cap: u32, commit: Commit, rev: bool, try_: bool },
    Reserve { n: u32, try_: bool },
    /// `reserve(remaining + extra)`
    ReserveRem { extra: u32 },
    Enter(Region),
    Exit,
    ExitUnwind,
    Reset,
    ResetToStart,
    /// `alloc_try_with(_mut)`; `inner` = the closure of the shared form allocates (size, align) first
    TryWith { mutable: bool, ok: bool, inner: Option<(u32, u32)>, try_: bool },
    Orig(OrigOp),
    /// observe only (all oracles still run)
    Nop,
    /// requests that cannot be satisfied: `allocate(isize::MAX rounded down to align)`; must be reported as an error
    AllocHuge { align: u32 },
    /// `grow(sel, isize::MAX-ish)`
    GrowHuge { sel: Sel },
    /// `try_reserve(usize::MAX)` / `try_reserve(isize::MAX)`
    ReserveHuge { max: bool },
    /// C15: an exclusive-borrow collection or `*_mut` helper, from creation to its end
    MutColl(MutSpec),
}

fn mutspec_str(m: &MutSpec) -> String {
    let kind = match m.kind {
        MutKind::Vec => "vec",
        MutKind::VecRev => "vecrev",
        MutKind::Str => "str",
        MutKind::IterMut => "itermut",
        MutKind::IterMutRev => "itermutrev",
        MutKind::FmtMut => "fmtmut",
        MutKind::CstrFmtMut => "cstrfmtmut",
        MutKind::TryWithMut => "trywithmut",
        MutKind::VecDyn => "vecdyn",
        MutKind::VecRevDyn => "vecrevdyn",
    };
    let extra = match m.extra {
        MutExtra::None => "none".to_string(),
        MutExtra::Reserve(n) => format!("reserve{n}"),
        MutExtra::ReserveExact(n) => format!("rsvexact{n}"),
        MutExtra::WithinCopy => "withincopy".to_string(),
        MutExtra::ExtendUnder(n) => format!("extendunder{n}"),
        MutExtra::ExtendOver(n) => format!("extendover{n}"),
    };
    let end = match m.end {
        MutEnd::Drop => "drop",
        MutEnd::Unwind => "unwind",
        MutEnd::Finalise => "finalise",
        MutEnd::FinaliseBoxed => "boxed",
        MutEnd::FinaliseCstr => "cstr",
    };
    format!("{kind}.{}.{}.{}.{extra}.{end}", m.elem, m.cap, m.pushes)
}

fn mutspec_parse(s: &str) -> Option<MutSpec> {
    let p: Vec<&str> = s.split('.').collect();
    if p.len() != 6 {
        return None;
    }
    let kind = match p[0] {
        "vec" => MutKind::Vec,
        "vecrev" => MutKind::VecRev,
        "str" => MutKind::Str,
        "itermut" => MutKind::IterMut,
        "itermutrev" => MutKind::IterMutRev,
        "fmtmut" => MutKind::FmtMut,
        "cstrfmtmut" => MutKind::CstrFmtMut,
        "trywithmut" => MutKind::TryWithMut,
        "vecdyn" => MutKind::VecDyn,
        "vecrevdyn" => MutKind::VecRevDyn,
        _ => return None,
    };
    let extra = if p[4] == "none" {
        MutExtra::None
    } else if p[4] == "withincopy" {
        MutExtra::WithinCopy
    } else if let Some(n) = p[4].strip_prefix("rsvexact") {
        MutExtra::ReserveExact(n.parse().ok()?)
    } else if let Some(n) = p[4].strip_prefix("reserve") {
        MutExtra::Reserve(n.parse().ok()?)
    } else if let Some(n) = p[4].strip_prefix("extendunder") {
        MutExtra::ExtendUnder(n.parse().ok()?)
    } else if let Some(n) = p[4].strip_prefix("extendover") {
        MutExtra::ExtendOver(n.parse().ok()?)
    } else {
        return None;
    };
    let end = match p[5] {
        "drop" => MutEnd::Drop,
        "unwind" => MutEnd::Unwind,
        "finalise" => MutEnd::Finalise,
        "boxed" => MutEnd::FinaliseBoxed,
        "cstr" => MutEnd::FinaliseCstr,
        _ => return None,
    };
    Some(MutSpec { kind, elem: p[1].parse().ok()?, cap: p[2].parse().ok()?, pushes: p[3].parse().ok()?, extra, end })
}

impl fmt::Display for Sel {
    fn fmt(&self, f: &mut fmt::Formatter<'_>) -> fmt::Result {
        f.write_str(match self {
            Sel::Newest => "n",
            Sel::Second => "s",
            Sel::Oldest => "o",
        })
    }
}
impl Sel {
    fn parse(s: &str) -> Option<Sel> {
        Some(match s {
            "n" => Sel::Newest,
            "s" => Sel::Second,
            "o" => Sel::Oldest,
            _ => return None,
        })
    }
}
impl fmt::Display for ShrinkTo {
    fn fmt(&self, f: &mut fmt::Formatter<'_>) -> fmt::Result {
        f.write_str(match self {
            ShrinkTo::Zero => "zero",
            ShrinkTo::Half => "half",
            ShrinkTo::MinusOne => "m1",
            ShrinkTo::Same => "same",
        })
    }
}
impl ShrinkTo {
    fn parse(s: &str) -> Option<Self> {
        Some(match s {
            "zero" => ShrinkTo::Zero,
            "half" => ShrinkTo::Half,
            "m1" => ShrinkTo::MinusOne,
            "same" => ShrinkTo::Same,
            _ => return None,
        })
    }
    pub fn apply(self, old: usize) -> usize {
        match self {
            ShrinkTo::Zero => 0,
            ShrinkTo::Half => old / 2,
            ShrinkTo::MinusOne => old.saturating_sub(1),
            ShrinkTo::Same => old,
        }
    }
}
impl fmt::Display for Commit {
    fn fmt(&self, f: &mut fmt::Formatter<'_>) -> fmt::Result {
        f.write_str(match self {
            Commit::Full => "full",
            Commit::Half => "half",
            Commit::Zero => "zero",
        })
    }
}
impl Commit {
    fn parse(s: &str) -> Option<Self> {
        Some(match s {
            "full" => Commit::Full,
            "half" => Commit::Half,
            "zero" => Commit::Zero,
            _ => return None,
        })
    }
}

fn region_str(r: Region) -> String {
    match r {
        Region::Scoped => "scoped".into(),
        Region::ScopedAligned(n) => format!("scoped_aligned{n}"),
        Region::Aligned(n) => format!("aligned{n}"),
        Region::Guard => "guard".into(),
        Region::GuardReset => "guard_reset".into(),
        Region::Checkpoint => "checkpoint".into(),
        Region::Claim => "claim".into(),
        Region::ByValue => "by_value".into(),
    }
}
fn region_parse(s: &str) -> Option<Region> {
    Some(match s {
        "scoped" => Region::Scoped,
        "guard" => Region::Guard,
        "guard_reset" => Region::GuardReset,
        "checkpoint" => Region::Checkpoint,
        "claim" => Region::Claim,
        "by_value" => Region::ByValue,
        _ => {
            if let Some(n) = s.strip_prefix("scoped_aligned") {
                Region::ScopedAligned(n.parse().ok()?)
            } else if let Some(n) = s.strip_prefix("aligned") {
                Region::Aligned(n.parse().ok()?)
            } else {
                return None;
            }
        }
    })
}

fn typed_str(t: TypedOp) -> String {
    match t {
        TypedOp::Layout(s, a) => format!("layout.{s}.{a}"),
        TypedOp::SizedU8 => "sized_u8".into(),
        TypedOp::SizedU64 => "sized_u64".into(),
        TypedOp::SizedArr3 => "sized_arr3".into(),
        TypedOp::SizedA32 => "sized_a32".into(),
        TypedOp::SliceU8(n) => format!("slice_u8.{n}"),
        TypedOp::SliceU64(n) => format!("slice_u64.{n}"),
        TypedOp::SliceArr3(n) => format!("slice_arr3.{n}"),
        TypedOp::SliceForU64(n) => format!("slice_for_u64.{n}"),
        TypedOp::AllocU64 => "alloc_u64".into(),
        TypedOp::AllocSliceCopyU8(n) => format!("alloc_slice_copy_u8.{n}"),
        TypedOp::AllocUninitU64 => "alloc_uninit_u64".into(),
        TypedOp::AllocUninitSliceU8(n) => format!("alloc_uninit_slice_u8.{n}"),
        TypedOp::SliceOverflow => "slice_overflow".into(),
        TypedOp::AllocUnit => "alloc_unit".into(),
    }
}
fn typed_parse(s: &str) -> Option<TypedOp> {
    let mut it = s.split('.');
    let name = it.next()?;
    let mut num = || -> Option<usize> { it.next()?.parse().ok() };
    Some(match name {
        "layout" => {
            let a = num()?;
            let b = num()?;
            TypedOp::Layout(a, b)
        }
        "sized_u8" => TypedOp::SizedU8,
        "sized_u64" => TypedOp::SizedU64,
        "sized_arr3" => TypedOp::SizedArr3,
        "sized_a32" => TypedOp::SizedA32,
        "slice_u8" => TypedOp::SliceU8(num()?),
        "slice_u64" => TypedOp::SliceU64(num()?),
        "slice_arr3" => TypedOp::SliceArr3(num()?),
        "slice_for_u64" => TypedOp::SliceForU64(num()?),
        "alloc_u64" => TypedOp::AllocU64,
        "alloc_slice_copy_u8" => TypedOp::AllocSliceCopyU8(num()?),
        "alloc_uninit_u64" => TypedOp::AllocUninitU64,
        "alloc_uninit_slice_u8" => TypedOp::AllocUninitSliceU8(num()?),
        "slice_overflow" => TypedOp::SliceOverflow,
        "alloc_unit" => TypedOp::AllocUnit,
        _ => return None,
    })
}

fn orig_str(o: OrigOp) -> String {
    match o {
        OrigOp::Allocate(s, a) => format!("allocate.{s}.{a}"),
        OrigOp::TryTyped => "try_typed".into(),
        OrigOp::PanickingTyped => "panicking_typed".into(),
        OrigOp::ZstTyped => "zst_typed".into(),
        OrigOp::GrowOld => "grow_old".into(),
        OrigOp::ShrinkOld => "shrink_old".into(),
        OrigOp::DeallocOld => "dealloc_old".into(),
        OrigOp::TryReserve(n) => format!("try_reserve.{n}"),
        OrigOp::PanickingReserve(n) => format!("panicking_reserve.{n}"),
        OrigOp::Prepare(n) => format!("prepare.{n}"),
        OrigOp::Stats => "stats".into(),
        OrigOp::ClaimAgain => "claim_again".into(),
    }
}
fn orig_parse(s: &str) -> Option<OrigOp> {
    let mut it = s.split('.');
    let name = it.next()?;
    let mut num = || -> Option<u32> { it.next()?.parse().ok() };
    Some(match name {
        "allocate" => {
            let a = num()?;
            let b = num()?;
            OrigOp::Allocate(a, b)
        }
        "try_typed" => OrigOp::TryTyped,
        "panicking_typed" => OrigOp::PanickingTyped,
        "zst_typed" => OrigOp::ZstTyped,
        "grow_old" => OrigOp::GrowOld,
        "shrink_old" => OrigOp::ShrinkOld,
        "dealloc_old" => OrigOp::DeallocOld,
        "try_reserve" => OrigOp::TryReserve(num()?),
        "panicking_reserve" => OrigOp::PanickingReserve(num()?),
        "prepare" => OrigOp::Prepare(num()?),
        "stats" => OrigOp::Stats,
        "claim_again" => OrigOp::ClaimAgain,
        _ => return None,
    })
}

impl fmt::Display for Op {
    fn fmt(&self, f: &mut fmt::Formatter<'_>) -> fmt::Result {
        match *self {
            Op::Alloc { size, align, zeroed } => write!(f, "{}:{size}:{align}", if zeroed { "allocz" } else { "alloc" }),
            Op::AllocRem { extra, align } => write!(f, "allocrem:{extra}:{align}"),
            Op::Grow { sel, delta, align, zeroed } => write!(f, "{}:{sel}:{delta}:{align}", if zeroed { "growz" } else { "grow" }),
            Op::GrowRem { sel, extra } => write!(f, "growrem:{sel}:{extra}"),
            Op::Shrink { sel, to, align } => write!(f, "shrink:{sel}:{to}:{align}"),
            Op::Dealloc { sel } => write!(f, "dealloc:{sel}"),
            Op::DeallocTyped { sel } => write!(f, "dealloct:{sel}"),
            Op::VecBuf { sel, act, try_ } => {
                write!(f, "{}:{sel}:", if try_ { "tryvecbuf" } else { "vecbuf" })?;
                match act {
                    VecAct::Push => write!(f, "push"),
                    VecAct::Reserve(n) => write!(f, "reserve:{n}"),
                    VecAct::ReserveExact(n) => write!(f, "rsvexact:{n}"),
                    VecAct::ExtendCopy(n) => write!(f, "extcopy:{n}"),
                    VecAct::PopShrinkFit => write!(f, "popfit"),
                    VecAct::PopIntoBoxed => write!(f, "popboxed"),
                    VecAct::Drop => write!(f, "drop"),
                }
            }
            Op::Split { sel } => write!(f, "split:{sel}"),
            Op::Typed { op, try_ } => write!(f, "{}:{}", if try_ { "trytyped" } else { "typed" }, typed_str(op)),
            Op::ShrinkSlice { sel, to } => write!(f, "shrinkslice:{sel}:{to}"),
            Op::Prep { size, align, commit, rev } => write!(f, "{}:{size}:{align}:{commit}", if rev { "preprev" } else { "prep" }),
            Op::PrepSlice { elem, min_cap, commit, rev, try_ } => {
                write!(f, "{}{}:{elem}:{min_cap}:{commit}", if try_ { "try" } else { "" }, if rev { "prepslicerev" } else { "prepslice" })
            }
            Op::Reserve { n, try_ } => write!(f, "{}:{n}", if try_ { "tryreserve" } else { "reserve" }),
            Op::ReserveRem { extra } => write!(f, "reserverem:{extra}"),
            Op::Enter(r) => write!(f, "enter:{}", region_str(r)),
            Op::Exit => write!(f, "exit"),
            Op::ExitUnwind => write!(f, "unwind"),
            Op::Reset => write!(f, "reset"),
            Op::ResetToStart => write!(f, "reset_to_start"),
            Op::TryWith { mutable, ok, inner, try_ } => {
                write!(f, "{}{}:{}", if try_ { "try" } else { "" }, if mutable { "trywithmut" } else { "trywith" }, if ok { "ok" } else { "err" })?;
                if let Some((s, a)) = inner {
                    write!(f, ":{s}:{a}")?;
                }
                Ok(())
            }
            Op::Orig(o) => write!(f, "orig:{}", orig_str(o)),
            Op::Nop => write!(f, "nop"),
            Op::AllocHuge { align } => write!(f, "allochuge:{align}"),
            Op::GrowHuge { sel } => write!(f, "growhuge:{sel}"),
            Op::ReserveHuge { max } => write!(f, "reservehuge:{}", if max { "usize" } else { "isize" }),
            Op::MutColl(m) => write!(f, "mutcoll:{}", mutspec_str(&m)),
        }
    }
}

impl Op {
    pub fn parse(s: &str) -> Option<Op> {
        let parts: Vec<&str> = s.split(':').collect();
        let n = |i: usize| -> Option<u32> { parts.get(i)?.parse().ok() };
        let name = *parts.first()?;
        Some(match name {
            "alloc" | "allocz" => Op::Alloc { size: n(1)?, align: n(2)?, zeroed: name == "allocz" },
            "allocrem" => Op::AllocRem { extra: n(1)?, align: n(2)? },
            "grow" | "growz" => Op::Grow { sel: Sel::parse(parts.get(1)?)?, delta: n(2)?, align: n(3)?, zeroed: name == "growz" },
            "growrem" => Op::GrowRem { sel: Sel::parse(parts.get(1)?)?, extra: n(2)? },
            "shrink" => Op::Shrink { sel: Sel::parse(parts.get(1)?)?, to: ShrinkTo::parse(parts.get(2)?)?, align: n(3)? },
            "dealloc" => Op::Dealloc { sel: Sel::parse(parts.get(1)?)? },
            "dealloct" => Op::DeallocTyped { sel: Sel::parse(parts.get(1)?)? },
            "vecbuf" | "tryvecbuf" => Op::VecBuf {
                sel: Sel::parse(parts.get(1)?)?,
                try_: name == "tryvecbuf",
                act: match *parts.get(2)? {
                    "push" => VecAct::Push,
                    "reserve" => VecAct::Reserve(n(3)?),
                    "rsvexact" => VecAct::ReserveExact(n(3)?),
                    "extcopy" => VecAct::ExtendCopy(n(3)?),
                    "popfit" => VecAct::PopShrinkFit,
                    "popboxed" => VecAct::PopIntoBoxed,
                    "drop" => VecAct::Drop,
                    _ => return None,
                },
            },
            "split" => Op::Split { sel: Sel::parse(parts.get(1)?)? },
            "typed" | "trytyped" => Op::Typed { op: typed_parse(parts.get(1)?)?, try_: name == "trytyped" },
            "shrinkslice" => Op::ShrinkSlice { sel: Sel::parse(parts.get(1)?)?, to: ShrinkTo::parse(parts.get(2)?)? },
            "prep" | "preprev" => Op::Prep { size: n(1)?, align: n(2)?, commit: Commit::parse(parts.get(3)?)?, rev: name == "preprev" },
            "prepslice" | "prepslicerev" | "tryprepslice" | "tryprepslicerev" => Op::PrepSlice {
                elem: n(1)? as u8,
                min_cap: n(2)?,
                commit: Commit::parse(parts.get(3)?)?,
                rev: name.ends_with("rev"),
                try_: name.starts_with("try"),
            },
            "reserve" | "tryreserve" => Op::Reserve { n: n(1)?, try_: name == "tryreserve" },
            "reserverem" => Op::ReserveRem { extra: n(1)? },
            "enter" => Op::Enter(region_parse(parts.get(1)?)?),
            "exit" => Op::Exit,
            "unwind" => Op::ExitUnwind,
            "reset" => Op::Reset,
            "reset_to_start" => Op::ResetToStart,
            "trywith" | "trywithmut" | "trytrywith" | "trytrywithmut" => Op::TryWith {
                try_: name.starts_with("trytry"),
                mutable: name.ends_with("mut"),
                ok: *parts.get(1)? == "ok",
                inner: if parts.len() >= 4 { Some((n(2)?, n(3)?)) } else { None },
            },
            "orig" => Op::Orig(orig_parse(parts.get(1)?)?),
            "nop" => Op::Nop,
            "allochuge" => Op::AllocHuge { align: n(1)? },
            "growhuge" => Op::GrowHuge { sel: Sel::parse(parts.get(1)?)? },
            "reservehuge" => Op::ReserveHuge { max: *parts.get(1)? == "usize" },
            "mutcoll" => Op::MutColl(mutspec_parse(parts.get(1)?)?),
            _ => return None,
        })
    }
}

pub fn history_to_string(ops: &[Op]) -> String {
    let mut s = String::new();
    for (i, o) in ops.iter().enumerate() {
        if i > 0 {
            s.push(' ');
        }
        s.push_str(&o.to_string());
    }
    s
}

pub fn parse_history(s: &str) -> Option<Vec<Op>> {
    s.split_whitespace().map(Op::parse).collect()
}
