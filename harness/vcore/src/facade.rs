//! Object-safe facade over `Bump<A, S>` / `BumpScope<'_, A, S>` (DESIGN.md §2.2).
//!
//! The interpreter, the shadow model and the oracles are written once against `dyn DynArena`;
//! only the thin forwarding methods below are monomorphised per configuration.

use bump_scope::{
    Bump, BumpScope, Checkpoint, WithoutDealloc, WithoutShrink,
    alloc::{AllocError, Allocator},
    settings::BumpAllocatorSettings,
    stats::{AnyStats, Stats},
    traits::{
        BumpAllocatorCore, BumpAllocatorCoreScope, BumpAllocatorScope, BumpAllocatorTyped,
        BumpAllocatorTypedScope, MutBumpAllocatorCoreScope,
    },
    BaseAllocator,
};
use std::{alloc::Layout, ops::Range, ptr::NonNull};

use crate::slab::SlabKind;

#[derive(Clone, Copy, Debug, PartialEq, Eq)]
pub struct Cfg {
    pub up: bool,
    pub min_align: usize,
    pub ga: bool,
    pub claimable: bool,
    pub deallocates: bool,
    pub shrinks: bool,
    pub min_chunk: usize,
    pub header_size: usize,
    pub header_align: usize,
    pub alloc: &'static str,
}

impl Cfg {
    pub fn name(&self) -> String {
        format!(
            "{}-ma{}-ga{}-de{}-sh{}-mcs{}-{}",
            if self.up { "up" } else { "down" },
            self.min_align,
            self.ga as u8,
            self.deallocates as u8,
            self.shrinks as u8,
            self.min_chunk,
            self.alloc
        )
    }
}

/// How a call reaches the arena.
/// What `Op::VecBuf` does with a live block that is viewed as the buffer of a full `BumpVec<u8 | u64>`
/// (`BumpBox::from_raw` -> `FixedBumpVec::from_init` -> `BumpVec::from_parts`).
#[derive(Clone, Copy, Debug, PartialEq, Eq, Hash)]
pub enum VecAct {
    Push,
    Reserve(u32),
    ReserveExact(u32),
    ExtendCopy(u32),
    /// pop, then `shrink_to_fit`
    PopShrinkFit,
    /// pop, then `into_boxed_slice` (the block becomes a `BumpBox<[T]>` of the remaining elements)
    PopIntoBoxed,
    /// drop the vector (gives the buffer back)
    Drop,
}

/// the vector's buffer after a `VecAct`, in bytes
#[derive(Clone, Copy, Debug)]
pub struct VecOut {
    pub ptr: NonNull<u8>,
    pub len: usize,
    pub cap: usize,
    /// the `try_` twin returned an error
    pub failed: bool,
    /// the vector was dropped: no block remains
    pub gone: bool,
}

#[derive(Clone, Copy, Debug, PartialEq, Eq, Hash)]
pub enum Handle {
    /// the value itself (`Bump` inherent / trait impl, or `BumpScope`)
    Direct,
    /// `&T`
    Ref,
    /// `&&T`
    RefRef,
    /// `&mut T` style forwarding is covered by scopes; this is `WithoutDealloc(&T)`
    WoDealloc,
    WoShrink,
    /// `WithoutShrink(WithoutDealloc(&T))`
    WoShrinkWoDealloc,
    /// `WithoutDealloc(WithoutShrink(&T))`
    WoDeallocWoShrink,
    /// `&dyn BumpAllocatorCoreScope`
    Dyn,
    /// `&dyn BumpAllocatorCore`
    DynCore,
    /// `&mut T` used as an allocator (the `impl … for &mut B` forwarding impls), T = `dyn MutBumpAllocatorCoreScope`
    RefMut,
    /// `dyn MutBumpAllocatorCoreScope` itself
    DynMut,
}

pub const ALL_HANDLES: [Handle; 11] = [
    Handle::Direct,
    Handle::Ref,
    Handle::RefRef,
    Handle::WoDealloc,
    Handle::WoShrink,
    Handle::WoShrinkWoDealloc,
    Handle::WoDeallocWoShrink,
    Handle::Dyn,
    Handle::DynCore,
    Handle::RefMut,
    Handle::DynMut,
];

impl Handle {
    pub fn name(self) -> &'static str {
        match self {
            Handle::Direct => "direct",
            Handle::Ref => "ref",
            Handle::RefRef => "refref",
            Handle::WoDealloc => "wod",
            Handle::WoShrink => "wos",
            Handle::WoShrinkWoDealloc => "wos_wod",
            Handle::WoDeallocWoShrink => "wod_wos",
            Handle::Dyn => "dyn",
            Handle::DynCore => "dyncore",
            Handle::RefMut => "refmut",
            Handle::DynMut => "dynmut",
        }
    }
    pub fn parse(s: &str) -> Option<Handle> {
        ALL_HANDLES.iter().copied().find(|h| h.name() == s)
    }
    pub fn suppresses_dealloc(self) -> bool {
        matches!(self, Handle::WoDealloc | Handle::WoShrinkWoDealloc | Handle::WoDeallocWoShrink)
    }
    pub fn suppresses_shrink(self) -> bool {
        matches!(self, Handle::WoShrink | Handle::WoShrinkWoDealloc | Handle::WoDeallocWoShrink)
    }
    pub fn is_dyn(self) -> bool {
        matches!(self, Handle::Dyn | Handle::DynCore | Handle::DynMut)
    }
}

#[derive(Clone, Copy, Debug, Default, PartialEq, Eq)]
pub struct ChunkSnap {
    pub chunk_start: usize,
    pub chunk_end: usize,
    pub content_start: usize,
    pub content_end: usize,
    pub pos: usize,
    pub size: usize,
    pub capacity: usize,
    pub allocated: usize,
    pub remaining: usize,
}

#[derive(Clone, Debug, Default, PartialEq, Eq)]
pub struct StatsSnap {
    pub count: usize,
    pub size: usize,
    pub capacity: usize,
    pub allocated: usize,
    pub remaining: usize,
    pub current: Option<ChunkSnap>,
    /// `small_to_big()`
    pub fwd: Vec<ChunkSnap>,
    /// `big_to_small()`
    pub bwd: Vec<ChunkSnap>,
    /// walking `prev()` from the current chunk, then `next()` from it
    pub walk_prev: usize,
    pub walk_next: usize,
}

impl StatsSnap {
    pub fn clear(&mut self) {
        *self = StatsSnap { fwd: std::mem::take(&mut self.fwd), bwd: std::mem::take(&mut self.bwd), ..Default::default() };
        self.fwd.clear();
        self.bwd.clear();
    }
    pub fn current_index(&self) -> Option<usize> {
        let c = self.current?;
        self.fwd.iter().position(|x| x.chunk_start == c.chunk_start)
    }
}

fn snap_typed<A, S: BumpAllocatorSettings>(st: Stats<'_, A, S>, out: &mut StatsSnap) {
    out.clear();
    out.count = st.count();
    out.size = st.size();
    out.capacity = st.capacity();
    out.allocated = st.allocated();
    out.remaining = st.remaining();
    let conv = |c: bump_scope::stats::Chunk<'_, A, S>| ChunkSnap {
        chunk_start: c.chunk_start().as_ptr() as usize,
        chunk_end: c.chunk_end().as_ptr() as usize,
        content_start: c.content_start().as_ptr() as usize,
        content_end: c.content_end().as_ptr() as usize,
        pos: c.bump_position().as_ptr() as usize,
        size: c.size(),
        capacity: c.capacity(),
        allocated: c.allocated(),
        remaining: c.remaining(),
    };
    out.current = st.current_chunk().map(conv);
    for c in st.small_to_big() {
        out.fwd.push(conv(c));
        if out.fwd.len() > 64 {
            break;
        }
    }
    for c in st.big_to_small() {
        out.bwd.push(conv(c));
        if out.bwd.len() > 64 {
            break;
        }
    }
    if let Some(c) = st.current_chunk() {
        out.walk_prev = c.iter_prev().take(65).count();
        out.walk_next = c.iter_next().take(65).count();
    }
}

fn snap_any(st: AnyStats<'_>, out: &mut StatsSnap) {
    out.clear();
    out.count = st.count();
    out.size = st.size();
    out.capacity = st.capacity();
    out.allocated = st.allocated();
    out.remaining = st.remaining();
    let conv = |c: bump_scope::stats::AnyChunk<'_>| ChunkSnap {
        chunk_start: c.chunk_start().as_ptr() as usize,
        chunk_end: c.chunk_end().as_ptr() as usize,
        content_start: c.content_start().as_ptr() as usize,
        content_end: c.content_end().as_ptr() as usize,
        pos: c.bump_position().as_ptr() as usize,
        size: c.size(),
        capacity: c.capacity(),
        allocated: c.allocated(),
        remaining: c.remaining(),
    };
    out.current = st.current_chunk().map(conv);
    for c in st.small_to_big() {
        out.fwd.push(conv(c));
        if out.fwd.len() > 64 {
            break;
        }
    }
    for c in st.big_to_small() {
        out.bwd.push(conv(c));
        if out.bwd.len() > 64 {
            break;
        }
    }
    if let Some(c) = st.current_chunk() {
        out.walk_prev = c.iter_prev().take(65).count();
        out.walk_next = c.iter_next().take(65).count();
    }
}

/// Typed entry points (C17) — each returns the address and byte length of the block it produced.
#[derive(Clone, Copy, Debug, PartialEq, Eq, Hash)]
pub enum TypedOp {
    /// `allocate_layout` / `try_allocate_layout`
    Layout(usize, usize),
    /// `allocate_sized::<T>` for T = u8 / u16x1 / u64 / [u8;3] / [u8; 24] align 8 / Align32
    SizedU8,
    SizedU64,
    SizedArr3,
    SizedA32,
    /// `allocate_slice::<u8>(n)` / `::<u64>(n)` / `::<[u8;3]>(n)`
    SliceU8(usize),
    SliceU64(usize),
    SliceArr3(usize),
    /// `allocate_slice_for::<u64>(&[..; n])`
    SliceForU64(usize),
    /// the safe value-level API: `alloc(7u64)`, `alloc_slice_copy(&[u8; n])`, `alloc_str`
    AllocU64,
    AllocSliceCopyU8(usize),
    AllocUninitU64,
    AllocUninitSliceU8(usize),
    /// a slice whose byte size overflows
    SliceOverflow,
    /// `alloc(())`: a value of a zero-sized type never touches the allocator
    AllocUnit,
}

#[derive(Clone, Copy, Debug, PartialEq, Eq)]
pub struct Blk {
    pub ptr: NonNull<u8>,
    pub len: usize,
    pub align: usize,
}

#[repr(align(32))]
#[derive(Clone, Copy)]
pub struct Align32(pub [u8; 32]);

/// Region kinds entered through the real closure / guard APIs.
#[derive(Clone, Copy, Debug, PartialEq, Eq, Hash)]
pub enum Region {
    Scoped,
    ScopedAligned(usize),
    Aligned(usize),
    /// `scope_guard()`, then `guard.scope()`; leaving drops the guard
    Guard,
    /// `scope_guard()`, `guard.scope()`, on leave `guard.reset()` is called explicitly and then the guard is dropped
    GuardReset,
    /// unsafe `checkpoint()` … `reset_to()` on the same handle
    Checkpoint,
    /// `claim()`: the body runs on the guard, `orig` is the claimed handle
    Claim,
    /// `by_value()`: the body runs on the by-value scope; not a scope (nothing is rewound), but everything
    /// allocated through it is bounded by the borrow and therefore dead afterwards
    ByValue,
}

pub type Body<'x> = &'x mut dyn FnMut(&mut dyn DynArena, Option<&dyn DynArena>);

pub type ScopeDynFn<'f> = &'f mut dyn for<'x, 'y> FnMut(&'y (dyn BumpAllocatorCoreScope<'x> + 'y));
pub type CoreDynFn<'f> = &'f mut dyn for<'y> FnMut(&'y (dyn BumpAllocatorCore + 'y));
pub type ScopeDynMutFn<'f> = &'f mut dyn for<'x, 'y> FnMut(&'y mut (dyn MutBumpAllocatorCoreScope<'x> + 'y));

/// The `s_*` methods are the *static* (`Handle::Direct`) entry points and are monomorphised per configuration;
/// every other handle kind is built in non-generic code on top of the trait objects handed out by
/// `d_with_scope_dyn` / `d_with_core_dyn` (see `Via`).
pub trait DynArena {
    fn d_cfg(&self) -> Cfg;
    fn d_is_root(&self) -> bool;

    fn d_with_scope_dyn(&self, f: ScopeDynFn<'_>);
    fn d_with_core_dyn(&self, f: CoreDynFn<'_>);
    fn d_with_scope_dyn_mut(&mut self, f: ScopeDynMutFn<'_>);

    fn s_allocate(&self, layout: Layout, zeroed: bool) -> Result<NonNull<[u8]>, AllocError>;
    /// # Safety: allocator contract
    unsafe fn s_grow(&self, ptr: NonNull<u8>, old: Layout, new: Layout, zeroed: bool) -> Result<NonNull<[u8]>, AllocError>;
    /// # Safety: allocator contract
    unsafe fn s_shrink(&self, ptr: NonNull<u8>, old: Layout, new: Layout) -> Result<NonNull<[u8]>, AllocError>;
    /// # Safety: allocator contract
    unsafe fn s_deallocate(&self, ptr: NonNull<u8>, layout: Layout);
    /// # Safety: the block was allocated with the layout of `[u64; len]` (elem8) or `[u8; len]`
    unsafe fn s_dealloc_typed(&self, elem8: bool, ptr: NonNull<u8>, len: usize);
    /// # Safety: the block is live, was allocated with the layout of `[u64; len]` (elem8) or `[u8; len]` and holds initialised bytes
    unsafe fn s_vec_act(&self, elem8: bool, ptr: NonNull<u8>, len: usize, act: VecAct, try_: bool) -> VecOut;
    fn s_prepare(&self, layout: Layout, rev: bool) -> Result<Range<NonNull<u8>>, AllocError>;
    /// # Safety: contract of `allocate_prepared(_rev)`
    unsafe fn s_commit(&self, layout: Layout, range: Range<NonNull<u8>>, rev: bool) -> NonNull<u8>;
    fn s_checkpoint(&self) -> Checkpoint;
    /// # Safety: contract of `reset_to`
    unsafe fn s_reset_to(&self, cp: Checkpoint);
    fn s_is_claimed(&self) -> bool;
    /// typed entry point; `try_` selects the fallible twin. `Err(())` = the call returned an error.
    fn s_typed(&self, op: TypedOp, try_: bool) -> Result<Blk, ()>;
    fn s_reserve(&self, additional: usize, try_: bool) -> Result<(), ()>;
    /// # Safety: contract of shrink_slice
    unsafe fn s_shrink_slice(&self, elem8: bool, ptr: NonNull<u8>, old_len: usize, new_len: usize) -> Option<NonNull<u8>>;
    fn s_prepared_slice(&self, elem: usize, min_cap: usize, len_of: &mut dyn FnMut(usize) -> usize, rev: bool, try_: bool, fill: &mut dyn FnMut(NonNull<u8>, usize)) -> Result<(NonNull<u8>, usize, NonNull<u8>, usize), ()>;
    fn s_any_stats(&self, out: &mut StatsSnap);

    /// typed `stats()`
    fn d_stats(&self, out: &mut StatsSnap);
    fn d_debug_string(&self) -> String;
    fn d_allocator_ident(&self) -> Option<u64>;
    /// calls `claim()` on an already claimed handle; true = it panicked (as documented)
    fn d_second_claim_panics(&self) -> bool;

    /// root only
    fn d_reset(&mut self) -> bool;
    fn d_reset_to_start(&mut self) -> bool;

    fn d_region(&mut self, r: Region, body: Body<'_>);

    /// `alloc_try_with(_mut)`; for the shared form the closure may allocate `inner_alloc` through the same arena.
    fn d_alloc_try_with(&mut self, mutable: bool, ok: bool, inner_alloc: Option<Layout>, try_: bool) -> Result<Blk, ()>;

    /// C15: drives an exclusive-borrow collection / `*_mut` helper and records positions at every phase
    fn d_mut_coll(&mut self, spec: &crate::mutcoll::MutSpec, rep: &mut crate::mutcoll::MutReport);
}

macro_rules! typed_body {
    ($b:expr, $c:expr, $op:expr, $try_:expr) => {{
        let b = $b;
        let c = $c;
        let try_ = $try_;
        fn blk<T>(p: NonNull<T>, n: usize) -> Blk {
            Blk { ptr: p.cast(), len: n * size_of::<T>(), align: align_of::<T>() }
        }
        macro_rules! both {
            ($try:expr, $pan:expr) => {
                if try_ { $try.map_err(|_| ()) } else { Ok($pan) }
            };
        }
        match $op {
            TypedOp::Layout(s, a) => {
                let l = Layout::from_size_align(s, a).unwrap();
                both!(b.try_allocate_layout(l), b.allocate_layout(l)).map(|p| Blk { ptr: p, len: s, align: a })
            }
            TypedOp::SizedU8 => both!(b.try_allocate_sized::<u8>(), b.allocate_sized::<u8>()).map(|p| blk(p, 1)),
            TypedOp::SizedU64 => both!(b.try_allocate_sized::<u64>(), b.allocate_sized::<u64>()).map(|p| blk(p, 1)),
            TypedOp::SizedArr3 => both!(b.try_allocate_sized::<[u8; 3]>(), b.allocate_sized::<[u8; 3]>()).map(|p| blk(p, 1)),
            TypedOp::SizedA32 => both!(b.try_allocate_sized::<Align32>(), b.allocate_sized::<Align32>()).map(|p| blk(p, 1)),
            TypedOp::SliceU8(n) => both!(b.try_allocate_slice::<u8>(n), b.allocate_slice::<u8>(n)).map(|p| blk(p, n)),
            TypedOp::SliceU64(n) => both!(b.try_allocate_slice::<u64>(n), b.allocate_slice::<u64>(n)).map(|p| blk(p, n)),
            TypedOp::SliceArr3(n) => both!(b.try_allocate_slice::<[u8; 3]>(n), b.allocate_slice::<[u8; 3]>(n)).map(|p| blk(p, n)),
            TypedOp::SliceForU64(n) => {
                let v = [0u64; 16];
                let s = &v[..n.min(16)];
                both!(b.try_allocate_slice_for::<u64>(s), b.allocate_slice_for::<u64>(s)).map(|p| blk(p, s.len()))
            }
            TypedOp::AllocU64 => both!(c.try_alloc(0x0706_0504_0302_0100u64), c.alloc(0x0706_0504_0302_0100u64)).map(|bx| {
                let p = bx.into_raw();
                blk(p, 1)
            }),
            TypedOp::AllocSliceCopyU8(n) => {
                let v = [0xABu8; 512];
                let s = &v[..n.min(512)];
                both!(c.try_alloc_slice_copy(s), c.alloc_slice_copy(s)).map(|bx| {
                    let p = bx.into_raw();
                    Blk { ptr: p.cast(), len: s.len(), align: 1 }
                })
            }
            TypedOp::AllocUninitU64 => both!(c.try_alloc_uninit::<u64>(), c.alloc_uninit::<u64>()).map(|bx| {
                let p = bx.into_raw();
                Blk { ptr: p.cast(), len: 8, align: 8 }
            }),
            TypedOp::AllocUninitSliceU8(n) => both!(c.try_alloc_uninit_slice::<u8>(n), c.alloc_uninit_slice::<u8>(n)).map(|bx| {
                let p = bx.into_raw();
                Blk { ptr: p.cast(), len: n, align: 1 }
            }),
            TypedOp::SliceOverflow => both!(b.try_allocate_slice::<u64>(usize::MAX / 4), b.allocate_slice::<u64>(usize::MAX / 4)).map(|p| blk(p, 0)),
            TypedOp::AllocUnit => both!(c.try_alloc(()), c.alloc(())).map(|bx| {
                let p = bx.into_raw();
                blk(p, 1)
            }),
        }
    }};
}


fn typed_on<'a, B: BumpAllocatorTyped + ?Sized, C: BumpAllocatorTypedScope<'a> + ?Sized>(b: &B, c: &C, op: TypedOp, try_: bool) -> Result<Blk, ()> {
    typed_body!(b, c, op, try_)
}

fn prepared_slice_on<B: BumpAllocatorTyped + ?Sized>(
    b: &B,
    elem: usize,
    min_cap: usize,
    len_of: &mut dyn FnMut(usize) -> usize,
    rev: bool,
    try_: bool,
    fill: &mut dyn FnMut(NonNull<u8>, usize),
) -> Result<(NonNull<u8>, usize, NonNull<u8>, usize), ()> {
    fn go<T, B: BumpAllocatorTyped + ?Sized>(
        b: &B,
        min_cap: usize,
        len_of: &mut dyn FnMut(usize) -> usize,
        rev: bool,
        try_: bool,
        fill: &mut dyn FnMut(NonNull<u8>, usize),
    ) -> Result<(NonNull<u8>, usize, NonNull<u8>, usize), ()> {
        unsafe {
            if !rev {
                let s: NonNull<[T]> = if try_ { b.try_prepare_slice_allocation::<T>(min_cap).map_err(|_| ())? } else { b.prepare_slice_allocation::<T>(min_cap) };
                let cap = s.len();
                let start: NonNull<T> = s.cast();
                let len = len_of(cap);
                fill(start.cast(), len * size_of::<T>());
                let r = b.allocate_prepared_slice::<T>(start, len, cap);
                Ok((start.cast(), cap, r.cast(), r.len()))
            } else {
                let (end, cap): (NonNull<T>, usize) = if try_ { b.try_prepare_slice_allocation_rev::<T>(min_cap).map_err(|_| ())? } else { b.prepare_slice_allocation_rev::<T>(min_cap) };
                let len = len_of(cap);
                let start_of_data = end.sub(len);
                fill(start_of_data.cast(), len * size_of::<T>());
                let r = b.allocate_prepared_slice_rev::<T>(end, len, cap);
                Ok((end.sub(cap).cast(), cap, r.cast(), r.len()))
            }
        }
    }
    match elem {
        1 => go::<u8, B>(b, min_cap, len_of, rev, try_, fill),
        3 => go::<[u8; 3], B>(b, min_cap, len_of, rev, try_, fill),
        8 => go::<u64, B>(b, min_cap, len_of, rev, try_, fill),
        32 => go::<Align32, B>(b, min_cap, len_of, rev, try_, fill),
        _ => unreachable!(),
    }
}


/// Non-generic dispatch of a call through a handle kind. `Direct` uses the static entry points of the
/// facade; all other kinds wrap the arena's trait object.
pub enum ViaRef<'r> {
    Shared(&'r dyn DynArena),
    Excl(&'r mut dyn DynArena),
}

pub struct Via<'r> {
    pub arena: ViaRef<'r>,
    pub h: Handle,
}

macro_rules! via_dyn {
    ($self:expr, |$a:ident| $body:expr, $ret:ty) => {{
        let mut out: Option<$ret> = None;
        let mut h = $self.h;
        if matches!(h, Handle::RefMut | Handle::DynMut) {
            if let ViaRef::Excl(arena) = &mut $self.arena {
                arena.d_with_scope_dyn_mut(&mut |d| {
                    out = Some(if h == Handle::DynMut {
                        let $a = &*d;
                        $body
                    } else {
                        // `&mut T` as the allocator: a reference to a `&mut dyn …`
                        let m: &mut dyn MutBumpAllocatorCoreScope<'_> = d;
                        let $a = &m;
                        $body
                    });
                });
            } else {
                // only a shared handle is available (claimed original): fall back to the shared kinds
                h = if h == Handle::RefMut { Handle::Ref } else { Handle::Dyn };
            }
        }
        if out.is_some() {
        } else if h == Handle::DynCore {
            $self.sh().d_with_core_dyn(&mut |d| {
                let $a = &d;
                out = Some($body);
            });
        } else {
            $self.sh().d_with_scope_dyn(&mut |d| {
                out = Some(match h {
                    Handle::Dyn => {
                        let $a = &d;
                        $body
                    }
                    Handle::Ref => {
                        let r = &d;
                        let $a = &r;
                        $body
                    }
                    Handle::RefRef => {
                        let r = &d;
                        let rr = &r;
                        let $a = &rr;
                        $body
                    }
                    Handle::WoDealloc => {
                        let $a = &WithoutDealloc(d);
                        $body
                    }
                    Handle::WoShrink => {
                        let $a = &WithoutShrink(d);
                        $body
                    }
                    Handle::WoShrinkWoDealloc => {
                        let $a = &WithoutShrink(WithoutDealloc(d));
                        $body
                    }
                    Handle::WoDeallocWoShrink => {
                        let $a = &WithoutDealloc(WithoutShrink(d));
                        $body
                    }
                    Handle::Direct | Handle::DynCore | Handle::RefMut | Handle::DynMut => unreachable!(),
                });
            });
        }
        out.expect("dyn callback was not invoked")
    }};
}

/// like `via_dyn!` but `DynCore` falls back to the scope object (value-level API needs a scope)
macro_rules! via_dyn_scope {
    ($self:expr, |$a:ident| $body:expr, $ret:ty) => {{
        let mut out: Option<$ret> = None;
        let mut h = $self.h;
        if matches!(h, Handle::RefMut | Handle::DynMut) {
            if let ViaRef::Excl(arena) = &mut $self.arena {
                arena.d_with_scope_dyn_mut(&mut |d| {
                    out = Some(if h == Handle::DynMut {
                        let $a = &*d;
                        $body
                    } else {
                        let m: &mut dyn MutBumpAllocatorCoreScope<'_> = d;
                        let $a = &m;
                        $body
                    });
                });
            } else {
                h = if h == Handle::RefMut { Handle::Ref } else { Handle::Dyn };
            }
        }
        if out.is_none() {
        $self.sh().d_with_scope_dyn(&mut |d| {
            out = Some(match h {
                Handle::Dyn | Handle::DynCore => {
                    let $a = &d;
                    $body
                }
                Handle::Ref => {
                    let r = &d;
                    let $a = &r;
                    $body
                }
                Handle::RefRef => {
                    let r = &d;
                    let rr = &r;
                    let $a = &rr;
                    $body
                }
                Handle::WoDealloc => {
                    let $a = &WithoutDealloc(d);
                    $body
                }
                Handle::WoShrink => {
                    let $a = &WithoutShrink(d);
                    $body
                }
                Handle::WoShrinkWoDealloc => {
                    let $a = &WithoutShrink(WithoutDealloc(d));
                    $body
                }
                Handle::WoDeallocWoShrink => {
                    let $a = &WithoutDealloc(WithoutShrink(d));
                    $body
                }
                Handle::Direct | Handle::RefMut | Handle::DynMut => unreachable!(),
            });
        });
        }
        out.expect("dyn callback was not invoked")
    }};
}

impl<'r> Via<'r> {
    pub fn new(arena: &'r mut dyn DynArena, h: Handle) -> Self {
        Via { arena: ViaRef::Excl(arena), h }
    }
    /// only a shared borrow is available: `RefMut` / `DynMut` degrade to `Ref` / `Dyn`
    pub fn shared(arena: &'r dyn DynArena, h: Handle) -> Self {
        Via { arena: ViaRef::Shared(arena), h }
    }
    fn sh(&self) -> &dyn DynArena {
        match &self.arena {
            ViaRef::Shared(a) => *a,
            ViaRef::Excl(a) => &**a,
        }
    }
    pub fn allocate(&mut self, layout: Layout, zeroed: bool) -> Result<NonNull<[u8]>, AllocError> {
        if self.h == Handle::Direct {
            return self.sh().s_allocate(layout, zeroed);
        }
        via_dyn!(self, |a| if zeroed { a.allocate_zeroed(layout) } else { a.allocate(layout) }, Result<NonNull<[u8]>, AllocError>)
    }
    /// # Safety: allocator contract
    pub unsafe fn grow(&mut self, ptr: NonNull<u8>, old: Layout, new: Layout, zeroed: bool) -> Result<NonNull<[u8]>, AllocError> {
        unsafe {
            if self.h == Handle::Direct {
                return self.sh().s_grow(ptr, old, new, zeroed);
            }
            via_dyn!(self, |a| if zeroed { a.grow_zeroed(ptr, old, new) } else { a.grow(ptr, old, new) }, Result<NonNull<[u8]>, AllocError>)
        }
    }
    /// # Safety: allocator contract
    pub unsafe fn shrink(&mut self, ptr: NonNull<u8>, old: Layout, new: Layout) -> Result<NonNull<[u8]>, AllocError> {
        unsafe {
            if self.h == Handle::Direct {
                return self.sh().s_shrink(ptr, old, new);
            }
            via_dyn!(self, |a| a.shrink(ptr, old, new), Result<NonNull<[u8]>, AllocError>)
        }
    }
    /// # Safety: allocator contract
    pub unsafe fn deallocate(&mut self, ptr: NonNull<u8>, layout: Layout) {
        unsafe {
            if self.h == Handle::Direct {
                return self.sh().s_deallocate(ptr, layout);
            }
            via_dyn!(self, |a| a.deallocate(ptr, layout), ())
        }
    }
    /// # Safety: see `DynArena::s_dealloc_typed`
    pub unsafe fn dealloc_typed(&mut self, elem8: bool, ptr: NonNull<u8>, len: usize) {
        unsafe {
            if self.h == Handle::Direct {
                return self.sh().s_dealloc_typed(elem8, ptr, len);
            }
            via_dyn!(self, |a| dealloc_typed_on(a, elem8, ptr, len), ())
        }
    }
    /// # Safety: see `DynArena::s_vec_act`
    pub unsafe fn vec_act(&mut self, elem8: bool, ptr: NonNull<u8>, len: usize, act: VecAct, try_: bool) -> VecOut {
        unsafe {
            if self.h == Handle::Direct {
                return self.sh().s_vec_act(elem8, ptr, len, act, try_);
            }
            via_dyn_scope!(self, |a| vec_act_on(a, elem8, ptr, len, act, try_), VecOut)
        }
    }
    pub fn prepare(&mut self, layout: Layout, rev: bool) -> Result<Range<NonNull<u8>>, AllocError> {
        if self.h == Handle::Direct {
            return self.sh().s_prepare(layout, rev);
        }
        via_dyn!(self, |a| if rev { a.prepare_allocation_rev(layout) } else { a.prepare_allocation(layout) }, Result<Range<NonNull<u8>>, AllocError>)
    }
    /// # Safety: contract of `allocate_prepared(_rev)`
    pub unsafe fn commit(&mut self, layout: Layout, range: Range<NonNull<u8>>, rev: bool) -> NonNull<u8> {
        unsafe {
            if self.h == Handle::Direct {
                return self.sh().s_commit(layout, range, rev);
            }
            via_dyn!(self, |a| if rev { a.allocate_prepared_rev(layout, range.clone()) } else { a.allocate_prepared(layout, range.clone()) }, NonNull<u8>)
        }
    }
    pub fn checkpoint(&mut self) -> Checkpoint {
        if self.h == Handle::Direct {
            return self.sh().s_checkpoint();
        }
        via_dyn!(self, |a| a.checkpoint(), Checkpoint)
    }
    /// # Safety: contract of `reset_to`
    pub unsafe fn reset_to(&mut self, cp: Checkpoint) {
        unsafe {
            if self.h == Handle::Direct {
                return self.sh().s_reset_to(cp);
            }
            via_dyn!(self, |a| a.reset_to(cp), ())
        }
    }
    pub fn is_claimed(&mut self) -> bool {
        if self.h == Handle::Direct {
            return self.sh().s_is_claimed();
        }
        via_dyn!(self, |a| a.is_claimed(), bool)
    }
    pub fn typed(&mut self, op: TypedOp, try_: bool) -> Result<Blk, ()> {
        if self.h == Handle::Direct {
            return self.sh().s_typed(op, try_);
        }
        if self.h == Handle::DynCore {
            // `dyn BumpAllocatorCore` carries the typed (non-scope) API; the value-level API needs the scope object
            let mut out = None;
            self.sh().d_with_core_dyn(&mut |core| {
                self.sh().d_with_scope_dyn(&mut |scope| {
                    out = Some(typed_on(core, scope, op, try_));
                });
            });
            return out.unwrap();
        }
        via_dyn_scope!(self, |a| typed_on(a, a, op, try_), Result<Blk, ()>)
    }
    pub fn reserve(&mut self, additional: usize, try_: bool) -> Result<(), ()> {
        if self.h == Handle::Direct {
            return self.sh().s_reserve(additional, try_);
        }
        via_dyn!(self, |a| if try_ { a.try_reserve(additional).map_err(|_| ()) } else { Ok(a.reserve(additional)) }, Result<(), ()>)
    }
    /// # Safety: contract of shrink_slice
    pub unsafe fn shrink_slice(&mut self, elem8: bool, ptr: NonNull<u8>, old_len: usize, new_len: usize) -> Option<NonNull<u8>> {
        unsafe {
            if self.h == Handle::Direct {
                return self.sh().s_shrink_slice(elem8, ptr, old_len, new_len);
            }
            via_dyn!(
                self,
                |a| if elem8 { a.shrink_slice::<u64>(ptr.cast(), old_len, new_len).map(|p| p.cast::<u8>()) } else { a.shrink_slice::<u8>(ptr, old_len, new_len) },
                Option<NonNull<u8>>
            )
        }
    }
    pub fn prepared_slice(&mut self, elem: usize, min_cap: usize, len_of: &mut dyn FnMut(usize) -> usize, rev: bool, try_: bool, fill: &mut dyn FnMut(NonNull<u8>, usize)) -> Result<(NonNull<u8>, usize, NonNull<u8>, usize), ()> {
        if self.h == Handle::Direct {
            return self.sh().s_prepared_slice(elem, min_cap, len_of, rev, try_, fill);
        }
        via_dyn!(self, |a| prepared_slice_on(a, elem, min_cap, len_of, rev, try_, fill), Result<(NonNull<u8>, usize, NonNull<u8>, usize), ()>)
    }
    pub fn any_stats(&mut self, out: &mut StatsSnap) {
        if self.h == Handle::Direct {
            return self.sh().s_any_stats(out);
        }
        via_dyn!(self, |a| snap_any(a.any_stats(), out), ())
    }
}

macro_rules! impl_dyn_arena {
    (@common $is_root:expr) => {
        fn d_cfg(&self) -> Cfg {
            Cfg {
                up: S::UP,
                min_align: S::MIN_ALIGN,
                ga: S::GUARANTEED_ALLOCATED,
                claimable: S::CLAIMABLE,
                deallocates: S::DEALLOCATES,
                shrinks: S::SHRINKS,
                min_chunk: S::MINIMUM_CHUNK_SIZE,
                header_size: header_size::<A>(),
                header_align: align_of::<A>().max(16),
                alloc: A::NAME,
            }
        }
        fn d_is_root(&self) -> bool {
            $is_root
        }
        fn d_with_core_dyn(&self, f: CoreDynFn<'_>) {
            f(self)
        }
        fn s_allocate(&self, layout: Layout, zeroed: bool) -> Result<NonNull<[u8]>, AllocError> {
            if zeroed { Allocator::allocate_zeroed(self, layout) } else { Allocator::allocate(self, layout) }
        }
        unsafe fn s_grow(&self, ptr: NonNull<u8>, old: Layout, new: Layout, zeroed: bool) -> Result<NonNull<[u8]>, AllocError> {
            unsafe { if zeroed { Allocator::grow_zeroed(self, ptr, old, new) } else { Allocator::grow(self, ptr, old, new) } }
        }
        unsafe fn s_shrink(&self, ptr: NonNull<u8>, old: Layout, new: Layout) -> Result<NonNull<[u8]>, AllocError> {
            unsafe { Allocator::shrink(self, ptr, old, new) }
        }
        unsafe fn s_deallocate(&self, ptr: NonNull<u8>, layout: Layout) {
            unsafe { Allocator::deallocate(self, ptr, layout) }
        }
        unsafe fn s_dealloc_typed(&self, elem8: bool, ptr: NonNull<u8>, len: usize) {
            unsafe { dealloc_typed_on(self, elem8, ptr, len) }
        }
        unsafe fn s_vec_act(&self, elem8: bool, ptr: NonNull<u8>, len: usize, act: VecAct, try_: bool) -> VecOut {
            unsafe { vec_act_on(self, elem8, ptr, len, act, try_) }
        }
        fn s_prepare(&self, layout: Layout, rev: bool) -> Result<Range<NonNull<u8>>, AllocError> {
            if rev { BumpAllocatorCore::prepare_allocation_rev(self, layout) } else { BumpAllocatorCore::prepare_allocation(self, layout) }
        }
        unsafe fn s_commit(&self, layout: Layout, range: Range<NonNull<u8>>, rev: bool) -> NonNull<u8> {
            unsafe { if rev { BumpAllocatorCore::allocate_prepared_rev(self, layout, range) } else { BumpAllocatorCore::allocate_prepared(self, layout, range) } }
        }
        fn s_checkpoint(&self) -> Checkpoint {
            self.checkpoint()
        }
        unsafe fn s_reset_to(&self, cp: Checkpoint) {
            unsafe { self.reset_to(cp) }
        }
        fn s_is_claimed(&self) -> bool {
            self.is_claimed()
        }
        fn s_reserve(&self, additional: usize, try_: bool) -> Result<(), ()> {
            if try_ { self.try_reserve(additional).map_err(|_| ()) } else { Ok(self.reserve(additional)) }
        }
        unsafe fn s_shrink_slice(&self, elem8: bool, ptr: NonNull<u8>, old_len: usize, new_len: usize) -> Option<NonNull<u8>> {
            unsafe {
                if elem8 {
                    BumpAllocatorTyped::shrink_slice::<u64>(self, ptr.cast(), old_len, new_len).map(|p| p.cast())
                } else {
                    BumpAllocatorTyped::shrink_slice::<u8>(self, ptr, old_len, new_len)
                }
            }
        }
        fn s_prepared_slice(&self, elem: usize, min_cap: usize, len_of: &mut dyn FnMut(usize) -> usize, rev: bool, try_: bool, fill: &mut dyn FnMut(NonNull<u8>, usize)) -> Result<(NonNull<u8>, usize, NonNull<u8>, usize), ()> {
            prepared_slice_on(self, elem, min_cap, len_of, rev, try_, fill)
        }
        fn s_any_stats(&self, out: &mut StatsSnap) {
            snap_any(BumpAllocatorCore::any_stats(self), out)
        }
        fn d_debug_string(&self) -> String {
            format!("{:?}", self)
        }
    };
}

pub fn header_size<A>() -> usize {
    // ChunkHeader<A> is #[repr(C, align(16))] { pos, end, prev, next: 4 words; allocator: A }
    let align = align_of::<A>().max(16);
    let unpadded = {
        let off = (32 + align_of::<A>() - 1) & !(align_of::<A>() - 1);
        off + size_of::<A>()
    };
    (unpadded + align - 1) & !(align - 1)
}

fn region_on_scope<'a, A, S>(scope: &mut BumpScope<'a, A, S>, r: Region, body: Body<'_>)
where
    A: BaseAllocator<S::GuaranteedAllocated> + SlabKind,
    S: BumpAllocatorSettings + 'static,
{
    macro_rules! with_n {
        ($n:expr, |$N:ident| $e:expr) => {
            match $n {
                1 => {
                    const $N: usize = 1;
                    $e
                }
                2 => {
                    const $N: usize = 2;
                    $e
                }
                4 => {
                    const $N: usize = 4;
                    $e
                }
                8 => {
                    const $N: usize = 8;
                    $e
                }
                16 => {
                    const $N: usize = 16;
                    $e
                }
                _ => unreachable!("unsupported minimum alignment"),
            }
        };
    }
    match r {
        Region::Scoped => scope.scoped(|inner| body(inner, None)),
        Region::ScopedAligned(n) => with_n!(n, |N| scope.scoped_aligned::<N, _>(|inner| body(inner, None))),
        Region::Aligned(n) => with_n!(n, |N| scope.aligned::<N, _>(|inner| body(inner, None))),
        Region::Guard => {
            let mut guard = scope.scope_guard();
            body(guard.scope(), None);
            drop(guard);
        }
        Region::GuardReset => {
            let mut guard = scope.scope_guard();
            body(guard.scope(), None);
            guard.reset();
            // a second scope from the same guard, left empty, then a second reset
            let _ = guard.scope();
            guard.reset();
            drop(guard);
        }
        Region::Checkpoint => {
            let cp = scope.checkpoint();
            body(scope, None);
            unsafe { scope.reset_to(cp) };
        }
        Region::ByValue => {
            let mut s = scope.by_value();
            body(&mut s, None);
        }
        Region::Claim => {
            let mut guard = scope.claim();
            let orig: &BumpScope<'a, A, S> = scope;
            body(&mut *guard, Some(orig));
            drop(guard);
        }
    }
}

impl<'a, A, S> DynArena for BumpScope<'a, A, S>
where
    A: BaseAllocator<S::GuaranteedAllocated> + SlabKind,
    S: BumpAllocatorSettings + 'static,
{
    impl_dyn_arena!(@common false);

    fn d_with_scope_dyn(&self, f: ScopeDynFn<'_>) {
        f(self)
    }
    fn d_with_scope_dyn_mut(&mut self, f: ScopeDynMutFn<'_>) {
        f(self)
    }
    fn s_typed(&self, op: TypedOp, try_: bool) -> Result<Blk, ()> {
        typed_on(self, self, op, try_)
    }
    fn d_stats(&self, out: &mut StatsSnap) {
        snap_typed(BumpScope::stats(self), out)
    }
    fn d_allocator_ident(&self) -> Option<u64> {
        BumpAllocatorScope::allocator(self).map(|a| a.ident())
    }
    fn d_second_claim_panics(&self) -> bool {
        std::panic::catch_unwind(std::panic::AssertUnwindSafe(|| {
            let g = BumpAllocatorScope::claim(self);
            std::mem::forget(g);
        }))
        .is_err()
    }
    fn d_reset(&mut self) -> bool {
        false
    }
    fn d_reset_to_start(&mut self) -> bool {
        false
    }
    fn d_region(&mut self, r: Region, body: Body<'_>) {
        region_on_scope(self, r, body)
    }
    fn d_alloc_try_with(&mut self, mutable: bool, ok: bool, inner_alloc: Option<Layout>, try_: bool) -> Result<Blk, ()> {
        alloc_try_with_on(self, mutable, ok, inner_alloc, try_)
    }
    fn d_mut_coll(&mut self, spec: &crate::mutcoll::MutSpec, rep: &mut crate::mutcoll::MutReport) {
        <A::MutColl as crate::mutcoll::MutCollSwitch>::run(self, spec, rep)
    }
}

/// `BumpAllocatorTyped::dealloc` with a `BumpBox<[u8]>` / `BumpBox<[u64]>` rebuilt from the raw block
unsafe fn dealloc_typed_on<B: BumpAllocatorTyped + ?Sized>(a: &B, elem8: bool, ptr: NonNull<u8>, len: usize) {
    unsafe {
        if elem8 {
            let b: bump_scope::BumpBox<'_, [u64]> = bump_scope::BumpBox::from_raw(NonNull::slice_from_raw_parts(ptr.cast::<u64>(), len));
            a.dealloc(b);
        } else {
            let b: bump_scope::BumpBox<'_, [u8]> = bump_scope::BumpBox::from_raw(NonNull::slice_from_raw_parts(ptr, len));
            a.dealloc(b);
        }
    }
}

/// the value `VecAct` appends (every byte is `VEC_FILL`)
pub const VEC_FILL: u8 = 0xE7;

unsafe fn vec_act_t<'a, T: Copy + 'a, A: bump_scope::traits::BumpAllocatorTypedScope<'a>>(a: A, ptr: NonNull<T>, len: usize, act: VecAct, try_: bool, fill: T) -> VecOut {
    unsafe {
        let boxed: bump_scope::BumpBox<'a, [T]> = bump_scope::BumpBox::from_raw(NonNull::slice_from_raw_parts(ptr, len));
        let fixed = bump_scope::FixedBumpVec::from_init(boxed);
        let mut v: bump_scope::BumpVec<T, A> = bump_scope::BumpVec::from_parts(fixed, a);
        let es = std::mem::size_of::<T>();
        let mut failed = false;
        match act {
            VecAct::Push => {
                if try_ {
                    failed = v.try_push(fill).is_err();
                } else {
                    v.push(fill);
                }
            }
            VecAct::Reserve(n) => {
                if try_ {
                    failed = v.try_reserve(n as usize).is_err();
                } else {
                    v.reserve(n as usize);
                }
            }
            VecAct::ReserveExact(n) => {
                if try_ {
                    failed = v.try_reserve_exact(n as usize).is_err();
                } else {
                    v.reserve_exact(n as usize);
                }
            }
            VecAct::ExtendCopy(n) => {
                let src = vec![fill; n as usize];
                if try_ {
                    failed = v.try_extend_from_slice_copy(&src).is_err();
                } else {
                    v.extend_from_slice_copy(&src);
                }
            }
            VecAct::PopShrinkFit => {
                v.pop();
                v.shrink_to_fit();
            }
            VecAct::PopIntoBoxed => {
                v.pop();
                let b = v.into_boxed_slice();
                let n = b.len();
                let p = b.into_raw().cast::<u8>();
                return VecOut { ptr: p, len: n * es, cap: n * es, failed: false, gone: false };
            }
            VecAct::Drop => {
                drop(v);
                return VecOut { ptr: ptr.cast(), len: 0, cap: 0, failed: false, gone: true };
            }
        }
        let (fixed, _) = v.into_parts();
        let out = VecOut { ptr: fixed.as_non_null().cast(), len: fixed.len() * es, cap: fixed.capacity() * es, failed, gone: false };
        std::mem::forget(fixed);
        out
    }
}

unsafe fn vec_act_on<'a, A: bump_scope::traits::BumpAllocatorTypedScope<'a>>(a: A, elem8: bool, ptr: NonNull<u8>, len: usize, act: VecAct, try_: bool) -> VecOut {
    unsafe {
        if elem8 {
            vec_act_t::<u64, A>(a, ptr.cast(), len, act, try_, u64::from_ne_bytes([VEC_FILL; 8]))
        } else {
            vec_act_t::<u8, A>(a, ptr, len, act, try_, VEC_FILL)
        }
    }
}

thread_local! {
    /// the block the closure of `alloc_try_with` allocated through the same arena (it stays live whatever the closure returns)
    pub static INNER_BLOCK: std::cell::Cell<Option<(usize, usize, usize)>> = const { std::cell::Cell::new(None) };
}

fn alloc_try_with_on<A, S>(scope: &mut BumpScope<'_, A, S>, mutable: bool, ok: bool, inner_alloc: Option<Layout>, try_: bool) -> Result<Blk, ()>
where
    A: BaseAllocator<S::GuaranteedAllocated> + SlabKind,
    S: BumpAllocatorSettings + 'static,
{
    let val = [0x5Au8; 24];
    let conv = |bx: bump_scope::BumpBox<'_, [u8; 24]>| Blk { ptr: bx.into_raw().cast(), len: 24, align: 1 };
    if mutable {
        if try_ {
            match scope.try_alloc_try_with_mut(|| if ok { Ok(val) } else { Err(()) }) {
                Ok(r) => r.map(conv),
                Err(_) => Err(()),
            }
        } else {
            scope.alloc_try_with_mut(|| if ok { Ok(val) } else { Err(()) }).map(conv)
        }
    } else {
        let sc: &BumpScope<'_, A, S> = scope;
        let f = || {
            if let Some(l) = inner_alloc {
                if let Ok(p) = Allocator::allocate(sc, l) {
                    INNER_BLOCK.with(|c| c.set(Some((p.cast::<u8>().as_ptr() as usize, l.size(), l.align()))));
                }
            }
            if ok { Ok(val) } else { Err(()) }
        };
        if try_ {
            match sc.try_alloc_try_with(f) {
                Ok(r) => r.map(conv),
                Err(_) => Err(()),
            }
        } else {
            sc.alloc_try_with(f).map(conv)
        }
    }
}

/// `Bump`'s inherent forwarding methods (`forward_methods!`) for the value-level API, its own
/// `BumpAllocatorTyped` impl for the rest.
fn typed_bump_inherent<A, S>(bump: &Bump<A, S>, op: TypedOp, try_: bool) -> Result<Blk, ()>
where
    A: BaseAllocator<S::GuaranteedAllocated>,
    S: BumpAllocatorSettings,
{
    typed_body!(bump, bump, op, try_)
}

impl<A, S> DynArena for Bump<A, S>
where
    A: BaseAllocator<S::GuaranteedAllocated> + SlabKind,
    S: BumpAllocatorSettings + 'static,
{
    impl_dyn_arena!(@common true);

    fn d_with_scope_dyn(&self, f: ScopeDynFn<'_>) {
        // `&Bump` is the scope-like handle of a `Bump`
        let r: &Bump<A, S> = self;
        f(&r)
    }
    fn d_with_scope_dyn_mut(&mut self, f: ScopeDynMutFn<'_>) {
        // `&mut Bump` is the exclusive scope-like handle of a `Bump`
        let mut r: &mut Bump<A, S> = self;
        f(&mut r)
    }
    fn s_typed(&self, op: TypedOp, try_: bool) -> Result<Blk, ()> {
        typed_bump_inherent(self, op, try_)
    }
    fn d_stats(&self, out: &mut StatsSnap) {
        snap_typed(Bump::stats(self), out)
    }
    fn d_allocator_ident(&self) -> Option<u64> {
        self.allocator().map(|a| a.ident())
    }
    fn d_second_claim_panics(&self) -> bool {
        std::panic::catch_unwind(std::panic::AssertUnwindSafe(|| {
            let g = self.claim();
            std::mem::forget(g);
        }))
        .is_err()
    }
    fn d_reset(&mut self) -> bool {
        Bump::reset(self);
        true
    }
    fn d_reset_to_start(&mut self) -> bool {
        Bump::reset_to_start(self);
        true
    }
    fn d_region(&mut self, r: Region, body: Body<'_>) {
        // exercise `Bump`'s own forwarding methods for the closure kinds, the scope's for the rest
        match r {
            Region::Scoped => self.scoped(|inner| body(inner, None)),
            Region::Guard => {
                let mut guard = self.scope_guard();
                body(guard.scope(), None);
                drop(guard);
            }
            Region::Checkpoint => {
                let cp = Bump::checkpoint(self);
                body(self, None);
                unsafe { Bump::reset_to(self, cp) };
            }
            _ => region_on_scope(self.as_mut_scope(), r, body),
        }
    }
    fn d_mut_coll(&mut self, spec: &crate::mutcoll::MutSpec, rep: &mut crate::mutcoll::MutReport) {
        <A::MutColl as crate::mutcoll::MutCollSwitch>::run(self.as_mut_scope(), spec, rep)
    }
    fn d_alloc_try_with(&mut self, mutable: bool, ok: bool, inner_alloc: Option<Layout>, try_: bool) -> Result<Blk, ()> {
        // `Bump`'s own forwarding methods
        let val = [0x5Au8; 24];
        let conv = |bx: bump_scope::BumpBox<'_, [u8; 24]>| Blk { ptr: bx.into_raw().cast(), len: 24, align: 1 };
        if mutable {
            if try_ {
                match Bump::try_alloc_try_with_mut(self, || if ok { Ok(val) } else { Err(()) }) {
                    Ok(r) => r.map(conv),
                    Err(_) => Err(()),
                }
            } else {
                Bump::alloc_try_with_mut(self, || if ok { Ok(val) } else { Err(()) }).map(conv)
            }
        } else {
            let sc: &Bump<A, S> = self;
            let f = || {
                if let Some(l) = inner_alloc {
                    if let Ok(p) = Allocator::allocate(sc, l) {
                        INNER_BLOCK.with(|c| c.set(Some((p.cast::<u8>().as_ptr() as usize, l.size(), l.align()))));
                    }
                }
                if ok { Ok(val) } else { Err(()) }
            };
            if try_ {
                match sc.try_alloc_try_with(f) {
                    Ok(r) => r.map(conv),
                    Err(_) => Err(()),
                }
            } else {
                sc.alloc_try_with(f).map(conv)
            }
        }
    }
}

