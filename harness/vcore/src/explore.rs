//! Exhaustive enumeration of operation histories (DESIGN.md §2.4): every enabled history over the alphabet of
//! length ≤ depth, for every configuration × run-parameter combination, optionally × every base-allocator
//! fault set of bounded size.

use crate::exec::Cover;
use crate::json::J;
use crate::ops::*;
use crate::runner::*;
use std::collections::HashSet;
use std::sync::Mutex;
use std::sync::atomic::{AtomicBool, AtomicU64, AtomicUsize, Ordering};
use std::time::{Duration, Instant};

#[derive(Clone, Copy, Debug, PartialEq, Eq)]
pub enum FaultMode {
    None,
    /// every single allocate-call index
    Single,
    /// every set of at most two call indices
    Pairs,
}

/// An alternative entry point for the same requests (C17): the history is transformed and re-run, and the per-step
/// observable effects (chunk index and offset of the returned block, its layout, allocated(), count(), remaining())
/// must equal those of the reference run.
#[derive(Clone)]
pub struct Variant {
    pub name: &'static str,
    pub h: Option<crate::facade::Handle>,
    /// rewrite every op (None = the variant does not apply to this history)
    pub map: fn(&Op) -> Option<Op>,
    /// run the whole history inside `by_value()` (BumpScope instead of Bump)
    pub by_value_wrap: bool,
}

pub struct Space<'a> {
    /// C03: additionally run every history that ends at scope depth 0 six times in a `history; reset()` loop
    pub reset_loop: bool,
    /// every explored prefix history is additionally extended by every `suffix` op, and that by every `tail` op
    /// (used when one family of operations has a large parameter space of its own, C15)
    pub suffix: Vec<Op>,
    pub tail: Vec<Op>,
    pub variants: Vec<Variant>,
    pub prop: &'a str,
    pub alphabet: Vec<Op>,
    pub depth: usize,
    pub configs: Vec<ConfigEntry>,
    pub params: Vec<RunParams>,
    pub groups: u32,
    pub probes: bool,
    pub fault: FaultMode,
    pub deadline: Instant,
    pub threads: usize,
    /// which histories count as non-trivial for this property
    pub nontrivial: fn(&Cover, &[Op]) -> bool,
    pub nontrivial_rule: &'a str,
    pub max_violations: usize,
    /// minimal number of non-trivial histories below which the run is considered vacuous (machinery error)
    pub floor: u64,
}

#[derive(Clone, Debug)]
pub struct ViolRec {
    pub cfg: String,
    pub params: String,
    pub history: String,
    pub len: usize,
    pub step: usize,
    pub msg: String,
    pub replay_args: Vec<String>,
}

#[derive(Default, Debug)]
pub struct Counters {
    pub histories: AtomicU64,
    pub fault_runs: AtomicU64,
    pub nontrivial: AtomicU64,
    pub chunk_switch: AtomicU64,
    pub inplace: AtomicU64,
    pub moved: AtomicU64,
    pub reclaim: AtomicU64,
    pub depth2: AtomicU64,
    pub unwound: AtomicU64,
    pub alloc_failed: AtomicU64,
    pub disabled: AtomicU64,
    pub ctor_failed: AtomicU64,
}

pub struct Report {
    pub per_level: Vec<u64>,
    pub completed_depth: usize,
    pub capped: bool,
    pub histories: u64,
    pub fault_runs: u64,
    pub states: u64,
    pub nontrivial: u64,
    pub counters: Vec<(String, u64)>,
    pub violations: Vec<ViolRec>,
    pub samples: Vec<String>,
    pub wall_s: f64,
    pub configs: usize,
    pub params: usize,
    pub alphabet: usize,
}

fn bump(c: &AtomicU64) {
    c.fetch_add(1, Ordering::Relaxed);
}

pub fn replay_args(entry: &ConfigEntry, p: &RunParams, ops: &[Op]) -> Vec<String> {
    vec![
        "--cfg".into(),
        entry.cfg.name(),
        "--h".into(),
        p.h.name().into(),
        "--ctor".into(),
        p.ctor.name(),
        "--phase".into(),
        p.slab.phase.to_string(),
        "--overgrant".into(),
        p.slab.overgrant.to_string(),
        "--fail".into(),
        p.slab.fail_mask.to_string(),
        "--roundtrip".into(),
        (p.roundtrip as u8).to_string(),
        "--history".into(),
        history_to_string(ops),
    ]
}

pub fn explore(space: &Space<'_>) -> Report {
    let t0 = Instant::now();
    let n = space.alphabet.len();
    let counters = Counters::default();
    let violations: Mutex<Vec<ViolRec>> = Mutex::new(Vec::new());
    let samples: Mutex<Vec<String>> = Mutex::new(Vec::new());
    let states: Mutex<HashSet<u64>> = Mutex::new(HashSet::new());
    let stop = AtomicBool::new(false);
    let capped = AtomicBool::new(false);
    let mut per_level = Vec::new();
    let mut completed_depth = 0;

    // level 0: the empty history (construction + drop) for every configuration / parameter set
    for (ci, entry) in space.configs.iter().enumerate() {
        for (pi, p) in space.params.iter().enumerate() {
            let out = run_history(entry, &[], p, space.groups, true, space.probes);
            if out.ctor_unavailable {
                continue;
            }
            if let Some((_, step, msg)) = out.viol {
                violations.lock().unwrap().push(ViolRec {
                    cfg: entry.cfg.name(),
                    params: p.describe(),
                    history: String::new(),
                    len: 0,
                    step,
                    msg,
                    replay_args: replay_args(entry, p, &[]),
                });
            }
            let _ = (ci, pi);
            if !space.suffix.is_empty() {
                let mut local = HashSet::new();
                suffix_sweep(space, entry, p, &[], ci, pi, &counters, &violations, &stop, &samples, &mut local);
                states.lock().unwrap().extend(local);
            }
        }
    }

    'levels: for level in 1..=space.depth {
        let items: Vec<(usize, usize, usize)> = {
            let mut v = Vec::new();
            for first in 0..n {
                for ci in 0..space.configs.len() {
                    for pi in 0..space.params.len() {
                        v.push((ci, pi, first));
                    }
                }
            }
            v
        };
        let next = AtomicUsize::new(0);
        let level_count = AtomicU64::new(0);
        std::thread::scope(|sc| {
            for _ in 0..space.threads {
                sc.spawn(|| {
                    crate::crash::install_thread_altstack();
                    let mut local_states: HashSet<u64> = HashSet::new();
                    let mut hist: Vec<Op> = Vec::with_capacity(level);
                    let mut idx: Vec<usize> = vec![0; level];
                    loop {
                        if stop.load(Ordering::Relaxed) {
                            break;
                        }
                        let it = next.fetch_add(1, Ordering::Relaxed);
                        if it >= items.len() {
                            break;
                        }
                        let (ci, pi, first) = items[it];
                        let entry = &space.configs[ci];
                        let params = &space.params[pi];
                        for x in idx.iter_mut() {
                            *x = 0;
                        }
                        idx[0] = first;
                        let mut iter = 0u32;
                        'hist: loop {
                            iter = iter.wrapping_add(1);
                            if iter % 1024 == 0 && Instant::now() > space.deadline {
                                capped.store(true, Ordering::Relaxed);
                                stop.store(true, Ordering::Relaxed);
                                break;
                            }
                            hist.clear();
                            hist.extend(idx.iter().map(|&i| space.alphabet[i]));
                            let out = run_history_ex(entry, &hist, params, space.groups, true, space.probes, !space.variants.is_empty());
                            let mut advance_at = level - 1;
                            if out.ctor_unavailable {
                                break 'hist;
                            }
                            if let Some(d) = out.disabled_at {
                                bump(&counters.disabled);
                                advance_at = d.min(level - 1);
                            } else {
                                level_count.fetch_add(1, Ordering::Relaxed);
                                bump(&counters.histories);
                                let cv = out.cover;
                                if cv.chunk_switch {
                                    bump(&counters.chunk_switch);
                                }
                                if cv.inplace_realloc {
                                    bump(&counters.inplace);
                                }
                                if cv.moved_realloc {
                                    bump(&counters.moved);
                                }
                                if cv.reclaim {
                                    bump(&counters.reclaim);
                                }
                                if cv.depth2 {
                                    bump(&counters.depth2);
                                }
                                if cv.unwound {
                                    bump(&counters.unwound);
                                }
                                if out.ctor_failed {
                                    bump(&counters.ctor_failed);
                                }
                                if (space.nontrivial)(&cv, &hist) {
                                    bump(&counters.nontrivial);
                                }
                                local_states.insert(out.hash ^ ((ci as u64) << 48) ^ ((pi as u64) << 56));
                                if let Some((_, step, msg)) = out.viol {
                                    push_viol(
                                        space,
                                        &violations,
                                        &stop,
                                        ViolRec {
                                            cfg: entry.cfg.name(),
                                            params: params.describe(),
                                            history: history_to_string(&hist),
                                            len: hist.len(),
                                            step,
                                            msg,
                                            replay_args: replay_args(entry, params, &hist),
                                        },
                                    );
                                } else if space.reset_loop && hist.len() < space.depth && !hist.iter().any(|o| matches!(o, Op::Reset | Op::ResetToStart)) {
                                    bump(&counters.fault_runs);
                                    if let Some(m) = run_reset_loop(entry, &hist, params, 6) {
                                        let mut v = violations.lock().unwrap();
                                        let mut a = replay_args(entry, params, &hist);
                                        a.push("--reset-loop".into());
                                        a.push("1".into());
                                        v.push(ViolRec { cfg: entry.cfg.name(), params: params.describe(), history: history_to_string(&hist), len: hist.len(), step: hist.len(), msg: m, replay_args: a });
                                        if v.len() >= space.max_violations {
                                            stop.store(true, Ordering::Relaxed);
                                        }
                                    }
                                } else if !space.suffix.is_empty() {
                                    suffix_sweep(space, entry, params, &hist, ci, pi, &counters, &violations, &stop, &samples, &mut local_states);
                                } else if !space.variants.is_empty() {
                                    lockstep(space, entry, params, &hist, &out, &counters, &violations, &stop);
                                } else if space.fault != FaultMode::None && out.calls > 0 {
                                    // every fault set over the calls this history makes
                                    fault_sweep(space, entry, params, &hist, out.calls, &counters, &violations, &stop);
                                }
                                // a handful of samples, spread over the run
                                let hcount = counters.histories.load(Ordering::Relaxed);
                                if hcount % 1_000_003 == 1 || (level == space.depth && hcount % 250_007 == 3) {
                                    let mut s = samples.lock().unwrap();
                                    if s.len() < 24 {
                                        s.push(format!("cfg={} {} history=[{}]", entry.cfg.name(), params.describe(), history_to_string(&hist)));
                                    }
                                }
                            }
                            // advance odometer at `advance_at` (position 0 is fixed for this item)
                            let mut pos = advance_at;
                            loop {
                                if pos == 0 {
                                    break 'hist;
                                }
                                idx[pos] += 1;
                                for j in pos + 1..level {
                                    idx[j] = 0;
                                }
                                if idx[pos] < n {
                                    break;
                                }
                                pos -= 1;
                            }
                            if stop.load(Ordering::Relaxed) {
                                break;
                            }
                        }
                    }
                    let mut g = states.lock().unwrap();
                    g.extend(local_states);
                });
            }
        });
        per_level.push(level_count.load(Ordering::Relaxed));
        if stop.load(Ordering::Relaxed) {
            break 'levels;
        }
        completed_depth = level;
    }

    let c = &counters;
    let g = |a: &AtomicU64| a.load(Ordering::Relaxed);
    let mut viols = violations.into_inner().unwrap();
    viols.sort_by_key(|v| (v.len, v.cfg.clone(), v.history.clone()));
    let mut samples = samples.into_inner().unwrap();
    if samples.is_empty() {
        // tiny spaces: take the first few histories deterministically
        if let (Some(e), Some(p)) = (space.configs.first(), space.params.first()) {
            for i in 0..n.min(3) {
                samples.push(format!("cfg={} {} history=[{}]", e.cfg.name(), p.describe(), space.alphabet[i]));
            }
        }
    }
    Report {
        per_level,
        completed_depth,
        capped: capped.load(Ordering::Relaxed),
        histories: g(&c.histories),
        fault_runs: g(&c.fault_runs),
        states: states.into_inner().unwrap().len() as u64,
        nontrivial: g(&c.nontrivial),
        counters: vec![
            ("histories_with_chunk_switch".into(), g(&c.chunk_switch)),
            ("histories_with_inplace_realloc".into(), g(&c.inplace)),
            ("histories_with_moved_realloc".into(), g(&c.moved)),
            ("histories_with_reclaim".into(), g(&c.reclaim)),
            ("histories_with_scope_depth_ge2".into(), g(&c.depth2)),
            ("histories_with_unwinding_exit".into(), g(&c.unwound)),
            ("runs_with_refused_allocation".into(), g(&c.alloc_failed)),
            ("histories_with_failed_constructor".into(), g(&c.ctor_failed)),
            ("disabled_prefixes_pruned".into(), g(&c.disabled)),
        ],
        violations: viols,
        samples,
        wall_s: t0.elapsed().as_secs_f64(),
        configs: space.configs.len(),
        params: space.params.len(),
        alphabet: n,
    }
}

#[allow(clippy::too_many_arguments)]
fn suffix_sweep(
    space: &Space<'_>,
    entry: &ConfigEntry,
    params: &RunParams,
    prefix: &[Op],
    ci: usize,
    pi: usize,
    counters: &Counters,
    violations: &Mutex<Vec<ViolRec>>,
    stop: &AtomicBool,
    samples: &Mutex<Vec<String>>,
    local_states: &mut HashSet<u64>,
) {
    let mut hist: Vec<Op> = Vec::with_capacity(prefix.len() + 2);
    let mut run = |hist: &[Op]| -> bool {
        let out = run_history(entry, hist, params, space.groups, true, space.probes);
        if out.disabled_at.is_some() || out.ctor_unavailable {
            return false;
        }
        bump(&counters.histories);
        if out.cover.chunk_switch {
            bump(&counters.chunk_switch);
        }
        if (space.nontrivial)(&out.cover, hist) {
            bump(&counters.nontrivial);
        }
        local_states.insert(out.hash ^ ((ci as u64) << 48) ^ ((pi as u64) << 56));
        let n = counters.histories.load(Ordering::Relaxed);
        if n % 500_009 == 11 {
            let mut s = samples.lock().unwrap();
            if s.len() < 24 {
                s.push(format!("cfg={} {} history=[{}]", entry.cfg.name(), params.describe(), history_to_string(hist)));
            }
        }
        if let Some((_, step, msg)) = out.viol {
            push_viol(space, violations, stop, ViolRec { cfg: entry.cfg.name(), params: params.describe(), history: history_to_string(hist), len: hist.len(), step, msg, replay_args: replay_args(entry, params, hist) });
            return false;
        }
        true
    };
    for s in &space.suffix {
        if stop.load(Ordering::Relaxed) {
            return;
        }
        hist.clear();
        hist.extend_from_slice(prefix);
        hist.push(*s);
        if run(&hist) {
            for t in &space.tail {
                hist.truncate(prefix.len() + 1);
                hist.push(*t);
                run(&hist);
            }
        }
    }
}

fn describe_entry(e: &[u64; 5]) -> String {
    let blk = if e[0] == u64::MAX {
        "no block".to_string()
    } else if e[0] == u64::MAX - 1 {
        "block outside every chunk".to_string()
    } else {
        format!("block at chunk {} offset {} size {} align {}", e[0] >> 40, e[0] & ((1 << 40) - 1), e[1] >> 8, 1u64 << (e[1] & 0xff))
    };
    format!("{blk}, allocated {}, count {}, remaining {}", e[2], e[3] >> 40, e[3] & ((1 << 40) - 1))
}

#[allow(clippy::too_many_arguments)]
/// message prefixes of divergences that are recorded as known findings (known_findings.json): only the first
/// occurrence of each is kept, and they do not count towards the violation budget that stops an exploration
pub const KNOWN_TAGS: [&str; 2] = ["trait-object reserve: ", "alloc_try_with_mut slot waste: "];

fn push_viol(space: &Space<'_>, violations: &Mutex<Vec<ViolRec>>, stop: &AtomicBool, rec: ViolRec) {
    let mut v = violations.lock().unwrap();
    if let Some(tag) = KNOWN_TAGS.iter().find(|t| rec.msg.starts_with(**t)) {
        if v.iter().any(|x| x.msg.starts_with(*tag)) {
            return;
        }
    }
    v.push(rec);
    if v.iter().filter(|x| !KNOWN_TAGS.iter().any(|t| x.msg.starts_with(*t))).count() >= space.max_violations {
        stop.store(true, Ordering::Relaxed);
    }
}

pub fn lockstep(space: &Space<'_>, entry: &ConfigEntry, params: &RunParams, hist: &[Op], reference: &Outcome, counters: &Counters, violations: &Mutex<Vec<ViolRec>>, stop: &AtomicBool) {
    let Some(rt) = reference.trace.as_ref() else { return };
    let mut alt: Vec<Op> = Vec::with_capacity(hist.len() + 1);
    for v in &space.variants {
        alt.clear();
        if v.by_value_wrap && params.ctor == Ctor::Unallocated {
            // `by_value()` itself creates the first chunk (with the default size): the two runs would not start
            // from equal states, which is what the property quantifies over
            continue;
        }
        if v.by_value_wrap {
            alt.push(Op::Enter(crate::facade::Region::ByValue));
        }
        let mut applicable = true;
        for o in hist {
            match (v.map)(o) {
                Some(x) => alt.push(x),
                None => {
                    applicable = false;
                    break;
                }
            }
        }
        if !applicable {
            continue;
        }
        let mut p = *params;
        if let Some(h) = v.h {
            p.h = h;
        }
        let out = run_history_ex(entry, &alt, &p, space.groups, true, false, true);
        if out.disabled_at.is_some() || out.ctor_unavailable {
            continue;
        }
        bump(&counters.fault_runs);
        let mut msg = None;
        if let Some((_, _, m)) = &out.viol {
            msg = Some(format!("variant '{}' of the history failed on its own: {m}", v.name));
        } else if let Some(vt) = out.trace.as_ref() {
            let shift = if v.by_value_wrap { 1 } else { 0 };
            for (i, (a, b)) in rt.iter().zip(vt.iter()).enumerate() {
                if a[..4] != b[..4] {
                    let pc = a[4] as usize;
                    let op = hist.get(pc.saturating_sub(1)).map(|o| o.to_string()).unwrap_or_default();
                    let reserve_dyn = p.h != crate::facade::Handle::Direct && hist[..pc.min(hist.len())].iter().any(|o| matches!(o, Op::Reserve { .. } | Op::ReserveRem { .. }));
                    msg = Some(format!(
                        "{}entry points diverge at observation {i} (op '{op}'): reference [{}] vs variant '{}' [{}]",
                        if reserve_dyn { "trait-object reserve: " } else { "" },
                        describe_entry(a),
                        v.name,
                        describe_entry(b)
                    ));
                    break;
                }
            }
            let _ = shift;
            if msg.is_none() && rt.len() != vt.len() && !v.by_value_wrap {
                msg = Some(format!("variant '{}' produced {} observations, the reference {}", v.name, vt.len(), rt.len()));
            }
        }
        if let Some(m) = msg {
            let known = m.starts_with("trait-object reserve: ");
            let mut vl = violations.lock().unwrap();
            if known && vl.iter().any(|x| x.msg.starts_with("trait-object reserve: ")) {
                continue;
            }
            vl.push(ViolRec {
                cfg: entry.cfg.name(),
                params: format!("{} variant={}", params.describe(), v.name),
                history: history_to_string(hist),
                len: hist.len(),
                step: 0,
                msg: m,
                replay_args: {
                    let mut a = replay_args(entry, params, hist);
                    a.push("--variant".into());
                    a.push(v.name.into());
                    a
                },
            });
            if vl.iter().filter(|x| !x.msg.starts_with("trait-object reserve: ")).count() >= space.max_violations {
                stop.store(true, Ordering::Relaxed);
            }
        }
    }
}

#[allow(clippy::too_many_arguments)]
fn fault_sweep(
    space: &Space<'_>,
    entry: &ConfigEntry,
    params: &RunParams,
    hist: &[Op],
    calls: u32,
    counters: &Counters,
    violations: &Mutex<Vec<ViolRec>>,
    stop: &AtomicBool,
) {
    let max_set = if space.fault == FaultMode::Pairs { 2 } else { 1 };
    // DFS over fault sets: (mask, highest index in the set, size, number of calls observed with that mask)
    let mut stack: Vec<(u64, u32, u32)> = Vec::new();
    for k in (0..calls.min(62)).rev() {
        stack.push((1u64 << k, k, 1));
    }
    while let Some((mask, hi, size)) = stack.pop() {
        if stop.load(Ordering::Relaxed) {
            return;
        }
        let mut p = *params;
        p.slab.fail_mask = mask;
        let out = run_history(entry, hist, &p, space.groups, false, false);
        bump(&counters.fault_runs);
        if out.refused > 0 {
            bump(&counters.alloc_failed);
        }
        if let Some((_, step, msg)) = out.viol {
            let mut v = violations.lock().unwrap();
            v.push(ViolRec {
                cfg: entry.cfg.name(),
                params: p.describe(),
                history: history_to_string(hist),
                len: hist.len(),
                step,
                msg,
                replay_args: replay_args(entry, &p, hist),
            });
            if v.len() >= space.max_violations {
                stop.store(true, Ordering::Relaxed);
            }
            continue;
        }
        if size < max_set {
            for k in (hi + 1..out.calls.min(62)).rev() {
                stack.push((mask | 1u64 << k, k, size + 1));
            }
        }
    }
}

pub fn report_json(space: &Space<'_>, r: &Report, tier: &str, seed: u64) -> J {
    let mut cov = J::obj();
    cov.put("states", r.states);
    cov.put("transitions", r.histories + r.fault_runs);
    cov.put("traces_validated_against_impl", r.histories + r.fault_runs);
    cov.put("evaluations", r.histories + r.fault_runs);
    cov.put("distinct_nontrivial", r.nontrivial);
    cov.put("rule", space.nontrivial_rule);
    cov.put("samples", r.samples.clone());
    cov.put("exhaustive", !r.capped && r.completed_depth == space.depth);
    cov.put("completed_depth", r.completed_depth);
    cov.put("depth_bound", space.depth);
    cov.put("histories_per_level", r.per_level.clone());
    cov.put("fault_runs", r.fault_runs);
    cov.put("fault_mode", format!("{:?}", space.fault));
    cov.put("alphabet_size", r.alphabet);
    cov.put("alphabet", space.alphabet.iter().map(|o| o.to_string()).collect::<Vec<_>>());
    cov.put("configurations", space.configs.iter().map(|c| c.cfg.name()).collect::<Vec<_>>());
    cov.put("run_parameters", space.params.iter().map(|p| p.describe()).collect::<Vec<_>>());
    let mut vac = J::obj();
    for (k, v) in &r.counters {
        vac.put(k, *v);
    }
    cov.put("vacuity_counters", vac);
    J::obj()
        .set("property_id", space.prop)
        .set("tier", tier)
        .set("seed", seed)
        .set("level", if space.fault != FaultMode::None { "fault_enumeration" } else { "model_checking" })
        .set("coverage", cov)
        .set("wall_s", r.wall_s)
        .set("violations", r.violations.len())
}

pub fn default_deadline(secs: u64) -> Instant {
    Instant::now() + Duration::from_secs(secs)
}
