//! C15: exclusive-borrow collections (`MutBumpVec`, `MutBumpVecRev`, `MutBumpString`) and the `*_mut` allocation
//! helpers, driven on the real arena. The generic part below is monomorphised per configuration; it records the
//! bump position of every chunk at each phase so that the (non-generic) oracle in `exec.rs` can judge them.

use bump_scope::{
    BaseAllocator, BumpScope, MutBumpString, MutBumpVec, MutBumpVecRev,
    settings::BumpAllocatorSettings,
    stats::Stats,
    traits::MutBumpAllocatorCoreScope,
};
use std::panic::{AssertUnwindSafe, catch_unwind};
use std::ptr::NonNull;

use crate::facade::{Align32, Blk};
use crate::slab::SlabKind;

#[derive(Clone, Copy, Debug, PartialEq, Eq, Hash)]
pub enum MutKind {
    Vec,
    VecRev,
    Str,
    IterMut,
    IterMutRev,
    FmtMut,
    CstrFmtMut,
    /// MutBumpVec / MutBumpVecRev whose allocator is `&mut dyn MutBumpAllocatorCoreScope` (trait-object path)
    VecDyn,
    VecRevDyn,
    /// `alloc_try_with_mut`: Finalise = closure returns Ok, Drop = closure returns Err, Unwind = closure panics
    TryWithMut,
}

#[derive(Clone, Copy, Debug, PartialEq, Eq, Hash)]
pub enum MutEnd {
    Drop,
    /// a user callback (element constructor, iterator, Display) panics while filling
    Unwind,
    /// `into_slice` / `into_str` / normal return of the helper
    Finalise,
    /// `into_boxed_slice` / `into_boxed_str`
    FinaliseBoxed,
    /// `into_cstr` (strings only)
    FinaliseCstr,
}

#[derive(Clone, Copy, Debug, PartialEq, Eq, Hash)]
pub enum MutExtra {
    None,
    Reserve(u8),
    ReserveExact(u8),
    /// `extend` with an iterator of n items whose size_hint under-reports (0, None)
    ExtendUnder(u8),
    /// `extend` with an iterator of n items whose size_hint over-reports (n+50, Some(n+50))
    ExtendOver(u8),
    /// `extend_from_within_copy(..)` / `extend_from_within(..)` of the whole contents: doubles the collection, which for
    /// all but the smallest has to grow into another chunk inside this very call
    WithinCopy,
}

#[derive(Clone, Copy, Debug, PartialEq, Eq, Hash)]
pub struct MutSpec {
    pub kind: MutKind,
    /// element type code: 0 = (), 1 = u8, 3 = [u8;3], 8 = u64, 24 = [u64;3], 32 = Align32
    pub elem: u8,
    /// 255 = `new_in`; vectors only: 254 = `from_iter_in`, 253 = `from_iter_exact_in`, 252 = `from_owned_slice_in`,
    /// 251 = `from_elem_in` (three elements each); otherwise `with_capacity_in(cap)`
    pub cap: u8,
    pub pushes: u8,
    pub extra: MutExtra,
    pub end: MutEnd,
}

#[derive(Clone, Debug, Default)]
pub struct PosSnap {
    pub tag: &'static str,
    /// (chunk_start, content_start, content_end, pos) of every chunk, small to big
    pub chunks: Vec<(usize, usize, usize, usize)>,
}

#[derive(Clone, Debug, Default)]
pub struct MutReport {
    pub snaps: Vec<PosSnap>,
    pub result: Option<Blk>,
    pub len: usize,
    pub content_ok: bool,
    pub panicked: bool,
    pub unexpected: Option<String>,
    pub elem_size: usize,
    pub elem_align: usize,
    /// `alloc_try_with_mut` only: size of the `Result<T, E>` slot the value is constructed in
    pub slot_size: usize,
}

fn snap<A, S: BumpAllocatorSettings>(st: Option<Stats<'_, A, S>>, fallback: Stats<'_, A, S>, tag: &'static str, rep: &mut MutReport) {
    // `st0` was taken before the collection existed; if the arena was unallocated then, use the collection's view
    let st = match st {
        Some(s) if s.current_chunk().is_some() => s,
        _ => fallback,
    };
    // Chunks after the current one are unused: the position stored in them is stale by design (it is only reset when
    // such a chunk becomes current again), so they are recorded as empty.
    let cur = st.current_chunk().map(|c| c.chunk_start().as_ptr() as usize);
    let mut after_current = false;
    let up = S::UP;
    let chunks = st
        .small_to_big()
        .map(|c| {
            let (cs, lo, hi) = (c.chunk_start().as_ptr() as usize, c.content_start().as_ptr() as usize, c.content_end().as_ptr() as usize);
            let pos = if after_current { if up { lo } else { hi } } else { c.bump_position().as_ptr() as usize };
            if Some(cs) == cur {
                after_current = true;
            }
            (cs, lo, hi, pos)
        })
        .collect();
    rep.snaps.push(PosSnap { tag, chunks });
}

pub trait Elem: Sized + Copy + 'static {
    fn make(i: usize) -> Self;
    fn ok(&self, i: usize) -> bool;
}
impl Elem for () {
    fn make(_: usize) {}
    fn ok(&self, _: usize) -> bool {
        true
    }
}
impl Elem for u8 {
    fn make(i: usize) -> u8 {
        (i * 7 + 3) as u8
    }
    fn ok(&self, i: usize) -> bool {
        *self == (i * 7 + 3) as u8
    }
}
impl Elem for [u8; 3] {
    fn make(i: usize) -> Self {
        [i as u8, (i + 1) as u8, (i * 3) as u8]
    }
    fn ok(&self, i: usize) -> bool {
        *self == Self::make(i)
    }
}
impl Elem for u64 {
    fn make(i: usize) -> u64 {
        0x0101_0101_0101_0101u64.wrapping_mul(i as u64 + 1)
    }
    fn ok(&self, i: usize) -> bool {
        *self == Self::make(i)
    }
}
impl Elem for [u64; 3] {
    fn make(i: usize) -> Self {
        [i as u64, !(i as u64), 0xABCD_0000 + i as u64]
    }
    fn ok(&self, i: usize) -> bool {
        *self == Self::make(i)
    }
}
impl Elem for Align32 {
    fn make(i: usize) -> Self {
        Align32([(i as u8).wrapping_mul(5).wrapping_add(1); 32])
    }
    fn ok(&self, i: usize) -> bool {
        self.0 == Self::make(i).0
    }
}

struct LyingIter<T> {
    next: usize,
    end: usize,
    hint: (usize, Option<usize>),
    panic_at: Option<usize>,
    _t: std::marker::PhantomData<T>,
}
impl<T: Elem> Iterator for LyingIter<T> {
    type Item = T;
    fn next(&mut self) -> Option<T> {
        if Some(self.next) == self.panic_at {
            std::panic::resume_unwind(Box::new(CallbackPanic));
        }
        if self.next >= self.end {
            return None;
        }
        let v = T::make(self.next);
        self.next += 1;
        Some(v)
    }
    fn size_hint(&self) -> (usize, Option<usize>) {
        self.hint
    }
}

pub struct CallbackPanic;

struct PanickyDisplay {
    bytes: usize,
    panic_after: Option<usize>,
    with_nul: bool,
}
impl std::fmt::Display for PanickyDisplay {
    fn fmt(&self, f: &mut std::fmt::Formatter<'_>) -> std::fmt::Result {
        for i in 0..self.bytes {
            if Some(i) == self.panic_after {
                std::panic::resume_unwind(Box::new(CallbackPanic));
            }
            let c = if self.with_nul && (i == self.bytes / 2 || i + 2 == self.bytes) { '\0' } else { (b'a' + (i % 26) as u8) as char };
            f.write_str(c.encode_utf8(&mut [0; 4]))?;
        }
        if self.panic_after.is_some() {
            std::panic::resume_unwind(Box::new(CallbackPanic));
        }
        Ok(())
    }
}

fn run_vec<'a, A, S, T: Elem>(scope: &mut BumpScope<'a, A, S>, spec: &MutSpec, rep: &mut MutReport)
where
    A: BaseAllocator<S::GuaranteedAllocated> + SlabKind,
    S: BumpAllocatorSettings + 'static,
{
    rep.elem_size = size_of::<T>();
    rep.elem_align = align_of::<T>();
    let st0 = scope.stats();
    let had_chunk = st0.current_chunk().is_some();
    let st0 = if had_chunk { Some(st0) } else { None };
    let rev = spec.kind == MutKind::VecRev;
    // expected logical contents in *push order*
    let mut pushed = 0usize;
    let mut doubled = false;
    macro_rules! body {
        ($Vec:ident) => {{
            let r = catch_unwind(AssertUnwindSafe(|| {
                // cap 251..=254: the other constructors, each producing three elements (rewritten below to what three
                // pushes would have left, so that the rest of the driver and the content oracle stay the same)
                let mut v: $Vec<T, &mut BumpScope<'a, A, S>> = match spec.cap {
                    255 => $Vec::new_in(&mut *scope),
                    254 => $Vec::from_iter_in(LyingIter::<T> { next: 0, end: 3, hint: (0, None), panic_at: None, _t: std::marker::PhantomData }, &mut *scope),
                    253 => $Vec::from_iter_exact_in((0..3usize).map(T::make), &mut *scope),
                    252 => $Vec::from_owned_slice_in(vec![T::make(0), T::make(1), T::make(2)], &mut *scope),
                    251 => $Vec::from_elem_in(T::make(0), 3, &mut *scope),
                    c => $Vec::with_capacity_in(c as usize, &mut *scope),
                };
                if (251..=254).contains(&spec.cap) {
                    if v.len() != 3 {
                        rep.unexpected = Some(format!("constructor {} produced {} elements instead of 3", spec.cap, v.len()));
                    }
                    for (i, e) in v.iter_mut().enumerate() {
                        *e = T::make(if rev { 2 - i.min(2) } else { i });
                    }
                    pushed = 3;
                }
                snap(st0, v.allocator_stats(), "created", rep);
                let need = match spec.cap {
                    255 => 0,
                    251..=254 => 3,
                    c => c as usize,
                };
                if v.capacity() < need {
                    rep.unexpected = Some(format!("constructor {} reports capacity {}", spec.cap, v.capacity()));
                }
                for _ in 0..spec.pushes {
                    v.push(T::make(pushed));
                    pushed += 1;
                    if pushed.is_power_of_two() || pushed == spec.pushes as usize {
                        snap(st0, v.allocator_stats(), "pushed", rep);
                    }
                }
                match spec.extra {
                    MutExtra::None => {}
                    MutExtra::Reserve(n) | MutExtra::ReserveExact(n) => {
                        if matches!(spec.extra, MutExtra::Reserve(_)) { v.reserve(n as usize) } else { v.reserve_exact(n as usize) }
                        if v.capacity() - v.len() < n as usize {
                            rep.unexpected = Some(format!("reserve({n}) left spare capacity {}", v.capacity() - v.len()));
                        }
                        snap(st0, v.allocator_stats(), "reserved", rep);
                    }
                    MutExtra::ExtendUnder(n) | MutExtra::ExtendOver(n) => {
                        let n = n as usize;
                        let hint = if matches!(spec.extra, MutExtra::ExtendUnder(_)) { (0, None) } else { (n + 50, Some(n + 50)) };
                        // the reverse vector's `extend` prepends one by one, i.e. it behaves like repeated push
                        v.extend(LyingIter::<T> { next: pushed, end: pushed + n, hint, panic_at: None, _t: std::marker::PhantomData });
                        pushed += n;
                        snap(st0, v.allocator_stats(), "extended", rep);
                    }
                    MutExtra::WithinCopy => {
                        v.extend_from_within_copy(..);
                        doubled = true;
                        snap(st0, v.allocator_stats(), "extended", rep);
                    }
                }
                if v.len() != if doubled { 2 * pushed } else { pushed } {
                    rep.unexpected = Some(format!("len() is {} after {} pushes", v.len(), pushed));
                }
                match spec.end {
                    MutEnd::Drop => {
                        drop(v);
                        None
                    }
                    MutEnd::Unwind => {
                        v.push_with(|| std::panic::resume_unwind(Box::new(CallbackPanic)));
                        None
                    }
                    MutEnd::Finalise | MutEnd::FinaliseCstr => {
                        let s: &'a mut [T] = v.into_slice();
                        Some((NonNull::new(s.as_mut_ptr()).unwrap(), s.len()))
                    }
                    MutEnd::FinaliseBoxed => {
                        let b = v.into_boxed_slice();
                        let len = b.len();
                        let p = b.into_raw();
                        Some((p.cast::<T>(), len))
                    }
                }
            }));
            r
        }};
    }
    let r = if rev { body!(MutBumpVecRev) } else { body!(MutBumpVec) };
    match r {
        Ok(Some((ptr, len))) => {
            rep.len = len;
            rep.result = Some(Blk { ptr: ptr.cast(), len: len * size_of::<T>(), align: align_of::<T>() });
            // contents: push order for MutBumpVec, reversed for MutBumpVecRev
            let s = unsafe { std::slice::from_raw_parts(ptr.as_ptr(), len) };
            let total = if doubled { 2 * pushed } else { pushed };
            rep.content_ok = len == total && s.iter().enumerate().all(|(i, e)| e.ok(if rev { pushed - 1 - i % pushed.max(1) } else { i % pushed.max(1) }));
        }
        Ok(None) => {}
        Err(p) => {
            rep.panicked = true;
            if !p.is::<CallbackPanic>() {
                rep.unexpected = Some(crate::crash::take_last_panic().unwrap_or_else(|| "panic".into()));
            }
        }
    }
    let fin = scope.stats();
    snap(Some(fin), fin, "end", rep);
}

fn run_iter<'a, A, S, T: Elem>(scope: &mut BumpScope<'a, A, S>, spec: &MutSpec, rep: &mut MutReport)
where
    A: BaseAllocator<S::GuaranteedAllocated> + SlabKind,
    S: BumpAllocatorSettings + 'static,
{
    rep.elem_size = size_of::<T>();
    rep.elem_align = align_of::<T>();
    let n = spec.pushes as usize;
    let hint = match spec.extra {
        MutExtra::ExtendUnder(_) => (0, None),
        MutExtra::ExtendOver(_) => (n + 50, Some(n + 50)),
        _ => (n, Some(n)),
    };
    let panic_at = if spec.end == MutEnd::Unwind { Some(n / 2) } else { None };
    let rev = spec.kind == MutKind::IterMutRev;
    let it = LyingIter::<T> { next: 0, end: n, hint, panic_at, _t: std::marker::PhantomData };
    let r = catch_unwind(AssertUnwindSafe(|| {
        let b = if rev { scope.alloc_iter_mut_rev(it) } else { scope.alloc_iter_mut(it) };
        let len = b.len();
        (b.into_raw().cast::<T>(), len)
    }));
    match r {
        Ok((ptr, len)) => {
            rep.len = len;
            rep.result = Some(Blk { ptr: ptr.cast(), len: len * size_of::<T>(), align: align_of::<T>() });
            let s = unsafe { std::slice::from_raw_parts(ptr.as_ptr(), len) };
            rep.content_ok = len == n && s.iter().enumerate().all(|(i, e)| e.ok(if rev { n - 1 - i } else { i }));
        }
        Err(p) => {
            rep.panicked = true;
            if !p.is::<CallbackPanic>() {
                rep.unexpected = Some(crate::crash::take_last_panic().unwrap_or_else(|| "panic".into()));
            }
        }
    }
    let fin = scope.stats();
    snap(Some(fin), fin, "end", rep);
}

fn run_str<'a, A, S>(scope: &mut BumpScope<'a, A, S>, spec: &MutSpec, rep: &mut MutReport)
where
    A: BaseAllocator<S::GuaranteedAllocated> + SlabKind,
    S: BumpAllocatorSettings + 'static,
{
    rep.elem_size = 1;
    rep.elem_align = 1;
    let st0 = scope.stats();
    let st0 = if st0.current_chunk().is_some() { Some(st0) } else { None };
    let mut expect = String::new();
    // a string that ends as a C string gets NULs in two places: `into_cstr` must cut at the first one
    let pieces = if spec.end == MutEnd::FinaliseCstr { ["a", "é", "\0b", "𝄞", "\0"] } else { ["a", "é", "€", "𝄞", "xyz"] };
    let r = catch_unwind(AssertUnwindSafe(|| {
        // cap 250..=254: the other constructors, each starting from the text "aé€" (the last two: invalid input that is
        // replaced by U+FFFD)
        let init = "a\u{e9}\u{20ac}";
        let units: Vec<u16> = init.encode_utf16().collect();
        let mut s: MutBumpString<&mut BumpScope<'a, A, S>> = match spec.cap {
            255 => MutBumpString::new_in(&mut *scope),
            254 => MutBumpString::from_str_in(init, &mut *scope),
            253 => MutBumpString::from_utf8_lossy_in(init.as_bytes(), &mut *scope),
            252 => MutBumpString::from_utf16_in(&units, &mut *scope).unwrap_or_else(|_| unreachable!()),
            251 => MutBumpString::from_utf16_lossy_in(&[0x61, 0xD800, 0x62], &mut *scope),
            250 => MutBumpString::from_utf8_lossy_in(b"a\xFFb\xC3", &mut *scope),
            c => MutBumpString::with_capacity_in(c as usize, &mut *scope),
        };
        match spec.cap {
            252..=254 => expect.push_str(init),
            251 => expect.push_str("a\u{fffd}b"),
            250 => expect.push_str("a\u{fffd}b\u{fffd}"),
            _ => {}
        }
        snap(st0, s.allocator_stats(), "created", rep);
        for i in 0..spec.pushes as usize {
            let p = pieces[i % pieces.len()];
            if i % 2 == 0 {
                s.push_str(p);
            } else {
                s.push(p.chars().next().unwrap());
                // keep the model in sync: push() only took the first char
                expect.push(p.chars().next().unwrap());
                if (i + 1).is_power_of_two() {
                    snap(st0, s.allocator_stats(), "pushed", rep);
                }
                continue;
            }
            expect.push_str(p);
            if (i + 1).is_power_of_two() {
                snap(st0, s.allocator_stats(), "pushed", rep);
            }
        }
        if let MutExtra::Reserve(n) = spec.extra {
            s.reserve(n as usize);
            snap(st0, s.allocator_stats(), "reserved", rep);
        }
        if let MutExtra::ReserveExact(n) = spec.extra {
            s.reserve_exact(n as usize);
            snap(st0, s.allocator_stats(), "reserved", rep);
        }
        if spec.extra == MutExtra::WithinCopy {
            s.extend_from_within(..);
            let twice = expect.clone();
            expect.push_str(&twice);
            snap(st0, s.allocator_stats(), "extended", rep);
        }
        if s.as_str() != expect {
            rep.unexpected = Some("string contents differ from the model while filling".into());
        }
        match spec.end {
            MutEnd::Drop => {
                drop(s);
                None
            }
            MutEnd::Unwind => {
                use std::fmt::Write;
                let _ = write!(s, "{}", PanickyDisplay { bytes: 40, panic_after: Some(20), with_nul: false });
                None
            }
            MutEnd::Finalise => {
                let r: &'a mut str = s.into_str();
                Some((NonNull::new(r.as_mut_ptr()).unwrap(), r.len(), false))
            }
            MutEnd::FinaliseBoxed => {
                let b = s.into_boxed_str();
                let len = b.len();
                Some((b.into_raw().cast::<u8>(), len, false))
            }
            MutEnd::FinaliseCstr => {
                let c = s.into_cstr();
                let all = c.to_bytes_with_nul();
                Some((NonNull::new(c.as_ptr() as *mut u8).unwrap(), all.iter().position(|&b| b == 0).map_or(all.len(), |z| z + 1), true))
            }
        }
    }));
    match r {
        Ok(Some((ptr, len, cstr))) => {
            rep.len = len;
            rep.result = Some(Blk { ptr, len, align: 1 });
            let got = unsafe { std::slice::from_raw_parts(ptr.as_ptr(), len) };
            rep.content_ok = if cstr {
                let want = expect.as_bytes();
                let want = &want[..want.iter().position(|&b| b == 0).unwrap_or(want.len())];
                &got[..len - 1] == want && got[len - 1] == 0
            } else {
                got == expect.as_bytes()
            };
        }
        Ok(None) => {}
        Err(p) => {
            rep.panicked = true;
            if !p.is::<CallbackPanic>() {
                rep.unexpected = Some(crate::crash::take_last_panic().unwrap_or_else(|| "panic".into()));
            }
        }
    }
    let fin = scope.stats();
    snap(Some(fin), fin, "end", rep);
}

fn run_fmt<'a, A, S>(scope: &mut BumpScope<'a, A, S>, spec: &MutSpec, rep: &mut MutReport)
where
    A: BaseAllocator<S::GuaranteedAllocated> + SlabKind,
    S: BumpAllocatorSettings + 'static,
{
    rep.elem_size = 1;
    rep.elem_align = 1;
    let n = spec.pushes as usize * 4;
    let cstr = spec.kind == MutKind::CstrFmtMut;
    let d = PanickyDisplay { bytes: n, panic_after: if spec.end == MutEnd::Unwind { Some(n / 2) } else { None }, with_nul: cstr && spec.cap == 0 && n > 2 };
    let mut expect: Vec<u8> = (0..n).map(|i| if d.with_nul && (i == n / 2 || i + 2 == n) { 0 } else { b'a' + (i % 26) as u8 }).collect();
    if cstr {
        if let Some(z) = expect.iter().position(|&b| b == 0) {
            expect.truncate(z);
        }
        expect.push(0);
    }
    let r = catch_unwind(AssertUnwindSafe(|| {
        if cstr {
            let c = scope.alloc_cstr_fmt_mut(format_args!("{d}"));
            // the C string ends at its first NUL, whatever length the slice behind the `CStr` claims
            (NonNull::new(c.as_ptr() as *mut u8).unwrap(), c.to_bytes_with_nul().iter().position(|&b| b == 0).map_or(c.to_bytes_with_nul().len(), |z| z + 1))
        } else {
            let b = scope.alloc_fmt_mut(format_args!("{d}"));
            let len = b.len();
            (b.into_raw().cast::<u8>(), len)
        }
    }));
    match r {
        Ok((ptr, len)) => {
            rep.len = len;
            rep.result = Some(Blk { ptr, len, align: 1 });
            let got = unsafe { std::slice::from_raw_parts(ptr.as_ptr(), len) };
            rep.content_ok = got == &expect[..];
        }
        Err(p) => {
            rep.panicked = true;
            if !p.is::<CallbackPanic>() {
                rep.unexpected = Some(crate::crash::take_last_panic().unwrap_or_else(|| "panic".into()));
            }
        }
    }
    let fin = scope.stats();
    snap(Some(fin), fin, "end", rep);
}

fn run_vec_dyn<'a, A, S, T: Elem>(scope: &mut BumpScope<'a, A, S>, spec: &MutSpec, rep: &mut MutReport)
where
    A: BaseAllocator<S::GuaranteedAllocated> + SlabKind,
    S: BumpAllocatorSettings + 'static,
{
    rep.elem_size = size_of::<T>();
    rep.elem_align = align_of::<T>();
    let rev = spec.kind == MutKind::VecRevDyn;
    let mut pushed = 0usize;
    macro_rules! body {
        ($Vec:ident) => {{
            catch_unwind(AssertUnwindSafe(|| {
                let d: &mut dyn MutBumpAllocatorCoreScope<'a> = &mut *scope;
                let mut v: $Vec<T, &mut dyn MutBumpAllocatorCoreScope<'a>> = if spec.cap == 255 { $Vec::new_in(d) } else { $Vec::with_capacity_in(spec.cap as usize, d) };
                for _ in 0..spec.pushes {
                    v.push(T::make(pushed));
                    pushed += 1;
                }
                if let MutExtra::Reserve(n) = spec.extra {
                    v.reserve(n as usize);
                }
                if let MutExtra::ReserveExact(n) = spec.extra {
                    v.reserve_exact(n as usize);
                }
                match spec.end {
                    MutEnd::Drop => {
                        drop(v);
                        None
                    }
                    MutEnd::Unwind => {
                        v.push_with(|| std::panic::resume_unwind(Box::new(CallbackPanic)));
                        None
                    }
                    MutEnd::Finalise | MutEnd::FinaliseCstr => {
                        let s: &'a mut [T] = v.into_slice();
                        Some((NonNull::new(s.as_mut_ptr()).unwrap(), s.len()))
                    }
                    MutEnd::FinaliseBoxed => {
                        let b = v.into_boxed_slice();
                        let len = b.len();
                        Some((b.into_raw().cast::<T>(), len))
                    }
                }
            }))
        }};
    }
    let r = if rev { body!(MutBumpVecRev) } else { body!(MutBumpVec) };
    match r {
        Ok(Some((ptr, len))) => {
            rep.len = len;
            rep.result = Some(Blk { ptr: ptr.cast(), len: len * size_of::<T>(), align: align_of::<T>() });
            let s = unsafe { std::slice::from_raw_parts(ptr.as_ptr(), len) };
            rep.content_ok = len == pushed && s.iter().enumerate().all(|(i, e)| e.ok(if rev { pushed - 1 - i } else { i }));
        }
        Ok(None) => {}
        Err(p) => {
            rep.panicked = true;
            if !p.is::<CallbackPanic>() {
                rep.unexpected = Some(crate::crash::take_last_panic().unwrap_or_else(|| "panic".into()));
            }
        }
    }
    let fin = scope.stats();
    snap(Some(fin), fin, "end", rep);
}

fn run_try_with_e<'a, A, S, T: Elem, E: Copy + PartialEq + 'static>(err: E, scope: &mut BumpScope<'a, A, S>, spec: &MutSpec, rep: &mut MutReport)
where
    A: BaseAllocator<S::GuaranteedAllocated> + SlabKind,
    S: BumpAllocatorSettings + 'static,
{
    rep.elem_size = size_of::<T>();
    rep.elem_align = align_of::<T>();
    rep.slot_size = size_of::<Result<T, E>>();
    let end = spec.end;
    let try_ = spec.cap == 0;
    let r = catch_unwind(AssertUnwindSafe(|| {
        let f = || -> Result<T, E> {
            match end {
                MutEnd::Unwind => std::panic::resume_unwind(Box::new(CallbackPanic)),
                MutEnd::Drop => Err(err),
                _ => Ok(T::make(5)),
            }
        };
        let r = if try_ {
            match scope.try_alloc_try_with_mut(f) {
                Ok(r) => r,
                Err(_) => return Err("try_alloc_try_with_mut reported an allocation failure".to_string()),
            }
        } else {
            scope.alloc_try_with_mut(f)
        };
        Ok(match r {
            Ok(b) => Some(b.into_raw()),
            Err(e) => {
                if e != err {
                    return Err("the error value of the closure was not handed back".to_string());
                }
                None
            }
        })
    }));
    match r {
        Ok(Ok(Some(ptr))) => {
            rep.len = 1;
            rep.result = Some(Blk { ptr: ptr.cast(), len: size_of::<T>(), align: align_of::<T>() });
            rep.content_ok = end != MutEnd::Drop && unsafe { ptr.as_ref() }.ok(5);
        }
        Ok(Ok(None)) => {
            if end != MutEnd::Drop {
                rep.unexpected = Some("alloc_try_with_mut returned Err although the closure returned Ok".into());
            }
        }
        Ok(Err(m)) => rep.unexpected = Some(m),
        Err(p) => {
            rep.panicked = true;
            if !p.is::<CallbackPanic>() {
                rep.unexpected = Some(crate::crash::take_last_panic().unwrap_or_else(|| "panic".into()));
            }
        }
    }
    let fin = scope.stats();
    snap(Some(fin), fin, "end", rep);
}

/// `extra == Reserve(1)` selects an error type that is larger than every element type (the value then ends before
/// the end of the `Result` slot)
fn run_try_with<'a, A, S, T: Elem>(scope: &mut BumpScope<'a, A, S>, spec: &MutSpec, rep: &mut MutReport)
where
    A: BaseAllocator<S::GuaranteedAllocated> + SlabKind,
    S: BumpAllocatorSettings + 'static,
{
    if matches!(spec.extra, MutExtra::Reserve(1)) {
        run_try_with_e::<A, S, T, [u64; 6]>([7; 6], scope, spec, rep)
    } else {
        run_try_with_e::<A, S, T, u8>(7, scope, spec, rep)
    }
}

/// compile-time switch: only configurations whose allocator kind selects `Enabled` instantiate the drivers
pub trait MutCollSwitch {
    fn run<'a, A, S>(scope: &mut BumpScope<'a, A, S>, spec: &MutSpec, rep: &mut MutReport)
    where
        A: BaseAllocator<S::GuaranteedAllocated> + SlabKind,
        S: BumpAllocatorSettings + 'static;
}
pub struct Enabled;
pub struct Disabled;
impl MutCollSwitch for Enabled {
    fn run<'a, A, S>(scope: &mut BumpScope<'a, A, S>, spec: &MutSpec, rep: &mut MutReport)
    where
        A: BaseAllocator<S::GuaranteedAllocated> + SlabKind,
        S: BumpAllocatorSettings + 'static,
    {
        run_mut_coll(scope, spec, rep)
    }
}
impl MutCollSwitch for Disabled {
    fn run<'a, A, S>(_scope: &mut BumpScope<'a, A, S>, _spec: &MutSpec, rep: &mut MutReport)
    where
        A: BaseAllocator<S::GuaranteedAllocated> + SlabKind,
        S: BumpAllocatorSettings + 'static,
    {
        *rep = MutReport::default();
        rep.unexpected = Some("this configuration was built without the C15 collection drivers".into());
    }
}

pub fn run_mut_coll<'a, A, S>(scope: &mut BumpScope<'a, A, S>, spec: &MutSpec, rep: &mut MutReport)
where
    A: BaseAllocator<S::GuaranteedAllocated> + SlabKind,
    S: BumpAllocatorSettings + 'static,
{
    *rep = MutReport::default();
    let st = scope.stats();
    snap(Some(st), st, "before", rep);
    macro_rules! by_elem {
        ($f:ident) => {
            match spec.elem {
                0 => $f::<A, S, ()>(scope, spec, rep),
                1 => $f::<A, S, u8>(scope, spec, rep),
                3 => $f::<A, S, [u8; 3]>(scope, spec, rep),
                8 => $f::<A, S, u64>(scope, spec, rep),
                24 => $f::<A, S, [u64; 3]>(scope, spec, rep),
                32 => $f::<A, S, Align32>(scope, spec, rep),
                _ => unreachable!(),
            }
        };
    }
    match spec.kind {
        MutKind::Vec | MutKind::VecRev => by_elem!(run_vec),
        MutKind::IterMut | MutKind::IterMutRev => by_elem!(run_iter),
        MutKind::Str => run_str(scope, spec, rep),
        MutKind::FmtMut | MutKind::CstrFmtMut => run_fmt(scope, spec, rep),
        MutKind::TryWithMut => by_elem!(run_try_with),
        MutKind::VecDyn | MutKind::VecRevDyn => by_elem!(run_vec_dyn),
    }
}
