//! Deterministic instrumented base allocator (DESIGN.md §2.1).
//!
//! All state is thread-local so that every explorer worker owns an independent substrate.
//! Two substrates per thread (index 0 / 1) exist so that lock-step runs (C17) get identical
//! placement for two arenas.

use bump_scope::alloc::{AllocError, Allocator};
use std::{alloc::Layout, cell::RefCell, ptr::NonNull};

pub const CANARY: usize = 64;
pub const CANARY_BYTE: u8 = 0xCA;
pub const POISON_BYTE: u8 = 0xDE;
pub const FRESH_BYTE: u8 = 0xDD;
const SLAB_BYTES: usize = 8 << 20;
const PAGE: usize = 4096;

#[derive(Clone, Copy, Debug, PartialEq, Eq)]
pub struct Grant {
    pub seq: u32,
    pub addr: usize,
    pub req_size: usize,
    pub align: usize,
    pub granted: usize,
    pub ident: u64,
    pub released: bool,
    pub release_size: usize,
}

/// `phase` value that selects the packed substrate: grants are placed back to back (no canaries, no page phase), like a
/// region allocator would; consecutive chunks are then exactly adjacent in memory
pub const PACKED_PHASE: usize = 4095;

#[derive(Clone, Copy, Debug, Default)]
pub struct SlabCfg {
    /// address of every grant is ≡ phase (mod 4096) (rounded up to the requested alignment)
    pub phase: usize,
    /// extra bytes handed out on top of the requested size
    pub overgrant: usize,
    /// bitmask of allocate-call indices (counted from `reset`) that are refused; bit 63 = refuse everything ≥ 63
    pub fail_mask: u64,
}

pub struct Slab {
    base: *mut u8,
    next: usize,
    pub cfg: SlabCfg,
    pub calls: u32,
    pub refused: u32,
    pub grants: Vec<Grant>,
    pub errors: Vec<String>,
}

impl Slab {
    fn new() -> Self {
        let layout = Layout::from_size_align(SLAB_BYTES, PAGE).unwrap();
        let base = unsafe { std::alloc::alloc(layout) };
        assert!(!base.is_null());
        Slab { base, next: 0, cfg: SlabCfg::default(), calls: 0, refused: 0, grants: Vec::new(), errors: Vec::new() }
    }

    pub fn reset(&mut self, cfg: SlabCfg) {
        self.next = 0;
        self.cfg = cfg;
        self.calls = 0;
        self.refused = 0;
        self.grants.clear();
        self.errors.clear();
    }

    fn allocate(&mut self, layout: Layout, ident: u64) -> Result<NonNull<[u8]>, AllocError> {
        let idx = self.calls;
        self.calls += 1;
        let bit = idx.min(63);
        if self.cfg.fail_mask >> bit & 1 == 1 {
            self.refused += 1;
            return Err(AllocError);
        }
        let granted = match layout.size().checked_add(self.cfg.overgrant) {
            Some(g) if g <= isize::MAX as usize / 2 => g,
            _ => {
                self.refused += 1;
                return Err(AllocError);
            }
        };
        let align = layout.align();
        if self.cfg.phase == PACKED_PHASE {
            let cur = self.base as usize + self.next.max(CANARY);
            let a = (cur + align - 1) & !(align - 1);
            let off = a - self.base as usize;
            let end = off + granted;
            if end + CANARY > SLAB_BYTES {
                self.refused += 1;
                return Err(AllocError);
            }
            self.next = end;
            unsafe {
                let p = self.base.add(off);
                std::ptr::write_bytes(p, FRESH_BYTE, granted);
                self.grants.push(Grant { seq: idx, addr: p as usize, req_size: layout.size(), align, granted, ident, released: false, release_size: 0 });
                return Ok(NonNull::slice_from_raw_parts(NonNull::new_unchecked(p), granted));
            }
        }
        // placement: next page boundary (leaving a canary page fraction) + phase rounded to align
        let big = align.max(PAGE);
        let phase = ((self.cfg.phase + align - 1) & !(align - 1)) % big;
        let cur = self.base as usize + self.next + CANARY;
        let mut a = (cur & !(big - 1)) + phase;
        if a < cur {
            a += big;
        }
        let off = a - self.base as usize;
        let end = off + granted + CANARY;
        if end > SLAB_BYTES {
            // the substrate cannot serve it: behave like a failing allocator (huge requests)
            self.refused += 1;
            return Err(AllocError);
        }
        self.next = end;
        unsafe {
            let p = self.base.add(off);
            std::ptr::write_bytes(p.sub(CANARY), CANARY_BYTE, CANARY);
            std::ptr::write_bytes(p, FRESH_BYTE, granted);
            std::ptr::write_bytes(p.add(granted), CANARY_BYTE, CANARY);
            debug_assert_eq!(p as usize % align, 0);
            self.grants.push(Grant {
                seq: idx,
                addr: p as usize,
                req_size: layout.size(),
                align,
                granted,
                ident,
                released: false,
                release_size: 0,
            });
            Ok(NonNull::slice_from_raw_parts(NonNull::new_unchecked(p), granted))
        }
    }

    fn deallocate(&mut self, ptr: NonNull<u8>, layout: Layout, ident: u64) {
        let addr = ptr.as_ptr() as usize;
        let Some(g) = self.grants.iter_mut().find(|g| g.addr == addr) else {
            self.errors.push(format!("deallocate of unknown pointer {addr:#x} layout {layout:?}"));
            return;
        };
        if g.released {
            self.errors.push(format!("double release of grant #{} ({}B)", g.seq, g.req_size));
            return;
        }
        if layout.align() != g.align {
            self.errors.push(format!("grant #{} released with align {} but was requested with {}", g.seq, layout.align(), g.align));
        }
        if layout.size() < g.req_size || layout.size() > g.granted {
            self.errors.push(format!(
                "grant #{} released with size {} outside [{}, {}]",
                g.seq,
                layout.size(),
                g.req_size,
                g.granted
            ));
        }
        if ident != g.ident {
            self.errors.push(format!("grant #{} released through allocator identity {} but granted by {}", g.seq, ident, g.ident));
        }
        g.released = true;
        g.release_size = layout.size();
        unsafe { std::ptr::write_bytes(addr as *mut u8, POISON_BYTE, g.granted) };
    }

    /// Verifies canaries of all grants and poison of released grants.
    pub fn check_guards(&self) -> Result<(), String> {
        let packed = self.cfg.phase == PACKED_PHASE;
        for g in &self.grants {
            unsafe {
                let p = g.addr as *const u8;
                for i in 0..if packed { 0 } else { CANARY } {
                    if *p.sub(i + 1) != CANARY_BYTE {
                        return Err(format!("byte {} before grant #{} was overwritten", i + 1, g.seq));
                    }
                    if *p.add(g.granted + i) != CANARY_BYTE {
                        return Err(format!("byte {} after the end of grant #{} ({} granted) was overwritten", i, g.seq, g.granted));
                    }
                }
                if g.released {
                    for i in 0..g.granted {
                        if *p.add(i) != POISON_BYTE {
                            return Err(format!("byte {} of grant #{} was written after its release", i, g.seq));
                        }
                    }
                }
            }
        }
        Ok(())
    }

    pub fn outstanding(&self) -> usize {
        self.grants.iter().filter(|g| !g.released).count()
    }

    pub fn live_grant_containing(&self, addr: usize, len: usize) -> Option<&Grant> {
        self.grants.iter().find(|g| !g.released && addr >= g.addr && addr + len <= g.addr + g.granted)
    }
}

thread_local! {
    static SLABS: RefCell<[Option<Slab>; 2]> = const { RefCell::new([None, None]) };
    static CURRENT: std::cell::Cell<usize> = const { std::cell::Cell::new(0) };
}

pub fn select(idx: usize) {
    CURRENT.with(|c| c.set(idx));
}

pub fn with_slab<R>(idx: usize, f: impl FnOnce(&mut Slab) -> R) -> R {
    SLABS.with(|s| {
        let mut s = s.borrow_mut();
        let slot = &mut s[idx];
        if slot.is_none() {
            *slot = Some(Slab::new());
        }
        f(slot.as_mut().unwrap())
    })
}

pub fn with_current<R>(f: impl FnOnce(&mut Slab) -> R) -> R {
    with_slab(CURRENT.with(|c| c.get()), f)
}

pub fn reset(idx: usize, cfg: SlabCfg) {
    with_slab(idx, |s| s.reset(cfg));
}

/// Allocator kinds: their *value layout* changes `ChunkHeader<A>`.
pub trait SlabKind: Allocator + Clone + Default + 'static {
    const NAME: &'static str;
    /// whether the (compile-time heavy) exclusive-borrow collection drivers of C15 are instantiated for this kind
    type MutColl: crate::mutcoll::MutCollSwitch;
    fn ident(&self) -> u64;
}

macro_rules! impl_alloc {
    ($t:ty) => {
        unsafe impl Allocator for $t {
            fn allocate(&self, layout: Layout) -> Result<NonNull<[u8]>, AllocError> {
                let id = SlabKind::ident(self);
                with_current(|s| s.allocate(layout, id))
            }
            unsafe fn deallocate(&self, ptr: NonNull<u8>, layout: Layout) {
                let id = SlabKind::ident(self);
                with_current(|s| s.deallocate(ptr, layout, id))
            }
        }
    };
}

/// zero-sized allocator value: header = 32 bytes, align 16
#[derive(Clone, Copy, Default, Debug)]
pub struct SlabZ;
impl SlabKind for SlabZ {
    const NAME: &'static str = "Z";
    type MutColl = crate::mutcoll::Disabled;
    fn ident(&self) -> u64 {
        0
    }
}
impl_alloc!(SlabZ);

/// zero-sized allocator value with the C15 collection drivers enabled
#[derive(Clone, Copy, Default, Debug)]
pub struct SlabM;
impl SlabKind for SlabM {
    const NAME: &'static str = "M";
    type MutColl = crate::mutcoll::Enabled;
    fn ident(&self) -> u64 {
        0
    }
}
impl_alloc!(SlabM);

/// stateful 8-byte allocator value: header = 48 bytes, align 16
#[derive(Clone, Copy, Debug)]
pub struct SlabS8 {
    pub id: u64,
}
impl Default for SlabS8 {
    fn default() -> Self {
        SlabS8 { id: 0x5151_5151_5151_5151 }
    }
}
impl SlabKind for SlabS8 {
    const NAME: &'static str = "S8";
    type MutColl = crate::mutcoll::Disabled;
    fn ident(&self) -> u64 {
        self.id
    }
}
impl_alloc!(SlabS8);

/// over-aligned allocator value: header = 64 bytes, align 32
#[derive(Clone, Copy, Debug)]
#[repr(align(32))]
pub struct SlabA32 {
    pub id: u64,
}
impl Default for SlabA32 {
    fn default() -> Self {
        SlabA32 { id: 0xA32A_32A3_2A32_A32A }
    }
}
impl SlabKind for SlabA32 {
    const NAME: &'static str = "A32";
    type MutColl = crate::mutcoll::Disabled;
    fn ident(&self) -> u64 {
        self.id
    }
}
impl_alloc!(SlabA32);

/// Generic padded allocator value for C12: `Pad<SIZE, ALIGN>`.
macro_rules! pad_alloc {
    ($name:ident, $align:literal) => {
        #[derive(Clone, Copy, Debug)]
        #[repr(align($align))]
        pub struct $name<const SIZE: usize>(pub [u8; SIZE]);
        impl<const SIZE: usize> Default for $name<SIZE> {
            fn default() -> Self {
                $name([0x77; SIZE])
            }
        }
        impl<const SIZE: usize> SlabKind for $name<SIZE> {
            const NAME: &'static str = concat!("Pad", stringify!($align));
            type MutColl = crate::mutcoll::Disabled;
            fn ident(&self) -> u64 {
                0x77
            }
        }
        unsafe impl<const SIZE: usize> Allocator for $name<SIZE> {
            fn allocate(&self, layout: Layout) -> Result<NonNull<[u8]>, AllocError> {
                with_current(|s| s.allocate(layout, 0x77))
            }
            unsafe fn deallocate(&self, ptr: NonNull<u8>, layout: Layout) {
                with_current(|s| s.deallocate(ptr, layout, 0x77))
            }
        }
    };
}
pad_alloc!(Pad1, 1);
pad_alloc!(Pad8, 8);
pad_alloc!(Pad16, 16);
pad_alloc!(Pad64, 64);
pad_alloc!(Pad256, 256);
