//! Minimal JSON value + writer (no external crates are needed for the engines' result lines).
use std::fmt::Write;

#[derive(Clone, Debug)]
pub enum J {
    Null,
    Bool(bool),
    Int(i128),
    Num(f64),
    Str(String),
    Arr(Vec<J>),
    Obj(Vec<(String, J)>),
}

impl J {
    pub fn obj() -> J {
        J::Obj(Vec::new())
    }
    pub fn set(mut self, k: &str, v: impl Into<J>) -> J {
        if let J::Obj(ref mut o) = self {
            o.push((k.to_string(), v.into()));
        }
        self
    }
    pub fn put(&mut self, k: &str, v: impl Into<J>) {
        if let J::Obj(o) = self {
            if let Some(e) = o.iter_mut().find(|e| e.0 == k) {
                e.1 = v.into();
            } else {
                o.push((k.to_string(), v.into()));
            }
        }
    }
    pub fn write(&self, out: &mut String) {
        match self {
            J::Null => out.push_str("null"),
            J::Bool(b) => out.push_str(if *b { "true" } else { "false" }),
            J::Int(i) => {
                let _ = write!(out, "{i}");
            }
            J::Num(f) => {
                if f.is_finite() {
                    let _ = write!(out, "{f}");
                } else {
                    out.push_str("null");
                }
            }
            J::Str(s) => {
                out.push('"');
                for c in s.chars() {
                    match c {
                        '"' => out.push_str("\\\""),
                        '\\' => out.push_str("\\\\"),
                        '\n' => out.push_str("\\n"),
                        '\r' => out.push_str("\\r"),
                        '\t' => out.push_str("\\t"),
                        c if (c as u32) < 0x20 => {
                            let _ = write!(out, "\\u{:04x}", c as u32);
                        }
                        c => out.push(c),
                    }
                }
                out.push('"');
            }
            J::Arr(a) => {
                out.push('[');
                for (i, v) in a.iter().enumerate() {
                    if i > 0 {
                        out.push(',');
                    }
                    v.write(out);
                }
                out.push(']');
            }
            J::Obj(o) => {
                out.push('{');
                for (i, (k, v)) in o.iter().enumerate() {
                    if i > 0 {
                        out.push(',');
                    }
                    J::Str(k.clone()).write(out);
                    out.push(':');
                    v.write(out);
                }
                out.push('}');
            }
        }
    }
    pub fn to_string(&self) -> String {
        let mut s = String::new();
        self.write(&mut s);
        s
    }
}

impl From<bool> for J {
    fn from(v: bool) -> J {
        J::Bool(v)
    }
}
impl From<&str> for J {
    fn from(v: &str) -> J {
        J::Str(v.to_string())
    }
}
impl From<String> for J {
    fn from(v: String) -> J {
        J::Str(v)
    }
}
impl From<f64> for J {
    fn from(v: f64) -> J {
        J::Num(v)
    }
}
macro_rules! from_int {
    ($($t:ty)*) => {$(impl From<$t> for J { fn from(v: $t) -> J { J::Int(v as i128) } })*};
}
from_int!(u8 u16 u32 u64 usize i32 i64 i128 u128);
impl<T: Into<J>> From<Vec<T>> for J {
    fn from(v: Vec<T>) -> J {
        J::Arr(v.into_iter().map(Into::into).collect())
    }
}
