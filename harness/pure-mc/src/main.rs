//! pure-mc: exhaustive input-lattice enumeration of the bump-pointer arithmetic (C11) and of the chunk-size
//! arithmetic (C12, pure part). The functions under test are compiled from the repository's own source files.
//!
//! usage: pure-mc check --prop C11|C12 --tier quick|thorough [--threads N]
//!        pure-mc replay --prop C11|C12 --case "<k=v ...>"

#![allow(dead_code, unused_imports, unfulfilled_lint_expectations, clippy::all)]

#[path = "/repo/src/bumping.rs"]
mod bumping;
#[path = "/repo/src/chunk/size_config.rs"]
mod size_config;

use bumping::{BumpProps, bump_down, bump_prepare_down, bump_prepare_up, bump_up};
use size_config::ChunkSizeConfig;
use std::alloc::Layout;
use std::collections::HashMap;
use std::panic::{AssertUnwindSafe, catch_unwind};
use std::sync::Mutex;
use std::sync::atomic::{AtomicU64, Ordering};
use std::time::Instant;
use vcore::json::J;

fn arg(args: &[String], name: &str) -> Option<String> {
    args.iter().position(|a| a == name).and_then(|i| args.get(i + 1).cloned())
}

// ----------------------------------------------------------------------------------------------------
// C11
// ----------------------------------------------------------------------------------------------------

#[derive(Clone, Copy, Debug)]
struct Case11 {
    f: u8, // 0 up, 1 down, 2 prepare_up, 3 prepare_down
    start: usize,
    end: usize,
    size: usize,
    align: usize,
    ma: usize,
    hints: u8, // bit0 align_is_const, bit1 size_is_const, bit2 size_is_multiple_of_align
}

impl Case11 {
    fn text(&self) -> String {
        format!("f={} start={} end={} size={} align={} ma={} hints={}", self.f, self.start, self.end, self.size, self.align, self.ma, self.hints)
    }
    fn parse(s: &str) -> Option<Case11> {
        let m: HashMap<&str, usize> = s.split_whitespace().filter_map(|kv| kv.split_once('=')).filter_map(|(k, v)| Some((k, v.parse().ok()?))).collect();
        Some(Case11 { f: *m.get("f")? as u8, start: *m.get("start")?, end: *m.get("end")?, size: *m.get("size")?, align: *m.get("align")?, ma: *m.get("ma")?, hints: *m.get("hints")? as u8 })
    }
    fn props(&self) -> BumpProps {
        BumpProps {
            start: self.start,
            end: self.end,
            layout: Layout::from_size_align(self.size, self.align).unwrap(),
            min_align: self.ma,
            align_is_const: self.hints & 1 != 0,
            size_is_const: self.hints & 2 != 0,
            size_is_multiple_of_align: self.hints & 4 != 0,
        }
    }
}

fn up_i(x: i128, a: i128) -> i128 {
    (x + a - 1) / a * a
}
fn down_i(x: i128, a: i128) -> i128 {
    x / a * a
}

/// Reference specification in unbounded integers. Ok(None) = does not fit.
#[derive(Debug, PartialEq, Eq, Clone, Copy)]
enum Spec {
    NoFit,
    Up { ptr: i128, new_pos: i128 },
    Down { ptr: i128 },
    Range { start: i128, end: i128 },
}

fn spec(c: &Case11) -> Spec {
    let (s, e, size, al, ma) = (c.start as i128, c.end as i128, c.size as i128, c.align as i128, c.ma as i128);
    if s > e {
        return Spec::NoFit; // dummy chunk: negative capacity
    }
    match c.f {
        0 => {
            let p = up_i(s, al);
            if p + size <= e { Spec::Up { ptr: p, new_pos: up_i(p + size, ma) } } else { Spec::NoFit }
        }
        1 => {
            let a = al.max(ma);
            let p = down_i(e - size, a);
            if e - size >= 0 && p >= s { Spec::Down { ptr: p } } else { Spec::NoFit }
        }
        2 | 3 => {
            let ps = up_i(s, al);
            let pe = down_i(e, al);
            // sizes are multiples of the alignment (array layouts): fits iff the aligned range is large enough
            if pe - ps >= size && pe >= ps { Spec::Range { start: ps, end: pe } } else { Spec::NoFit }
        }
        _ => unreachable!(),
    }
}

fn run11(c: &Case11) -> Result<Spec, String> {
    let r = catch_unwind(AssertUnwindSafe(|| match c.f {
        0 => match bump_up(c.props()) {
            Some(u) => Spec::Up { ptr: u.ptr as i128, new_pos: u.new_pos as i128 },
            None => Spec::NoFit,
        },
        1 => match bump_down(c.props()) {
            Some(p) => Spec::Down { ptr: p as i128 },
            None => Spec::NoFit,
        },
        2 => match bump_prepare_up(c.props()) {
            Some(r) => Spec::Range { start: r.start as i128, end: r.end as i128 },
            None => Spec::NoFit,
        },
        3 => match bump_prepare_down(c.props()) {
            Some(r) => Spec::Range { start: r.start as i128, end: r.end as i128 },
            None => Spec::NoFit,
        },
        _ => unreachable!(),
    }));
    r.map_err(|_| vcore::crash::take_last_panic().unwrap_or_else(|| "panic".into()))
}

fn check11(c: &Case11) -> Result<bool, String> {
    let want = spec(c);
    let got = run11(c).map_err(|m| format!("panicked / overflowed: {m}"))?;
    if want != got {
        return Err(format!("expected {want:?}, got {got:?}"));
    }
    Ok(want != Spec::NoFit)
}

fn hint_ok(hints: u8, size: usize, align: usize) -> bool {
    let (ac, sc, mult) = (hints & 1 != 0, hints & 2 != 0, hints & 4 != 0);
    (!sc || ac) && (!mult || size % align == 0)
}

struct Dom11 {
    bases: Vec<usize>,
    start_offs: usize,
    max_blocks: usize,
    sizes: Vec<usize>,
    aligns: Vec<usize>,
}

fn dom11(thorough: bool) -> Dom11 {
    let top = usize::MAX - 15 - 16 * if thorough { 128 } else { 16 } - 1024;
    let mut sizes: Vec<usize> = (0..=if thorough { 320 } else { 80 }).collect();
    sizes.extend([255, 256, 257, 1 << 31, 1 << 62, (isize::MAX as usize) - 4095, isize::MAX as usize]);
    let mut aligns: Vec<usize> = (0..=12).map(|k| 1usize << k).collect();
    aligns.extend([1 << 20, 1 << 29, 1 << 62]);
    Dom11 {
        // the last base makes the windows end exactly at the highest 16-aligned address
        bases: vec![16, 4096, 1 << 31, (1 << 47) - 4096, (1 << 63) - 256, 1 << 63, top & !4095, (usize::MAX - 15) - 16 * if thorough { 128 } else { 16 }],
        start_offs: if thorough { 512 } else { 64 },
        max_blocks: if thorough { 128 } else { 16 },
        sizes,
        aligns,
    }
}

fn c11(thorough: bool, threads: usize) -> (J, Vec<J>) {
    let t0 = Instant::now();
    let d = dom11(thorough);
    let evals = AtomicU64::new(0);
    let fits = AtomicU64::new(0);
    let viols: Mutex<Vec<(Case11, String)>> = Mutex::new(Vec::new());
    let samples: Mutex<Vec<String>> = Mutex::new(Vec::new());
    let mut items = Vec::new();
    for f in 0..4u8 {
        for ma in [1usize, 2, 4, 8, 16] {
            for &base in &d.bases {
                items.push((f, ma, base));
            }
        }
    }
    let next = AtomicU64::new(0);
    std::thread::scope(|sc| {
        for _ in 0..threads {
            sc.spawn(|| {
                loop {
                    let i = next.fetch_add(1, Ordering::Relaxed) as usize;
                    if i >= items.len() {
                        break;
                    }
                    let (f, ma, base) = items[i];
                    let up = f == 0 || f == 2;
                    let mut n = 0u64;
                    let mut nf = 0u64;
                    // windows: UP: start multiple of ma, end multiple of 16; DOWN: start multiple of 16, end multiple of ma
                    let mut windows: Vec<(usize, usize)> = Vec::new();
                    if up {
                        for so in (0..d.start_offs).step_by(ma) {
                            let s = base + so;
                            for k in 0..=d.max_blocks {
                                let e = base + 16 * k;
                                if e >= s && s != 0 {
                                    windows.push((s, e));
                                }
                            }
                        }
                    } else {
                        for j in 0..=(d.start_offs / 16) {
                            let s = base + 16 * j;
                            for eo in (0..=16 * d.max_blocks).step_by(ma) {
                                let e = base + eo;
                                if e >= s && s != 0 {
                                    windows.push((s, e));
                                }
                            }
                        }
                    }
                    // the dummy ranges: start = end + 16, both 16-aligned
                    windows.push((base + 32, base + 16));
                    match (base + 16 * d.max_blocks).checked_add(16) {
                        Some(s) => windows.push((s, base + 16 * d.max_blocks)),
                        // at the very top of the address space the dummy range sits one block lower
                        None => windows.push((base + 16 * d.max_blocks, base + 16 * d.max_blocks - 16)),
                    }
                    for &(s, e) in &windows {
                        for &align in &d.aligns {
                            for &size in &d.sizes {
                                if Layout::from_size_align(size, align).is_err() {
                                    continue;
                                }
                                if f >= 2 && size % align != 0 {
                                    continue;
                                }
                                for hints in 0..8u8 {
                                    if !hint_ok(hints, size, align) {
                                        continue;
                                    }
                                    let c = Case11 { f, start: s, end: e, size, align, ma, hints };
                                    n += 1;
                                    match check11(&c) {
                                        Ok(true) => nf += 1,
                                        Ok(false) => {}
                                        Err(m) => {
                                            let mut v = viols.lock().unwrap();
                                            if v.len() < 16 {
                                                v.push((c, m));
                                            }
                                        }
                                    }
                                    if n == 77_777 {
                                        let mut sm = samples.lock().unwrap();
                                        if sm.len() < 16 {
                                            sm.push(c.text());
                                        }
                                    }
                                }
                            }
                        }
                    }
                    evals.fetch_add(n, Ordering::Relaxed);
                    fits.fetch_add(nf, Ordering::Relaxed);
                }
            });
        }
    });
    let mut samples = samples.into_inner().unwrap();
    if samples.is_empty() {
        samples.push(Case11 { f: 0, start: 4096, end: 4096 + 64, size: 24, align: 8, ma: 4, hints: 1 }.text());
    }
    let viols = viols.into_inner().unwrap();
    let cov = J::obj()
        .set("evaluations", evals.load(Ordering::Relaxed))
        .set("distinct_nontrivial", fits.load(Ordering::Relaxed))
        .set("states", evals.load(Ordering::Relaxed))
        .set("transitions", evals.load(Ordering::Relaxed))
        .set("traces_validated_against_impl", evals.load(Ordering::Relaxed))
        .set(
            "rule",
            "complete product of {bump_up, bump_down, bump_prepare_up, bump_prepare_down} x min_align{1,2,4,8,16} x window bases (incl. next to 0, 2^63 and the top of the address space) x start offsets x capacities (multiples of 16 blocks, incl. the two negative-capacity dummy ranges) x sizes x power-of-two aligns (legal Layouts only; multiples of align for prepare) x all truthful hint triples, each compared with an i128 specification; non-trivial = inputs for which the request fits",
        )
        .set("samples", samples)
        .set("exhaustive", true)
        .set("bases", d.bases.iter().map(|b| format!("{b:#x}")).collect::<Vec<_>>())
        .set("start_offsets", d.start_offs)
        .set("capacity_blocks_of_16", d.max_blocks)
        .set("sizes", d.sizes.len())
        .set("aligns", d.aligns.len());
    let vj = viols
        .iter()
        .map(|(c, m)| J::obj().set("prop", "C11").set("cfg", "").set("params", "").set("history", c.text()).set("msg", m.as_str()).set("replay_args", vec!["--case".to_string(), c.text()]))
        .collect();
    let space = J::obj()
        .set("property_id", "C11")
        .set("tier", if thorough { "thorough" } else { "quick" })
        .set("seed", 0)
        .set("level", "model_checking")
        .set("coverage", cov)
        .set("wall_s", t0.elapsed().as_secs_f64())
        .set("violations", viols.len())
        .set("floor", 1000)
        .set("floor_ok", fits.load(Ordering::Relaxed) >= 1000);
    (space, vj)
}

// ----------------------------------------------------------------------------------------------------
// C12 (pure part)
// ----------------------------------------------------------------------------------------------------

#[derive(Clone, Copy, Debug)]
struct Case12 {
    kind: u8, // 0 from_capacity fit, 1 from_hint shape, 2 growth
    up: bool,
    hs: usize,
    ha: usize,
    mcs: usize,
    size: usize,
    align: usize,
    extra: usize,
}

impl Case12 {
    fn text(&self) -> String {
        format!("kind={} up={} hs={} ha={} mcs={} size={} align={} extra={}", self.kind, self.up as u8, self.hs, self.ha, self.mcs, self.size, self.align, self.extra)
    }
    fn parse(s: &str) -> Option<Case12> {
        let m: HashMap<&str, usize> = s.split_whitespace().filter_map(|kv| kv.split_once('=')).filter_map(|(k, v)| Some((k, v.parse().ok()?))).collect();
        Some(Case12 { kind: *m.get("kind")? as u8, up: *m.get("up")? != 0, hs: *m.get("hs")?, ha: *m.get("ha")?, mcs: *m.get("mcs")?, size: *m.get("size")?, align: *m.get("align")?, extra: *m.get("extra")? })
    }
    fn cfg(&self) -> ChunkSizeConfig {
        ChunkSizeConfig { up: self.up, assumed_malloc_overhead_layout: Layout::new::<[usize; 2]>(), chunk_header_layout: Layout::from_size_align(self.hs, self.ha).unwrap() }
    }
}

/// header layout of `ChunkHeader<A>` for an allocator value of (size, align): 4 words + A, repr(C, align(16))
fn header_layout(asize: usize, aalign: usize) -> (usize, usize) {
    let ha = aalign.max(16);
    let off = (32 + aalign - 1) & !(aalign - 1);
    let hs = (off + asize + ha - 1) & !(ha - 1);
    (hs, ha)
}

/// chunk size the library would request for a capacity `layout` (replica of chunk/size.rs: max(hint, MINIMUM_CHUNK_SIZE))
fn size_for_capacity(c: &Case12) -> Option<usize> {
    let cfg = c.cfg();
    let layout = Layout::from_size_align(c.size, c.align).ok()?;
    let hint = cfg.calc_hint_from_capacity(layout)?;
    cfg.calc_size_from_hint(hint.max(c.mcs)).map(|n| n.get())
}

fn check12(c: &Case12) -> Result<bool, String> {
    let cfg = c.cfg();
    let r = catch_unwind(AssertUnwindSafe(|| -> Result<bool, String> {
        match c.kind {
            0 => {
                let Some(size) = size_for_capacity(c) else {
                    // None is only acceptable when the request is genuinely too big for the address space
                    let need = c.size as u128 + c.align as u128 + c.hs as u128 + c.ha as u128 + 8192;
                    if need <= usize::MAX as u128 {
                        return Err(format!("size computation failed although only about {need} bytes are needed"));
                    }
                    return Ok(false);
                };
                if size % 16 != 0 {
                    return Err(format!("chunk size {size} is not a multiple of 16"));
                }
                if !c.up && size % c.ha != 0 {
                    return Err(format!("chunk size {size} is not a multiple of the header alignment {}", c.ha));
                }
                if (size as u128) < c.hs as u128 + c.size as u128 {
                    return Err(format!("chunk size {size} is smaller than header {} + capacity {}", c.hs, c.size));
                }
                // the base allocator grants `size + extra` bytes; the chunk uses align_size(granted)
                let Some(granted) = size.checked_add(c.extra) else { return Ok(false) };
                let actual = cfg.align_size(granted);
                if actual < size {
                    return Err(format!("align_size({granted}) = {actual} is below the requested size {size}"));
                }
                if actual % 16 != 0 || (!c.up && actual % c.ha != 0) {
                    return Err(format!("aligned granted size {actual} violates the size invariants"));
                }
                // the layout fits for every base address phase (base is a multiple of the header alignment)
                let al = c.align as i128;
                let phases: Vec<i128> = if c.align <= 4096 {
                    (0..c.align.max(c.ha)).step_by(c.ha).map(|p| p as i128).collect()
                } else {
                    vec![0, c.ha as i128, al / 2, al - c.ha as i128]
                };
                for ph in phases {
                    let base = (1i128 << 40) + ph; // 2^40 is a multiple of every alignment <= 2^29
                    let (cs, ce) = if c.up { (base + c.hs as i128, base + actual as i128) } else { (base, base + actual as i128 - c.hs as i128) };
                    if c.up {
                        let p = up_i(cs, al);
                        if p + c.size as i128 > ce {
                            return Err(format!("layout does not fit into the fresh chunk of {actual} bytes (upwards, base phase {ph}): content {}..{}", cs - base, ce - base));
                        }
                    } else {
                        for ma in [1i128, 2, 4, 8, 16] {
                            let p = down_i(ce - c.size as i128, al.max(ma));
                            if ce - (c.size as i128) < 0 || p < cs {
                                return Err(format!("layout does not fit into the fresh chunk of {actual} bytes (downwards, base phase {ph}, min_align {ma})"));
                            }
                        }
                    }
                }
                Ok(true)
            }
            1 => {
                // from_hint: shape invariants for arbitrary hints (size field = the hint)
                let hint = c.size.max(c.mcs);
                match cfg.calc_size_from_hint(hint) {
                    Some(n) => {
                        let size = n.get();
                        if size % 16 != 0 || (!c.up && size % c.ha != 0) {
                            return Err(format!("calc_size_from_hint({hint}) = {size} violates the size invariants"));
                        }
                        if size < c.hs {
                            return Err(format!("calc_size_from_hint({hint}) = {size} cannot hold the header of {} bytes", c.hs));
                        }
                        // never shrinks a hint by more than the malloc overhead + alignment slack (no wrap-around)
                        if (size as u128) + 16 + 16 + (c.ha as u128) < hint as u128 {
                            return Err(format!("calc_size_from_hint({hint}) = {size} is far below the hint (wrapped?)"));
                        }
                        Ok(true)
                    }
                    None => {
                        if (hint as u128) + 8192 + c.ha as u128 + c.hs as u128 <= usize::MAX as u128 {
                            return Err(format!("calc_size_from_hint({hint}) failed although the result is representable"));
                        }
                        Ok(false)
                    }
                }
            }
            2 => {
                // growth: the chunk after a chunk of `prev` bytes (size field, a valid chunk size) is >= 2*prev - 16
                let prev = c.size;
                let Some(twice) = prev.checked_mul(2) else { return Ok(false) };
                match cfg.calc_size_from_hint(twice.max(c.mcs)) {
                    Some(n) => {
                        if (n.get() as u128) + 16 < 2 * prev as u128 {
                            return Err(format!("chunk after a {prev}-byte chunk has only {} bytes", n.get()));
                        }
                        Ok(true)
                    }
                    None => {
                        if (twice as u128) + 8192 + c.ha as u128 + c.hs as u128 <= usize::MAX as u128 {
                            return Err(format!("growth from {prev} failed although the result is representable"));
                        }
                        Ok(false)
                    }
                }
            }
            _ => unreachable!(),
        }
    }));
    match r {
        Ok(x) => x,
        Err(_) => Err(format!("panicked / overflowed: {}", vcore::crash::take_last_panic().unwrap_or_default())),
    }
}

fn c12(thorough: bool, threads: usize) -> (J, Vec<J>) {
    let t0 = Instant::now();
    let asizes: Vec<usize> = if thorough { vec![0, 1, 8, 16, 24, 40, 100, 255, 256] } else { vec![0, 8, 24, 100, 256] };
    let aaligns: Vec<usize> = vec![1, 8, 16, 32, 64, 256];
    let mcss: Vec<usize> = vec![0, 1, 512, 4096, 1 << 20];
    let mut sizes: Vec<usize> = (0..=if thorough { 5000 } else { 1200 }).collect();
    for k in 4..63 {
        for d in [-1i64, 0, 1] {
            sizes.push(((1u64 << k) as i64 + d) as usize);
        }
    }
    for d in 0..64usize {
        sizes.push(isize::MAX as usize - d * 67);
    }
    let aligns: Vec<usize> = (0..=29).map(|k| 1usize << k).collect();
    let extras: Vec<usize> = vec![0, 1, 15, 16, 17, 24, 40, 100, 4095, 4096];
    let mut items = Vec::new();
    for &asz in &asizes {
        for &aal in &aaligns {
            if asz % aal != 0 && asz != 0 {
                // a type's size is a multiple of its alignment
                continue;
            }
            for up in [true, false] {
                for &mcs in &mcss {
                    items.push((asz, aal, up, mcs));
                }
            }
        }
    }
    let evals = AtomicU64::new(0);
    let nontriv = AtomicU64::new(0);
    let viols: Mutex<Vec<(Case12, String)>> = Mutex::new(Vec::new());
    let samples: Mutex<Vec<String>> = Mutex::new(Vec::new());
    let next = AtomicU64::new(0);
    std::thread::scope(|sc| {
        for _ in 0..threads {
            sc.spawn(|| {
                loop {
                    let i = next.fetch_add(1, Ordering::Relaxed) as usize;
                    if i >= items.len() {
                        break;
                    }
                    let (asz, aal, up, mcs) = items[i];
                    let (hs, ha) = header_layout(asz, aal);
                    let mut n = 0u64;
                    let mut nt = 0u64;
                    let mut run = |c: Case12| {
                        n += 1;
                        match check12(&c) {
                            Ok(true) => nt += 1,
                            Ok(false) => {}
                            Err(m) => {
                                let mut v = viols.lock().unwrap();
                                if v.len() < 16 {
                                    v.push((c, m));
                                }
                            }
                        }
                        if n == 55_555 {
                            let mut sm = samples.lock().unwrap();
                            if sm.len() < 16 {
                                sm.push(c.text());
                            }
                        }
                    };
                    for &size in &sizes {
                        for &align in &aligns {
                            if Layout::from_size_align(size, align).is_err() {
                                continue;
                            }
                            // extras only matter for small layouts (the phase loop dominates otherwise)
                            let ex: &[usize] = if size <= 1200 && align <= 64 { &extras } else { &extras[..2] };
                            for &extra in ex {
                                run(Case12 { kind: 0, up, hs, ha, mcs, size, align, extra });
                            }
                        }
                        run(Case12 { kind: 1, up, hs, ha, mcs, size, align: 1, extra: 0 });
                        if size % 16 == 0 && size >= hs {
                            run(Case12 { kind: 2, up, hs, ha, mcs, size, align: 1, extra: 0 });
                        }
                    }
                    for k in 0..9000usize {
                        run(Case12 { kind: 1, up, hs, ha, mcs, size: usize::MAX - k, align: 1, extra: 0 });
                    }
                    evals.fetch_add(n, Ordering::Relaxed);
                    nontriv.fetch_add(nt, Ordering::Relaxed);
                }
            });
        }
    });
    let mut samples = samples.into_inner().unwrap();
    if samples.is_empty() {
        samples.push(Case12 { kind: 0, up: true, hs: 32, ha: 16, mcs: 512, size: 100, align: 64, extra: 24 }.text());
    }
    let viols = viols.into_inner().unwrap();
    let ev = evals.load(Ordering::Relaxed);
    let nt = nontriv.load(Ordering::Relaxed);
    let cov = J::obj()
        .set("evaluations", ev)
        .set("distinct_nontrivial", nt)
        .set("states", ev)
        .set("transitions", ev)
        .set("traces_validated_against_impl", ev)
        .set(
            "rule",
            "complete product of allocator value layouts (header layouts) x direction x minimum chunk size x (capacity layouts: sizes 0..N, 2^k±1, near isize::MAX; aligns 2^0..2^29) x extra granted bytes, plus arbitrary hints (incl. the top 9000 usize values) and growth steps; ChunkSizeConfig is compiled from /repo/src/chunk/size_config.rs; for every computed size the layout must fit for every base-address phase and min_align; non-trivial = a size was computed (no overflow) and all invariants were evaluated",
        )
        .set("samples", samples)
        .set("exhaustive", true)
        .set("header_layouts", items.len() / (2 * mcss.len()))
        .set("sizes", sizes.len())
        .set("aligns", aligns.len());
    let vj = viols
        .iter()
        .map(|(c, m)| J::obj().set("prop", "C12").set("cfg", "").set("params", "").set("history", c.text()).set("msg", m.as_str()).set("replay_args", vec!["--case".to_string(), c.text()]))
        .collect();
    let space = J::obj()
        .set("property_id", "C12")
        .set("tier", if thorough { "thorough" } else { "quick" })
        .set("seed", 0)
        .set("level", "model_checking")
        .set("space", "pure")
        .set("coverage", cov)
        .set("wall_s", t0.elapsed().as_secs_f64())
        .set("violations", viols.len())
        .set("floor", 1000)
        .set("floor_ok", nt >= 1000);
    (space, vj)
}

fn main() {
    vcore::crash::install();
    let args: Vec<String> = std::env::args().collect();
    let cmd = args.get(1).map(String::as_str).unwrap_or("");
    let prop = arg(&args, "--prop").unwrap_or_default();
    match cmd {
        "check" => {
            let thorough = arg(&args, "--tier").as_deref() == Some("thorough");
            let threads: usize = arg(&args, "--threads").and_then(|s| s.parse().ok()).unwrap_or_else(|| std::thread::available_parallelism().map_or(8, |n| n.get()));
            let (space, viols) = match prop.as_str() {
                "C11" => c11(thorough, threads),
                "C12" => c12(thorough, threads),
                _ => panic!("unknown property"),
            };
            for v in &viols {
                println!("VIOL {}", v.to_string());
            }
            println!("SPACE {}", space.to_string());
            println!("DONE violations={}", viols.len());
        }
        "replay" => {
            let case = arg(&args, "--case").expect("--case");
            let r = match prop.as_str() {
                "C11" => check11(&Case11::parse(&case).expect("case")).map(|_| ()),
                "C12" => check12(&Case12::parse(&case).expect("case")).map(|_| ()),
                _ => panic!("unknown property"),
            };
            match r {
                Ok(()) => println!("REPLAY OK"),
                Err(m) => println!("REPLAY VIOLATION step=0 msg={m}"),
            }
        }
        _ => {
            eprintln!("usage: pure-mc check|replay --prop C11|C12 ...");
            std::process::exit(2);
        }
    }
}
