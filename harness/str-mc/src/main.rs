//! str-mc: exhaustive bounded differential checking of bump-scope's string types (C09) against `std::string::String`.
//!
//! A  every operation sequence up to a depth bound, index arguments ranging over every byte index of the current
//!    contents plus one out-of-range index, on `BumpString`, `MutBumpString`, `FixedBumpString`, `BumpBox<str>`
//! B  the UTF-8 / UTF-16 decoders on all short inputs over an alphabet of boundary code units
//! C  the C-string constructors on all short texts over {'a','é','\0'}
//!
//! usage: str-mc check --prop C09 --tier quick|thorough [--threads N]
//!        str-mc replay --prop C09 --case "<string>"
//!
//! Every history is executed on a fresh arena (deterministic slab substrate), so a case string replays exactly.

#![allow(clippy::all)]

use std::collections::{BTreeMap, HashMap, HashSet};
use std::fmt::Write as _;
use std::hash::{Hash, Hasher};
use std::panic::{AssertUnwindSafe, catch_unwind};
use std::sync::Mutex;
use std::sync::atomic::{AtomicUsize, Ordering};
use std::time::Instant;
use vcore::crash::take_last_panic;
use vcore::json::J;

const INITS: [&str; 6] = ["", "a", "é", "a€", "𝄞b", "a\0é"];
const PUSH_CHARS: [char; 5] = ['a', 'é', '€', '𝄞', '\0'];
const PUSH_STRS: [&str; 3] = ["", "é", "a€"];
const INS_CHARS: [char; 2] = ['a', '€'];
const REPL: [&str; 2] = ["", "€"];
const RESERVES: [usize; 3] = [0, 1, 40];
/// capacity of the fixed-capacity string in the main exploration: init (<= 5) doubled three times = 40 < 64
const ROOMY: usize = 64;
const FMT_TEXT: &str = "12-  é";
const B8_ALPHA: [u8; 14] = [0x00, 0x41, 0x7F, 0x80, 0xBF, 0xC2, 0xE0, 0xE2, 0xED, 0xA0, 0xF0, 0xF4, 0x90, 0xFF];
const B16_ALPHA: [u16; 8] = [0x0041, 0x00E9, 0xD800, 0xDBFF, 0xDC00, 0xDFFF, 0xFFFF, 0x0000];
const C_ALPHA: [char; 3] = ['a', 'é', '\0'];
const B8_FNS: [&str; 6] = [
    "BumpString::from_utf8",
    "MutBumpString::from_utf8",
    "FixedBumpString::from_utf8",
    "BumpBox<str>::from_utf8",
    "BumpString::from_utf8_lossy_in",
    "MutBumpString::from_utf8_lossy_in",
];
const B16_FNS: [&str; 4] = ["BumpString::from_utf16_in", "MutBumpString::from_utf16_in", "BumpString::from_utf16_lossy_in", "MutBumpString::from_utf16_lossy_in"];
const C_FNS: [&str; 7] = [
    "alloc_cstr_from_str",
    "alloc_cstr_fmt",
    "alloc_cstr_fmt_mut",
    "BumpString::into_cstr",
    "MutBumpString::into_cstr",
    "alloc_cstr_fmt(two pieces)",
    "alloc_cstr_fmt_mut(two pieces)",
];

// ----------------------------------------------------------------------------------------------------
// operations
// ----------------------------------------------------------------------------------------------------

#[derive(Clone, Copy, PartialEq, Eq, Debug)]
enum Op {
    Push(char),
    PushStr(usize),
    Pop,
    Insert(usize, char),
    InsertStr(usize),
    Remove(usize),
    Truncate(usize),
    Clear,
    /// 0: keep chars at even positions, 1: keep chars != 'a', 2: drop the first char, panic at the second
    Retain(u8),
    /// mode 0: collect everything, 1: take one item and drop the iterator
    Drain(usize, usize, u8),
    Replace(usize, usize, usize),
    ExtendWithin(usize, usize),
    SplitOff(usize, usize),
    Reserve(usize),
    Shrink,
    WriteFmt,
    Observe,
    /// consuming conversion and the way back (what exactly depends on the type, see subject.rs)
    Conv(u8),
}

impl Op {
    fn name(&self) -> &'static str {
        match self {
            Op::Push(_) => "push",
            Op::PushStr(_) => "push_str",
            Op::Pop => "pop",
            Op::Insert(..) => "insert",
            Op::InsertStr(_) => "insert_str",
            Op::Remove(_) => "remove",
            Op::Truncate(_) => "truncate",
            Op::Clear => "clear",
            Op::Retain(_) => "retain",
            Op::Drain(..) => "drain",
            Op::Replace(..) => "replace_range",
            Op::ExtendWithin(..) => "extend_from_within",
            Op::SplitOff(..) => "split_off",
            Op::Reserve(_) => "reserve",
            Op::Shrink => "shrink_to_fit",
            Op::WriteFmt => "write_fmt",
            Op::Observe => "observe",
            Op::Conv(_) => "conv",
        }
    }
    fn code(&self) -> String {
        match *self {
            Op::Push(c) => format!("push.{:x}", c as u32),
            Op::PushStr(k) => format!("push_str.{k}"),
            Op::Insert(i, c) => format!("insert.{i}.{:x}", c as u32),
            Op::InsertStr(i) => format!("insert_str.{i}"),
            Op::Remove(i) => format!("remove.{i}"),
            Op::Truncate(i) => format!("truncate.{i}"),
            Op::Retain(k) => format!("retain.{k}"),
            Op::Drain(a, b, m) => format!("drain.{a}.{b}.{m}"),
            Op::Replace(a, b, k) => format!("replace_range.{a}.{b}.{k}"),
            Op::ExtendWithin(a, b) => format!("extend_from_within.{a}.{b}"),
            Op::SplitOff(a, b) => format!("split_off.{a}.{b}"),
            Op::Reserve(n) => format!("reserve.{n}"),
            Op::Conv(k) => format!("conv.{k}"),
            Op::Pop | Op::Clear | Op::Shrink | Op::WriteFmt | Op::Observe => self.name().to_string(),
        }
    }
    fn parse(s: &str) -> Option<Op> {
        let mut p = s.split('.');
        let name = p.next()?;
        let a: Vec<&str> = p.collect();
        let n = |i: usize| -> Option<usize> { a.get(i)?.parse().ok() };
        let ch = |i: usize| -> Option<char> { char::from_u32(u32::from_str_radix(a.get(i)?, 16).ok()?) };
        Some(match name {
            "push" => Op::Push(ch(0)?),
            "push_str" => Op::PushStr(n(0).filter(|&k| k < PUSH_STRS.len())?),
            "pop" => Op::Pop,
            "insert" => Op::Insert(n(0)?, ch(1)?),
            "insert_str" => Op::InsertStr(n(0)?),
            "remove" => Op::Remove(n(0)?),
            "truncate" => Op::Truncate(n(0)?),
            "clear" => Op::Clear,
            "retain" => Op::Retain(n(0).filter(|&k| k < 3)? as u8),
            "drain" => Op::Drain(n(0)?, n(1)?, n(2).filter(|&k| k < 2)? as u8),
            "replace_range" => Op::Replace(n(0)?, n(1)?, n(2).filter(|&k| k < REPL.len())?),
            "extend_from_within" => Op::ExtendWithin(n(0)?, n(1)?),
            "split_off" => Op::SplitOff(n(0)?, n(1)?),
            "reserve" => Op::Reserve(n(0)?),
            "shrink_to_fit" => Op::Shrink,
            "write_fmt" => Op::WriteFmt,
            "observe" => Op::Observe,
            "conv" => Op::Conv(n(0).filter(|&k| k < 4)? as u8),
            _ => return None,
        })
    }
    fn human(&self) -> String {
        match *self {
            Op::Push(c) => format!("push({c:?})"),
            Op::PushStr(k) => format!("push_str({:?})", PUSH_STRS[k]),
            Op::Pop => "pop()".into(),
            Op::Insert(i, c) => format!("insert({i}, {c:?})"),
            Op::InsertStr(i) => format!("insert_str({i}, \"é\")"),
            Op::Remove(i) => format!("remove({i})"),
            Op::Truncate(i) => format!("truncate({i})"),
            Op::Clear => "clear()".into(),
            Op::Retain(0) => "retain(chars at even positions)".into(),
            Op::Retain(1) => "retain(|c| c != 'a')".into(),
            Op::Retain(_) => "retain(drop 1st char, panic at 2nd)".into(),
            Op::Drain(a, b, 0) => format!("drain({a}..{b}).collect()"),
            Op::Drain(a, b, _) => format!("drain({a}..{b}) take one item then drop"),
            Op::Replace(a, b, k) => format!("replace_range({a}..{b}, {:?})", REPL[k]),
            Op::ExtendWithin(a, b) => format!("extend_from_within({a}..{b})"),
            Op::SplitOff(a, b) => format!("split_off({a}..{b})"),
            Op::Reserve(n) => format!("reserve({n})"),
            Op::Shrink => "shrink_to_fit()".into(),
            Op::WriteFmt => "write!(s, \"{}-{:>3}\", 12, \"é\")".into(),
            Op::Observe => "observe(Display, Debug, {:>8}, len, is_empty)".into(),
            Op::Conv(0) => "into_boxed_str/into_boxed_bytes and back".into(),
            Op::Conv(1) => "into_bytes + from_utf8".into(),
            Op::Conv(2) => "into_fixed_string/into_string/from_init and back".into(),
            Op::Conv(_) => "into_str + BumpBox::from_raw".into(),
        }
    }
}

/// operations that need capacity (a fixed-capacity string refuses them when the result would not fit)
fn is_grow(op: Op) -> bool {
    matches!(op, Op::Push(_) | Op::PushStr(_) | Op::Insert(..) | Op::InsertStr(_) | Op::Replace(..) | Op::ExtendWithin(..) | Op::Reserve(_) | Op::WriteFmt)
}
/// operations that have a `try_` variant which is used when the case runs in try mode
fn is_try(op: Op) -> bool {
    is_grow(op) && op != Op::WriteFmt
}

#[derive(Clone, Copy, PartialEq, Eq, Hash, Debug, PartialOrd, Ord)]
enum Kind {
    Bs,
    Mut,
    Fixed,
    Box,
}
const KINDS: [Kind; 4] = [Kind::Bs, Kind::Mut, Kind::Fixed, Kind::Box];
impl Kind {
    fn name(self) -> &'static str {
        match self {
            Kind::Bs => "BumpString<&Bump>",
            Kind::Mut => "MutBumpString<&mut Bump>",
            Kind::Fixed => "FixedBumpString",
            Kind::Box => "BumpBox<str>",
        }
    }
    fn code(self) -> &'static str {
        match self {
            Kind::Bs => "bs",
            Kind::Mut => "mut",
            Kind::Fixed => "fixed",
            Kind::Box => "box",
        }
    }
}

/// Which operations a type has. `boxed`: a MutBumpString that was turned into a BumpBox<str> (its allocator is consumed).
fn has(kind: Kind, boxed: bool, op: Op) -> bool {
    let box_like = kind == Kind::Box || boxed;
    if box_like {
        return match op {
            Op::Pop | Op::Remove(_) | Op::Truncate(_) | Op::Clear | Op::Retain(_) | Op::Drain(..) | Op::SplitOff(..) | Op::Observe => true,
            Op::Conv(k) => k == 0 || k == 2,
            _ => false,
        };
    }
    match (kind, op) {
        (Kind::Bs, _) => true,
        (Kind::Mut, Op::SplitOff(..) | Op::Shrink | Op::Conv(2)) => false,
        (Kind::Mut, _) => true,
        (Kind::Fixed, Op::Shrink) => false,
        (Kind::Fixed, _) => true,
        (Kind::Box, _) => unreachable!(),
    }
}

/// The alphabet in a state: parametrised by the current length in bytes. Index arguments range over 0..=len+1,
/// i.e. every byte index (char boundary or not), the end, and one index out of range.
fn alphabet(len: usize, kind: Kind, boxed: bool) -> Vec<Op> {
    let mut v = Vec::with_capacity(300);
    v.extend(PUSH_CHARS.iter().map(|&c| Op::Push(c)));
    v.extend((0..PUSH_STRS.len()).map(Op::PushStr));
    v.push(Op::Pop);
    v.push(Op::Clear);
    v.extend((0..3).map(Op::Retain));
    for i in 0..=len + 1 {
        v.extend(INS_CHARS.iter().map(|&c| Op::Insert(i, c)));
        v.push(Op::InsertStr(i));
        v.push(Op::Remove(i));
        v.push(Op::Truncate(i));
    }
    for a in 0..=len + 1 {
        for b in a..=len + 1 {
            v.push(Op::Drain(a, b, 0));
            v.push(Op::Drain(a, b, 1));
            v.extend((0..REPL.len()).map(|k| Op::Replace(a, b, k)));
            v.push(Op::ExtendWithin(a, b));
            v.push(Op::SplitOff(a, b));
        }
    }
    v.extend(RESERVES.iter().map(|&n| Op::Reserve(n)));
    v.extend([Op::Shrink, Op::WriteFmt, Op::Observe]);
    v.extend((0..4).map(Op::Conv));
    v.retain(|&op| has(kind, boxed, op));
    v
}

// ----------------------------------------------------------------------------------------------------
// the operations themselves: the same token stream is applied to `String` (model) and to the subjects,
// which have std's method names and signatures - so the model cannot mirror an operation wrongly
// ----------------------------------------------------------------------------------------------------

fn retain_pred(k: u8, n: &mut usize, c: char) -> bool {
    let i = *n;
    *n += 1;
    match k {
        0 => i % 2 == 0,
        1 => c != 'a',
        _ => {
            if i == 1 {
                panic!("retain closure panics at the second char");
            }
            false
        }
    }
}

/// The range `s..e` written with other bound kinds (same indices); the form varies with the indices so that every
/// bound kind of the shared range resolver is exercised: excluded start, included end, both, unbounded.
fn bounds(form: usize, s: usize, e: usize, len: usize) -> (std::ops::Bound<usize>, std::ops::Bound<usize>) {
    use std::ops::Bound::*;
    let lo_ex = |s: usize| if s >= 1 { Excluded(s - 1) } else { Included(s) };
    let hi_in = |e: usize| if e >= 1 { Included(e - 1) } else { Excluded(e) };
    match form % 5 {
        1 => (lo_ex(s), Excluded(e)),
        2 => (Included(s), hi_in(e)),
        3 => (lo_ex(s), hi_in(e)),
        4 => (if s == 0 { Unbounded } else { Included(s) }, if e == len { Unbounded } else { Excluded(e) }),
        _ => (Included(s), Excluded(e)),
    }
}

macro_rules! shrink_ops {
    ($s:expr, $op:expr) => {
        match $op {
            Op::Pop => Some(format!("{:?}", $s.pop())),
            Op::Remove(i) => Some(format!("{:?}", $s.remove(i))),
            Op::Truncate(i) => {
                $s.truncate(i);
                Some(String::new())
            }
            Op::Clear => {
                $s.clear();
                Some(String::new())
            }
            Op::Retain(k) => {
                let mut n = 0usize;
                $s.retain(|c| retain_pred(k, &mut n, c));
                Some(String::new())
            }
            Op::Drain(a, b, 0) => Some($s.drain(crate::bounds(a * 3 + b, a, b, $s.len())).collect::<String>()),
            Op::Drain(a, b, _) => {
                let mut d = $s.drain(crate::bounds(a * 3 + b + 1, a, b, $s.len()));
                let x = d.next();
                drop(d);
                Some(format!("{x:?}"))
            }
            Op::Observe => {
                let r = &*$s;
                let st: &str = r;
                Some(format!("{}|{:?}|{:>8}|{}|{}|{}", r, r, r, r.len(), r.is_empty(), st))
            }
            _ => None,
        }
    };
}

macro_rules! grow_ops {
    ($s:expr, $op:expr) => {
        match $op {
            Op::Push(c) => {
                $s.push(c);
                Some(String::new())
            }
            Op::PushStr(k) => {
                $s.push_str(PUSH_STRS[k]);
                Some(String::new())
            }
            Op::Insert(i, c) => {
                $s.insert(i, c);
                Some(String::new())
            }
            Op::InsertStr(i) => {
                $s.insert_str(i, "é");
                Some(String::new())
            }
            Op::Replace(a, b, k) => {
                $s.replace_range(crate::bounds(a * 3 + b + 2, a, b, $s.len()), REPL[k]);
                Some(String::new())
            }
            Op::ExtendWithin(a, b) => {
                $s.extend_from_within(crate::bounds(a * 3 + b + 3, a, b, $s.len()));
                Some(String::new())
            }
            Op::Reserve(n) => {
                $s.reserve(n);
                Some(String::new())
            }
            Op::WriteFmt => Some(format!("{:?}", write!($s, "{}-{:>3}", 12, "é"))),
            _ => None,
        }
    };
}

macro_rules! try_grow_ops {
    ($s:expr, $op:expr) => {
        match $op {
            Op::Push(c) => Some(format!("{:?}", $s.try_push(c))),
            Op::PushStr(k) => Some(format!("{:?}", $s.try_push_str(PUSH_STRS[k]))),
            Op::Insert(i, c) => Some(format!("{:?}", $s.try_insert(i, c))),
            Op::InsertStr(i) => Some(format!("{:?}", $s.try_insert_str(i, "é"))),
            Op::Replace(a, b, k) => Some(format!("{:?}", $s.try_replace_range(a..b, REPL[k]))),
            Op::ExtendWithin(a, b) => Some(format!("{:?}", $s.try_extend_from_within(a..b))),
            Op::Reserve(n) => Some(format!("{:?}", $s.try_reserve(n))),
            _ => None,
        }
    };
}

fn model_apply(m: &mut String, op: Op) -> String {
    if let Some(r) = shrink_ops!(m, op) {
        return r;
    }
    if let Some(r) = grow_ops!(m, op) {
        return r;
    }
    match op {
        // this crate's split_off removes a range in place and returns it
        Op::SplitOff(a, b) => m.drain(a..b).collect(),
        Op::Shrink => {
            m.shrink_to_fit();
            String::new()
        }
        Op::Conv(_) => m.clone(),
        _ => unreachable!(),
    }
}

fn lossy(b: &[u8]) -> String {
    String::from_utf8_lossy(b).into_owned()
}

// ----------------------------------------------------------------------------------------------------
// subjects and the oracle
// ----------------------------------------------------------------------------------------------------

trait Subj {
    /// applies an operation and renders its result
    fn apply(&mut self, op: Op) -> String;
    fn bytes(&self) -> &[u8];
    fn len(&self) -> usize;
    fn cap(&self) -> Option<usize>;
    fn boxed(&self) -> bool {
        false
    }
    /// the strings returned by earlier `split_off`s are kept alive: they must keep their contents
    fn pieces_ok(&self) -> Result<(), String>;
}

#[derive(Clone, Debug)]
struct ACase {
    cfg: usize,
    kind: Kind,
    init: String,
    /// Some(k): fixed-capacity string created with capacity = init.len() + k (the capacity-overflow check)
    slack: Option<usize>,
    /// use the `try_` variants of the growing operations
    try_mode: bool,
}

#[derive(Clone, Debug)]
struct Model {
    s: String,
    /// capacity of a fixed-capacity subject, as observed after the previous operation
    cap: Option<usize>,
    boxed: bool,
}

struct RunOut {
    model: Model,
    /// the last operation panicked (in std and in the subject)
    panicked: bool,
    /// the last operation changed the contents
    changed: bool,
    /// the last operation was refused because the result exceeds the capacity of a fixed-capacity string
    overflowed: bool,
    /// chunks the arena obtained from the base allocator during the history
    chunks: usize,
}

/// (step: 0 = construction, n = n-th operation; short tag; message)
type Fail = (usize, &'static str, String);

fn drive<T: Subj>(w: &mut T, case: &ACase, ops: &[Op]) -> Result<RunOut, Fail> {
    let mut m = Model { s: case.init.clone(), cap: if case.kind == Kind::Fixed { w.cap() } else { None }, boxed: w.boxed() };
    if w.bytes() != m.s.as_bytes() || w.len() != m.s.len() {
        return Err((0, "init", format!("freshly created string holds {:?} (len {}) instead of {:?}", lossy(w.bytes()), w.len(), m.s)));
    }
    if let Some(c) = w.cap() {
        if c < m.s.len() || case.kind == Kind::Fixed && c != case.slack.map_or(ROOMY, |k| case.init.len() + k) {
            return Err((0, "init", format!("freshly created string reports capacity {c}")));
        }
    }
    let (mut panicked, mut changed, mut overflowed) = (false, false, false);
    for (i, &op) in ops.iter().enumerate() {
        let step = i + 1;
        let mut trial = m.s.clone();
        let mres = catch_unwind(AssertUnwindSafe(|| model_apply(&mut trial, op)));
        let mpanic = if mres.is_err() { take_last_panic().unwrap_or_default() } else { String::new() };
        let need = if let Op::Reserve(n) = op { m.s.len() + n } else { trial.len() };
        let overflow = mres.is_ok() && is_grow(op) && m.cap.is_some_and(|c| need > c);
        let tried = case.try_mode && is_try(op);
        let sres = catch_unwind(AssertUnwindSafe(|| w.apply(op)));
        let spanic = if sres.is_err() { take_last_panic().unwrap_or_default() } else { String::new() };
        // invariants that hold after every operation, including one that panicked
        let got = w.bytes().to_vec();
        let how = if sres.is_err() { "panicked" } else { "returned" };
        if let Err(e) = std::str::from_utf8(&got) {
            return Err((step, "utf8", format!("contents are not valid UTF-8 after {} {how}: bytes {got:02x?} ({e}); contents before: {:?}", op.human(), m.s)));
        }
        if w.len() != got.len() {
            return Err((step, "len", format!("len() = {} but as_bytes().len() = {}", w.len(), got.len())));
        }
        if let Some(c) = w.cap() {
            if c < got.len() {
                return Err((step, "cap", format!("capacity() = {c} < len() = {} after {}", got.len(), op.human())));
            }
        }
        let gots = String::from_utf8(got).unwrap();
        let expect_panic = mres.is_err() || (overflow && !tried && op != Op::WriteFmt);
        panicked = false;
        changed = false;
        overflowed = overflow;
        match (&sres, expect_panic) {
            (Err(_), false) => {
                return Err((step, "panic", format!("{} on {:?} panicked ({spanic}) but std String returns {:?} and becomes {:?}", op.human(), m.s, mres.unwrap(), trial)));
            }
            (Ok(r), true) => {
                let why = if overflow { format!("the result ({need} bytes) exceeds the fixed capacity {}", m.cap.unwrap()) } else { format!("std String panics: {mpanic}") };
                return Err((step, "nopanic", format!("{} on {:?} returned {r:?} (contents now {gots:?}) but must panic: {why}", op.human(), m.s)));
            }
            (Err(_), true) => {
                panicked = true;
                if op == Op::Retain(2) {
                    // the contents after a panicking callback are unspecified (std truncates); they must be valid UTF-8 (checked above)
                    if gots.len() > m.s.len() {
                        return Err((step, "unchanged", format!("retain with a panicking callback grew the string from {:?} to {gots:?}", m.s)));
                    }
                    changed = gots != m.s;
                    m.s = gots;
                } else if gots != m.s {
                    return Err((step, "unchanged", format!("{} panicked ({spanic}) like std, but the contents changed from {:?} to {gots:?}", op.human(), m.s)));
                }
            }
            (Ok(r), false) => {
                let (exp_ret, exp_s) = if overflow && op == Op::WriteFmt {
                    // fmt::Write on a full fixed string: Err, and a prefix of the text was written piecewise
                    let ok = gots.starts_with(m.s.as_str()) && FMT_TEXT.starts_with(&gots[m.s.len()..]) && gots.len() <= m.cap.unwrap();
                    if !ok {
                        return Err((step, "contents", format!("write! beyond capacity left {gots:?} (before: {:?}, capacity {})", m.s, m.cap.unwrap())));
                    }
                    ("Err(Error)".to_string(), gots.clone())
                } else if overflow {
                    ("Err(AllocError)".to_string(), m.s.clone())
                } else if tried {
                    ("Ok(())".to_string(), trial)
                } else {
                    (mres.unwrap(), trial)
                };
                if *r != exp_ret {
                    return Err((step, "ret", format!("{} on {:?} returned {r:?}, expected {exp_ret:?}", op.human(), m.s)));
                }
                if gots != exp_s {
                    return Err((step, "contents", format!("after {} on {:?} the contents are {gots:?}, expected {exp_s:?}", op.human(), m.s)));
                }
                changed = exp_s != m.s;
                m.s = exp_s;
            }
        }
        if let Err(e) = w.pieces_ok() {
            return Err((step, "piece", format!("after {}: {e}", op.human())));
        }
        if m.cap.is_some() {
            m.cap = w.cap();
        }
        m.boxed = w.boxed();
    }
    Ok(RunOut { model: m, panicked, changed, overflowed, chunks: 0 })
}

struct Cfg {
    name: &'static str,
    run_a: fn(&ACase, &[Op]) -> Result<RunOut, Fail>,
    run_b8: fn(usize, &[u8]) -> Result<(), String>,
    run_b16: fn(usize, &[u16]) -> Result<(), String>,
    run_c: fn(usize, &str) -> Result<(), String>,
}

macro_rules! cfg_mod {
    ($m:ident, $ma:literal, $up:literal) => {
        mod $m {
            pub type S = bump_scope::settings::BumpSettings<$ma, $up, true, true, true, true, 0>;
            include!("subject.rs");
        }
    };
}
cfg_mod!(up_a1, 1, true);
cfg_mod!(up_a8, 8, true);
cfg_mod!(down_a1, 1, false);
cfg_mod!(down_a8, 8, false);

macro_rules! cfg_entry {
    ($m:ident, $name:literal) => {
        Cfg { name: $name, run_a: $m::run_a, run_b8: $m::run_b8, run_b16: $m::run_b16, run_c: $m::run_c }
    };
}
static CFGS: [Cfg; 4] = [
    cfg_entry!(up_a1, "up-minalign1-mcs0"),
    cfg_entry!(up_a8, "up-minalign8-mcs0"),
    cfg_entry!(down_a1, "down-minalign1-mcs0"),
    cfg_entry!(down_a8, "down-minalign8-mcs0"),
];

// ----------------------------------------------------------------------------------------------------
// case strings
// ----------------------------------------------------------------------------------------------------

fn hexs<T: Copy + Into<u32>>(v: impl IntoIterator<Item = T>) -> String {
    let p: Vec<String> = v.into_iter().map(|x| format!("{:x}", x.into())).collect();
    if p.is_empty() { "-".into() } else { p.join(".") }
}
fn unhex(s: &str) -> Option<Vec<u32>> {
    if s == "-" || s.is_empty() {
        return Some(vec![]);
    }
    s.split('.').map(|x| u32::from_str_radix(x, 16).ok()).collect()
}
fn text_of(s: &str) -> Option<String> {
    unhex(s)?.into_iter().map(char::from_u32).collect()
}

fn a_case_string(case: &ACase, ops: &[Op]) -> String {
    let o: Vec<String> = ops.iter().map(Op::code).collect();
    format!(
        "A;cfg={};kind={};slack={};try={};init={};ops={}",
        CFGS[case.cfg].name,
        case.kind.code(),
        case.slack.map_or("-".to_string(), |k| k.to_string()),
        case.try_mode as u8,
        hexs(case.init.chars()),
        if o.is_empty() { "-".to_string() } else { o.join(",") }
    )
}
fn a_params(case: &ACase) -> String {
    let mut p = format!("{}, initial contents {:?}", case.kind.name(), case.init);
    if let Some(k) = case.slack {
        let _ = write!(p, ", capacity {}{}", case.init.len() + k, if case.try_mode { ", try_ variants" } else { "" });
    }
    p
}
fn a_history(case: &ACase, ops: &[Op]) -> String {
    let mut h = format!("init {:?}", case.init);
    for op in ops {
        let _ = write!(h, "; {}", op.human());
    }
    h
}

enum Parsed {
    A(ACase, Vec<Op>),
    B8(usize, usize, Vec<u8>),
    B16(usize, usize, Vec<u16>),
    C(usize, usize, String),
}

fn parse_case(s: &str) -> Option<Parsed> {
    let mut parts = s.split(';');
    let tag = parts.next()?;
    let kv: HashMap<&str, &str> = parts.filter_map(|p| p.split_once('=')).collect();
    let cfg = CFGS.iter().position(|c| c.name == *kv.get("cfg").unwrap_or(&""))?;
    let find = |names: &[&str]| names.iter().position(|n| Some(n) == kv.get("fn"));
    Some(match tag {
        "A" => {
            let kind = *KINDS.iter().find(|k| k.code() == *kv.get("kind").unwrap_or(&""))?;
            let slack = match *kv.get("slack")? {
                "-" => None,
                x => Some(x.parse().ok()?),
            };
            let ops = match *kv.get("ops")? {
                "-" | "" => vec![],
                x => x.split(',').map(Op::parse).collect::<Option<Vec<_>>>()?,
            };
            Parsed::A(ACase { cfg, kind, init: text_of(kv.get("init")?)?, slack, try_mode: *kv.get("try")? == "1" }, ops)
        }
        "B8" => Parsed::B8(cfg, find(&B8_FNS)?, unhex(kv.get("in")?)?.into_iter().map(|x| x as u8).collect()),
        "B16" => Parsed::B16(cfg, find(&B16_FNS)?, unhex(kv.get("in")?)?.into_iter().map(|x| x as u16).collect()),
        "C" => Parsed::C(cfg, find(&C_FNS)?, text_of(kv.get("in")?)?),
        _ => return None,
    })
}

// ----------------------------------------------------------------------------------------------------
// exploration
// ----------------------------------------------------------------------------------------------------

#[derive(Clone)]
struct Viol {
    sig: String,
    /// (history length, bytes of the initial contents / input, configuration index): the smallest case is reported per signature
    len: (usize, usize, usize),
    cfg: &'static str,
    params: String,
    history: String,
    msg: String,
    case: String,
}

#[derive(Default)]
struct Acc {
    transitions: u64,
    nontrivial: u64,
    histories: u64,
    dec_inputs: u64,
    dec_evals: u64,
    cstr_inputs: u64,
    cstr_evals: u64,
    overflow_checks: u64,
    multi_chunk: u64,
    viol_total: u64,
    states: HashMap<(usize, Kind), HashSet<u64>>,
    viols: BTreeMap<String, Viol>,
    samples: Vec<(usize, String)>,
}

impl Acc {
    fn viol(&mut self, v: Viol) {
        self.viol_total += 1;
        match self.viols.get(&v.sig) {
            Some(old) if (old.len, &old.case) <= (v.len, &v.case) => {}
            _ => {
                self.viols.insert(v.sig.clone(), v);
            }
        }
    }
    fn state(&mut self, case: &ACase, s: &str) {
        let mut h = std::collections::hash_map::DefaultHasher::new();
        s.hash(&mut h);
        self.states.entry((case.cfg, case.kind)).or_default().insert(h.finish());
    }
    fn merge(&mut self, o: Acc) {
        self.transitions += o.transitions;
        self.nontrivial += o.nontrivial;
        self.histories += o.histories;
        self.dec_inputs += o.dec_inputs;
        self.dec_evals += o.dec_evals;
        self.cstr_inputs += o.cstr_inputs;
        self.cstr_evals += o.cstr_evals;
        self.overflow_checks += o.overflow_checks;
        self.multi_chunk += o.multi_chunk;
        self.viol_total += o.viol_total;
        for (k, s) in o.states {
            self.states.entry(k).or_default().extend(s);
        }
        let total = self.viol_total;
        for (_, v) in o.viols {
            self.viol(v);
        }
        self.viol_total = total;
        self.samples.extend(o.samples);
    }
}

struct Infl<'a> {
    case: &'a ACase,
    ops: &'a [Op],
}
fn infl_fmt(p: *const ()) -> String {
    let i = unsafe { &*(p as *const Infl) };
    format!("replaycase=<<{}>>", a_case_string(i.case, i.ops))
}

/// Runs one history on a fresh arena.
fn run_history(case: &ACase, ops: &[Op]) -> Result<RunOut, Fail> {
    let infl = Infl { case, ops };
    vcore::crash::set_inflight_lazy(&infl as *const Infl as *const (), infl_fmt);
    let r = (CFGS[case.cfg].run_a)(case, ops);
    vcore::crash::clear_inflight();
    r
}

fn a_viol(case: &ACase, ops: &[Op], f: &Fail) -> Viol {
    let (step, tag, msg) = f;
    let opname = if *step == 0 { "create" } else { ops[step - 1].name() };
    Viol {
        sig: format!("{}{}/{opname}/{tag}", case.kind.code(), if case.slack.is_some() && *step > 0 && is_grow(ops[step - 1]) { "-tight" } else { "" }),
        len: (ops.len(), case.init.len(), case.cfg),
        cfg: CFGS[case.cfg].name,
        params: a_params(case),
        history: a_history(case, &ops[..(*step).max(1).min(ops.len())]),
        msg: format!("step {step}: {msg}"),
        case: a_case_string(case, ops),
    }
}

/// Pruning rule: an operation that panicked in std and in the subject and left the subject's contents unchanged
/// (this is checked by the oracle) leads back to the state it started from; the extensions of that state are explored
/// anyway as the siblings of the panicking operation, so the history is not extended through it. A `retain` whose
/// callback panicked leaves unspecified contents and is not extended either.
fn dfs(case: &ACase, prefix: &mut Vec<Op>, model: &Model, depth_left: usize, only: Option<usize>, acc: &mut Acc) {
    let alpha = alphabet(model.s.len(), case.kind, model.boxed);
    for (j, op) in alpha.into_iter().enumerate() {
        if only.is_some_and(|o| o != j) {
            continue;
        }
        prefix.push(op);
        acc.histories += 1;
        acc.transitions += 1;
        match run_history(case, prefix) {
            Ok(out) => {
                if out.panicked || out.changed {
                    acc.nontrivial += 1;
                }
                acc.overflow_checks += out.overflowed as u64;
                acc.multi_chunk += (out.chunks > 1) as u64;
                acc.state(case, &out.model.s);
                if !out.panicked && depth_left > 1 {
                    dfs(case, prefix, &out.model, depth_left - 1, None, acc);
                }
            }
            Err(f) => {
                acc.nontrivial += 1;
                acc.viol(a_viol(case, prefix, &f));
            }
        }
        prefix.pop();
    }
}

enum Item {
    /// `first`: None = only the empty history, Some(j) = all histories starting with the j-th operation of the initial alphabet
    A { case: ACase, first: Option<usize>, depth: usize, sample: bool },
    B8 { cfg: usize, first: Option<usize>, maxlen: usize },
    B16 { cfg: usize, first: Option<usize>, maxlen: usize },
    C { cfg: usize, maxlen: usize },
}

/// all strings over 0..n of length <= maxlen whose first symbol is `first` (None: only the empty string)
fn for_each_word(n: usize, maxlen: usize, first: Option<usize>, mut f: impl FnMut(&[usize])) {
    let Some(first) = first else {
        f(&[]);
        return;
    };
    for len in 1..=maxlen {
        let mut w = vec![0usize; len];
        w[0] = first;
        'outer: loop {
            f(&w);
            let mut i = len;
            loop {
                if i == 1 {
                    break 'outer;
                }
                i -= 1;
                w[i] += 1;
                if w[i] < n {
                    break;
                }
                w[i] = 0;
            }
        }
    }
}

fn run_item(idx: usize, item: &Item, acc: &mut Acc) {
    match item {
        Item::A { case, first, depth, sample } => {
            let model = Model { s: case.init.clone(), cap: None, boxed: false };
            match first {
                None => {
                    acc.histories += 1;
                    match run_history(case, &[]) {
                        Ok(out) => acc.state(case, &out.model.s),
                        Err(f) => acc.viol(a_viol(case, &[], &f)),
                    }
                }
                Some(j) => {
                    let mut prefix = Vec::new();
                    // the root model needs the observed capacity of a fixed string: take it from the empty history
                    let root = run_history(case, &[]).map(|o| o.model).unwrap_or(model);
                    dfs(case, &mut prefix, &root, *depth, Some(*j), acc);
                    if *sample {
                        // a sample: the deepest history of this item that starts with its first operation
                        let mut ops = vec![alphabet(case.init.len(), case.kind, false)[*j]];
                        let mut m;
                        while ops.len() < *depth {
                            let Ok(o) = run_history(case, &ops) else { break };
                            if o.panicked {
                                break;
                            }
                            m = o.model;
                            let al = alphabet(m.s.len(), case.kind, m.boxed);
                            ops.push(al[(idx * 31 + ops.len() * 17) % al.len()]);
                        }
                        acc.samples.push((idx, format!("[{} / {}] {}", CFGS[case.cfg].name, a_params(case), a_history(case, &ops))));
                    }
                }
            }
        }
        Item::B8 { cfg, first, maxlen } => {
            for_each_word(B8_ALPHA.len(), *maxlen, *first, |w| {
                let input: Vec<u8> = w.iter().map(|&i| B8_ALPHA[i]).collect();
                acc.dec_inputs += 1;
                for (f, name) in B8_FNS.iter().enumerate() {
                    acc.dec_evals += 1;
                    if let Err(msg) = (CFGS[*cfg].run_b8)(f, &input) {
                        acc.viol(Viol {
                            sig: format!("B8/{name}"),
                            len: (1, input.len(), *cfg),
                            cfg: CFGS[*cfg].name,
                            params: name.to_string(),
                            history: format!("{name}({input:02x?})"),
                            msg,
                            case: format!("B8;cfg={};fn={name};in={}", CFGS[*cfg].name, hexs(input.iter().copied())),
                        });
                    }
                }
            });
        }
        Item::B16 { cfg, first, maxlen } => {
            for_each_word(B16_ALPHA.len(), *maxlen, *first, |w| {
                let input: Vec<u16> = w.iter().map(|&i| B16_ALPHA[i]).collect();
                acc.dec_inputs += 1;
                for (f, name) in B16_FNS.iter().enumerate() {
                    acc.dec_evals += 1;
                    if let Err(msg) = (CFGS[*cfg].run_b16)(f, &input) {
                        acc.viol(Viol {
                            sig: format!("B16/{name}"),
                            len: (1, input.len(), *cfg),
                            cfg: CFGS[*cfg].name,
                            params: name.to_string(),
                            history: format!("{name}({input:04x?})"),
                            msg,
                            case: format!("B16;cfg={};fn={name};in={}", CFGS[*cfg].name, hexs(input.iter().copied())),
                        });
                    }
                }
            });
        }
        Item::C { cfg, maxlen } => {
            for first in std::iter::once(None).chain((0..C_ALPHA.len()).map(Some)) {
                for_each_word(C_ALPHA.len(), *maxlen, first, |w| {
                    let text: String = w.iter().map(|&i| C_ALPHA[i]).collect();
                    acc.cstr_inputs += 1;
                    for (f, name) in C_FNS.iter().enumerate() {
                        acc.cstr_evals += 1;
                        if let Err(msg) = (CFGS[*cfg].run_c)(f, &text) {
                            acc.viol(Viol {
                                sig: format!("C/{name}"),
                                len: (1, text.len(), *cfg),
                                cfg: CFGS[*cfg].name,
                                params: name.to_string(),
                                history: format!("{name}({text:?})"),
                                msg,
                                case: format!("C;cfg={};fn={name};in={}", CFGS[*cfg].name, hexs(text.chars())),
                            });
                        }
                    }
                });
            }
        }
    }
}

fn check(thorough: bool, threads: usize) -> (J, Vec<J>) {
    let t0 = Instant::now();
    let depth = if thorough { 3 } else { 2 };
    let tight_depth = if thorough { 2 } else { 1 };
    let (b8_len, b16_len, c_len) = (if thorough { 5 } else { 4 }, 4, 4);
    let mut items = Vec::new();
    for cfg in 0..CFGS.len() {
        for kind in KINDS {
            for init in INITS {
                let mut cases = vec![(ACase { cfg, kind, init: init.to_string(), slack: None, try_mode: false }, depth)];
                if kind == Kind::Fixed {
                    for slack in 0..4 {
                        for try_mode in [false, true] {
                            cases.push((ACase { cfg, kind, init: init.to_string(), slack: Some(slack), try_mode }, tight_depth));
                        }
                    }
                }
                for (case, depth) in cases {
                    let n = alphabet(init.len(), kind, false).len();
                    items.push(Item::A { case: case.clone(), first: None, depth, sample: false });
                    for j in 0..n {
                        // samples for the report: spread over the roomy cases, plus a few capacity-overflow cases
                        let sample = (items.len() * 7 + j) % if case.slack.is_none() { 211 } else { 4999 } == 0;
                        items.push(Item::A { case: case.clone(), first: Some(j), depth, sample });
                    }
                }
            }
        }
        items.push(Item::B8 { cfg, first: None, maxlen: b8_len });
        items.extend((0..B8_ALPHA.len()).map(|j| Item::B8 { cfg, first: Some(j), maxlen: b8_len }));
        items.push(Item::B16 { cfg, first: None, maxlen: b16_len });
        items.extend((0..B16_ALPHA.len()).map(|j| Item::B16 { cfg, first: Some(j), maxlen: b16_len }));
        items.push(Item::C { cfg, maxlen: c_len });
    }
    let next = AtomicUsize::new(0);
    let total: Mutex<Acc> = Mutex::new(Acc::default());
    std::thread::scope(|sc| {
        for _ in 0..threads {
            sc.spawn(|| {
                vcore::crash::install_thread_altstack();
                let mut acc = Acc::default();
                loop {
                    let i = next.fetch_add(1, Ordering::Relaxed);
                    if i >= items.len() {
                        break;
                    }
                    run_item(i, &items[i], &mut acc);
                }
                total.lock().unwrap().merge(acc);
            });
        }
    });
    let mut acc = total.into_inner().unwrap();
    acc.samples.sort();
    let n = acc.samples.len().max(1);
    let mut samples: Vec<String> = (0..6).map(|k| k * n / 6).filter_map(|i| acc.samples.get(i).map(|s| s.1.clone())).collect();
    samples.dedup();
    samples.push(format!("{}({:02x?}) vs String::from_utf8", B8_FNS[0], [0xE0u8, 0xA0, 0x80, 0xFF]));
    samples.push(format!("{}({:04x?}) vs String::from_utf16", B16_FNS[0], [0xD800u16, 0xDC00, 0xDFFF]));
    samples.push(format!("{}({:?}) == b\"a\\0\"", C_FNS[1], "a\0é"));
    let mut viols: Vec<Viol> = acc.viols.values().cloned().collect();
    viols.sort_by(|a, b| (a.len, &a.sig).cmp(&(b.len, &b.sig)));
    viols.truncate(8);
    let states: usize = acc.states.values().map(HashSet::len).sum();
    let evaluations = acc.transitions + acc.dec_evals + acc.cstr_evals;
    let cov = J::obj()
        .set("states", states)
        .set("transitions", acc.transitions)
        .set("traces_validated_against_impl", acc.histories + acc.dec_evals + acc.cstr_evals)
        .set("evaluations", evaluations)
        .set("distinct_nontrivial", acc.nontrivial)
        .set(
            "rule",
            "A: for 4 arena configurations (up/down x min-align 1/8, minimum chunk size 0, misaligned start) x 4 string types x 6 initial contents (1-4 byte chars, NUL): every operation sequence of length <= depth_bound over the full alphabet (push, push_str, pop, insert, insert_str, remove, truncate, clear, retain x3 incl. a panicking callback, drain x2, replace_range x2, extend_from_within, split_off, reserve, shrink_to_fit, write!, Display/Debug, consuming conversions and back), index and range arguments over every byte index 0..=len+1 of the current contents; each sequence runs on a fresh arena and is compared with std String after every step (panic outcome, result, contents, len, UTF-8 validity also after panics, capacity >= len, split-off pieces stay intact, no write outside granted memory); sequences are not extended through an operation that panicked in both and left the contents unchanged; plus FixedBumpString at capacity len+0..3 with panicking and try_ variants. B: all byte strings / u16 strings up to the length bound over boundary code units through every from_utf8/from_utf8_lossy/from_utf16/from_utf16_lossy constructor. C: all texts of <= 4 chars over {a, é, NUL} through every C-string constructor. transitions = final operations of the sequences (each executed sequence adds exactly one new compared operation); non-trivial = such an operation changed the contents or panicked",
        )
        .set("samples", samples)
        .set("exhaustive", true)
        .set("depth_bound", depth)
        .set("decoder_inputs", acc.dec_inputs)
        .set("decoder_evaluations", acc.dec_evals)
        .set("cstr_inputs", acc.cstr_inputs)
        .set("cstr_evaluations", acc.cstr_evals)
        .set("capacity_overflow_checks", acc.overflow_checks)
        .set("histories_crossing_chunks", acc.multi_chunk)
        .set("violating_cases_total", acc.viol_total)
        .set("work_items", items.len())
        .set("threads", threads);
    let vj: Vec<J> = viols
        .iter()
        .map(|v| J::obj().set("prop", "C09").set("cfg", v.cfg).set("params", v.params.as_str()).set("history", v.history.as_str()).set("msg", v.msg.as_str()).set("replay_args", vec!["--case".to_string(), v.case.clone()]))
        .collect();
    let space = J::obj()
        .set("property_id", "C09")
        .set("tier", if thorough { "thorough" } else { "quick" })
        .set("seed", 0)
        .set("level", "model_checking")
        .set("coverage", cov)
        .set("wall_s", t0.elapsed().as_secs_f64())
        .set("violations", vj.len())
        .set("floor", 1000)
        .set("floor_ok", acc.nontrivial >= 1000);
    (space, vj)
}

fn replay(case: &str) -> Result<(), (usize, String)> {
    match parse_case(case).unwrap_or_else(|| {
        eprintln!("cannot parse the case string");
        std::process::exit(2)
    }) {
        Parsed::A(c, ops) => run_history(&c, &ops).map(|_| ()).map_err(|(step, _, msg)| (step, msg)),
        Parsed::B8(cfg, f, input) => (CFGS[cfg].run_b8)(f, &input).map_err(|m| (0, m)),
        Parsed::B16(cfg, f, input) => (CFGS[cfg].run_b16)(f, &input).map_err(|m| (0, m)),
        Parsed::C(cfg, f, text) => (CFGS[cfg].run_c)(f, &text).map_err(|m| (0, m)),
    }
}

fn arg(args: &[String], name: &str) -> Option<String> {
    args.iter().position(|a| a == name).and_then(|i| args.get(i + 1).cloned())
}

fn main() {
    vcore::crash::install();
    let args: Vec<String> = std::env::args().collect();
    let cmd = args.get(1).map(String::as_str).unwrap_or("");
    let prop = arg(&args, "--prop").unwrap_or_default();
    if prop != "C09" {
        eprintln!("usage: str-mc check|replay --prop C09 ...");
        std::process::exit(2);
    }
    match cmd {
        "check" => {
            let thorough = arg(&args, "--tier").as_deref() == Some("thorough");
            let threads: usize = arg(&args, "--threads").and_then(|s| s.parse().ok()).unwrap_or_else(|| std::thread::available_parallelism().map_or(8, |n| n.get()));
            let (space, viols) = check(thorough, threads.max(1));
            for v in &viols {
                println!("VIOL {}", v.to_string());
            }
            println!("SPACE {}", space.to_string());
            println!("DONE violations={}", viols.len());
        }
        "replay" => {
            let case = arg(&args, "--case").expect("--case");
            match replay(&case) {
                Ok(()) => println!("REPLAY OK"),
                Err((step, m)) => println!("REPLAY VIOLATION step={step} msg={m}"),
            }
        }
        _ => {
            eprintln!("usage: str-mc check|replay --prop C09 ...");
            std::process::exit(2);
        }
    }
}
