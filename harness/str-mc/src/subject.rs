// Included once per arena configuration (see `cfg_mod!` in main.rs); `S` is the settings type of the module.

use super::{ACase, Fail, Kind, Op, PUSH_STRS, REPL, ROOMY, RunOut, Subj, drive, lossy, retain_pred};
use bump_scope::{Bump, BumpBox, BumpString, BumpVec, FixedBumpString, FixedBumpVec, MutBumpString, MutBumpVec};
use std::ffi::CStr;
use std::fmt::Write as _;
use std::panic::{AssertUnwindSafe, catch_unwind};
use std::ptr::NonNull;
use vcore::crash::take_last_panic;
use vcore::slab::{self, SlabCfg, SlabZ};

type B = Bump<SlabZ, S>;

fn check_pieces<P: std::ops::Deref<Target = str>>(pieces: &[(P, String)]) -> Result<(), String> {
    for (p, want) in pieces {
        if p.as_bytes() != want.as_bytes() {
            return Err(format!("a string returned by an earlier split_off changed from {want:?} to {:?}", lossy(p.as_bytes())));
        }
    }
    Ok(())
}

// ---- BumpBox<str> ----

pub struct WBox<'a> {
    b: Option<BumpBox<'a, str>>,
    pieces: Vec<(BumpBox<'a, str>, String)>,
}

impl Subj for WBox<'_> {
    fn apply(&mut self, op: Op) -> String {
        let s = self.b.as_mut().unwrap();
        if let Some(r) = shrink_ops!(s, op) {
            return r;
        }
        match op {
            Op::SplitOff(a, b) => {
                let p = s.split_off(a..b);
                let t = lossy(p.as_bytes());
                self.pieces.push((p, t.clone()));
                t
            }
            Op::Conv(k) => {
                let s = self.b.take().unwrap();
                let (t, n) = if k == 0 {
                    let bytes = s.into_boxed_bytes();
                    let t = lossy(&bytes);
                    (t, BumpBox::<str>::from_utf8(bytes).ok().expect("from_utf8 of into_boxed_bytes"))
                } else {
                    let f = FixedBumpString::from_init(s);
                    let t = lossy(f.as_bytes());
                    (t, f.into_boxed_str())
                };
                self.b = Some(n);
                t
            }
            _ => unreachable!("BumpBox<str> has no {op:?}"),
        }
    }
    fn bytes(&self) -> &[u8] {
        self.b.as_ref().map_or(&[], |b| b.as_bytes())
    }
    fn len(&self) -> usize {
        self.b.as_ref().map_or(0, |b| b.len())
    }
    fn cap(&self) -> Option<usize> {
        None
    }
    fn pieces_ok(&self) -> Result<(), String> {
        check_pieces(&self.pieces)
    }
}

// ---- BumpString<&Bump> ----

pub struct WBs<'a> {
    s: Option<BumpString<&'a B>>,
    bump: &'a B,
    pieces: Vec<(BumpString<&'a B>, String)>,
}

impl<'a> Subj for WBs<'a> {
    fn apply(&mut self, op: Op) -> String {
        let s = self.s.as_mut().unwrap();
        if let Some(r) = shrink_ops!(s, op) {
            return r;
        }
        if let Some(r) = grow_ops!(s, op) {
            return r;
        }
        match op {
            Op::SplitOff(a, b) => {
                let p = s.split_off(a..b);
                let t = lossy(p.as_bytes());
                self.pieces.push((p, t.clone()));
                t
            }
            Op::Shrink => {
                s.shrink_to_fit();
                String::new()
            }
            Op::Conv(k) => {
                let s = self.s.take().unwrap();
                let (t, n) = match k {
                    0 => {
                        let b = s.into_boxed_str();
                        (lossy(b.as_bytes()), BumpString::from_parts(FixedBumpString::from_init(b), self.bump))
                    }
                    1 => {
                        let v = s.into_bytes();
                        (lossy(&v), BumpString::from_utf8(v).ok().expect("from_utf8 of into_bytes"))
                    }
                    2 => {
                        let f = s.into_fixed_string();
                        (lossy(f.as_bytes()), BumpString::from_parts(f, self.bump))
                    }
                    _ => {
                        let r: &'a mut str = s.into_str();
                        let t = lossy(r.as_bytes());
                        let b = unsafe { BumpBox::from_raw(NonNull::from(r)) };
                        (t, BumpString::from_parts(FixedBumpString::from_init(b), self.bump))
                    }
                };
                self.s = Some(n);
                t
            }
            _ => unreachable!(),
        }
    }
    fn bytes(&self) -> &[u8] {
        self.s.as_ref().map_or(&[], |s| s.as_bytes())
    }
    fn len(&self) -> usize {
        self.s.as_ref().map_or(0, |s| s.len())
    }
    fn cap(&self) -> Option<usize> {
        self.s.as_ref().map(|s| s.capacity())
    }
    fn pieces_ok(&self) -> Result<(), String> {
        check_pieces(&self.pieces)
    }
}

// ---- MutBumpString<&mut Bump> (becomes a BumpBox<str> after into_boxed_str / into_str) ----

pub enum WMut<'a> {
    Live(MutBumpString<&'a mut B>),
    Boxed(WBox<'a>),
    Gone,
}

impl<'a> Subj for WMut<'a> {
    fn apply(&mut self, op: Op) -> String {
        if let Op::Conv(k) = op {
            if let WMut::Live(_) = self {
                let WMut::Live(s) = std::mem::replace(self, WMut::Gone) else { unreachable!() };
                let (t, n) = match k {
                    0 => {
                        let b = s.into_boxed_str();
                        (lossy(b.as_bytes()), WMut::Boxed(WBox { b: Some(b), pieces: Vec::new() }))
                    }
                    1 => {
                        let v = s.into_bytes();
                        (lossy(&v), WMut::Live(MutBumpString::from_utf8(v).ok().expect("from_utf8 of into_bytes")))
                    }
                    _ => {
                        let r: &'a mut str = s.into_str();
                        let t = lossy(r.as_bytes());
                        let b = unsafe { BumpBox::from_raw(NonNull::from(r)) };
                        (t, WMut::Boxed(WBox { b: Some(b), pieces: Vec::new() }))
                    }
                };
                *self = n;
                return t;
            }
        }
        match self {
            WMut::Live(s) => {
                if let Some(r) = shrink_ops!(s, op) {
                    return r;
                }
                if let Some(r) = grow_ops!(s, op) {
                    return r;
                }
                unreachable!("MutBumpString has no {op:?}")
            }
            WMut::Boxed(b) => b.apply(op),
            WMut::Gone => unreachable!(),
        }
    }
    fn bytes(&self) -> &[u8] {
        match self {
            WMut::Live(s) => s.as_bytes(),
            WMut::Boxed(b) => b.bytes(),
            WMut::Gone => &[],
        }
    }
    fn len(&self) -> usize {
        match self {
            WMut::Live(s) => s.len(),
            WMut::Boxed(b) => b.len(),
            WMut::Gone => 0,
        }
    }
    fn cap(&self) -> Option<usize> {
        match self {
            WMut::Live(s) => Some(s.capacity()),
            _ => None,
        }
    }
    fn boxed(&self) -> bool {
        !matches!(self, WMut::Live(_))
    }
    fn pieces_ok(&self) -> Result<(), String> {
        match self {
            WMut::Boxed(b) => b.pieces_ok(),
            _ => Ok(()),
        }
    }
}

// ---- FixedBumpString ----

pub struct WFixed<'a> {
    s: Option<FixedBumpString<'a>>,
    bump: &'a B,
    try_mode: bool,
    pieces: Vec<(FixedBumpString<'a>, String)>,
}

impl<'a> Subj for WFixed<'a> {
    fn apply(&mut self, op: Op) -> String {
        let s = self.s.as_mut().unwrap();
        if let Some(r) = shrink_ops!(s, op) {
            return r;
        }
        if self.try_mode {
            if let Some(r) = try_grow_ops!(s, op) {
                return r;
            }
        }
        if let Some(r) = grow_ops!(s, op) {
            return r;
        }
        match op {
            Op::SplitOff(a, b) => {
                let p = s.split_off(a..b);
                let t = lossy(p.as_bytes());
                self.pieces.push((p, t.clone()));
                t
            }
            Op::Conv(k) => {
                let s = self.s.take().unwrap();
                let (t, n) = match k {
                    0 => {
                        let b = s.into_boxed_str();
                        (lossy(b.as_bytes()), FixedBumpString::from_init(b))
                    }
                    1 => {
                        let v = s.into_bytes();
                        (lossy(&v), FixedBumpString::from_utf8(v).ok().expect("from_utf8 of into_bytes"))
                    }
                    2 => {
                        let g = s.into_string(self.bump);
                        (lossy(g.as_bytes()), g.into_fixed_string())
                    }
                    _ => {
                        let r: &'a mut str = s.into_str();
                        let t = lossy(r.as_bytes());
                        let b = unsafe { BumpBox::from_raw(NonNull::from(r)) };
                        (t, FixedBumpString::from_init(b))
                    }
                };
                self.s = Some(n);
                t
            }
            _ => unreachable!(),
        }
    }
    fn bytes(&self) -> &[u8] {
        self.s.as_ref().map_or(&[], |s| s.as_bytes())
    }
    fn len(&self) -> usize {
        self.s.as_ref().map_or(0, |s| s.len())
    }
    fn cap(&self) -> Option<usize> {
        self.s.as_ref().map(|s| s.capacity())
    }
    fn pieces_ok(&self) -> Result<(), String> {
        check_pieces(&self.pieces)
    }
}

// ---- drivers ----

/// fresh deterministic substrate; every arena starts with a 1-byte allocation so that the position is misaligned
fn fresh() -> B {
    slab::select(0);
    slab::reset(0, SlabCfg::default());
    let bump: B = Bump::new_in(SlabZ);
    let _ = bump.alloc(0u8);
    bump
}

/// after the arena is gone: no complaint from the substrate, canaries intact, everything released
fn substrate_verdict() -> Result<(), String> {
    slab::with_slab(0, |s| {
        if let Some(e) = s.errors.first() {
            return Err(format!("base allocator misuse: {e}"));
        }
        s.check_guards()?;
        if s.outstanding() != 0 {
            return Err(format!("{} chunk(s) not returned to the base allocator", s.outstanding()));
        }
        Ok(())
    })
}

pub fn run_a(case: &ACase, ops: &[Op]) -> Result<RunOut, Fail> {
    let r = catch_unwind(AssertUnwindSafe(|| {
        let mut bump = fresh();
        match case.kind {
            Kind::Bs => drive(&mut WBs { s: Some(BumpString::from_str_in(&case.init, &bump)), bump: &bump, pieces: Vec::new() }, case, ops),
            Kind::Mut => drive(&mut WMut::Live(MutBumpString::from_str_in(&case.init, &mut bump)), case, ops),
            Kind::Fixed => {
                let mut f = FixedBumpString::with_capacity_in(case.slack.map_or(ROOMY, |k| case.init.len() + k), &bump);
                f.push_str(&case.init);
                drive(&mut WFixed { s: Some(f), bump: &bump, try_mode: case.try_mode, pieces: Vec::new() }, case, ops)
            }
            Kind::Box => drive(&mut WBox { b: Some(bump.alloc_str(&case.init)), pieces: Vec::new() }, case, ops),
        }
    }));
    let mut out = match r {
        Ok(x) => x?,
        Err(_) => return Err((0, "harness", format!("panic outside an operation: {}", take_last_panic().unwrap_or_default()))),
    };
    substrate_verdict().map_err(|e| (ops.len(), "memory", e))?;
    out.chunks = slab::with_slab(0, |s| s.grants.len());
    Ok(out)
}

fn guarded(f: impl FnOnce() -> Result<(), String>) -> Result<(), String> {
    match catch_unwind(AssertUnwindSafe(f)) {
        Ok(r) => r?,
        Err(_) => return Err(format!("panicked: {}", take_last_panic().unwrap_or_default())),
    }
    substrate_verdict()
}

pub fn run_b8(f: usize, input: &[u8]) -> Result<(), String> {
    guarded(|| {
        let mut bump = fresh();
        let strict = String::from_utf8(input.to_vec());
        let lossy_std = String::from_utf8_lossy(input);
        macro_rules! strict {
            ($res:expr) => {
                match ($res, &strict) {
                    (Ok(s), Ok(e)) => {
                        if s.as_bytes() != e.as_bytes() {
                            return Err(format!("decoded to {:?}, std gives {e:?}", lossy(s.as_bytes())));
                        }
                    }
                    (Err(g), Err(e)) => {
                        if g.utf8_error() != e.utf8_error() {
                            return Err(format!("error {:?}, std reports {:?}", g.utf8_error(), e.utf8_error()));
                        }
                        if g.as_bytes() != input {
                            return Err(format!("the error does not hand back the input bytes: {:02x?}", g.as_bytes()));
                        }
                    }
                    (Ok(s), Err(e)) => return Err(format!("accepted invalid UTF-8 as {:02x?}; std: {e}", s.as_bytes())),
                    (Err(g), Ok(e)) => return Err(format!("rejected valid UTF-8 {e:?}: {:?}", g.utf8_error())),
                }
            };
        }
        macro_rules! same {
            ($got:expr) => {{
                let g = $got;
                if g.as_bytes() != lossy_std.as_bytes() {
                    return Err(format!("lossy decoding gives {:?} ({:02x?}), std gives {:?}", lossy(g.as_bytes()), g.as_bytes(), lossy_std));
                }
                if g.capacity() < g.len() {
                    return Err(format!("capacity {} < len {}", g.capacity(), g.len()));
                }
            }};
        }
        match f {
            0 => {
                let mut v = BumpVec::with_capacity_in(input.len(), &bump);
                v.extend_from_slice_copy(input);
                strict!(BumpString::from_utf8(v))
            }
            1 => {
                let mut v = MutBumpVec::with_capacity_in(input.len(), &mut bump);
                v.extend_from_slice_copy(input);
                strict!(MutBumpString::from_utf8(v))
            }
            2 => strict!(FixedBumpString::from_utf8(FixedBumpVec::from_init(bump.alloc_slice_copy(input)))),
            3 => strict!(BumpBox::<str>::from_utf8(bump.alloc_slice_copy(input))),
            4 => same!(BumpString::from_utf8_lossy_in(input, &bump)),
            _ => same!(MutBumpString::from_utf8_lossy_in(input, &mut bump)),
        }
        Ok(())
    })
}

pub fn run_b16(f: usize, input: &[u16]) -> Result<(), String> {
    guarded(|| {
        let mut bump = fresh();
        let strict = String::from_utf16(input);
        let lossy_std = String::from_utf16_lossy(input);
        macro_rules! strict {
            ($res:expr) => {
                match ($res, &strict) {
                    (Ok(s), Ok(e)) => {
                        if s.as_bytes() != e.as_bytes() {
                            return Err(format!("decoded to {:?} ({:02x?}), std gives {e:?}", lossy(s.as_bytes()), s.as_bytes()));
                        }
                    }
                    (Err(_), Err(_)) => {}
                    (Ok(s), Err(e)) => return Err(format!("accepted invalid UTF-16 as {:02x?}; std: {e}", s.as_bytes())),
                    (Err(g), Ok(e)) => return Err(format!("rejected valid UTF-16 {e:?}: {g}")),
                }
            };
        }
        macro_rules! same {
            ($got:expr) => {{
                let g = $got;
                if g.as_bytes() != lossy_std.as_bytes() {
                    return Err(format!("lossy decoding gives {:?} ({:02x?}), std gives {:?}", lossy(g.as_bytes()), g.as_bytes(), lossy_std));
                }
            }};
        }
        match f {
            0 => strict!(BumpString::from_utf16_in(input, &bump)),
            1 => strict!(MutBumpString::from_utf16_in(input, &mut bump)),
            2 => same!(BumpString::from_utf16_lossy_in(input, &bump)),
            _ => same!(MutBumpString::from_utf16_lossy_in(input, &mut bump)),
        }
        Ok(())
    })
}

pub fn run_c(f: usize, text: &str) -> Result<(), String> {
    guarded(|| {
        let mut bump = fresh();
        let raw = text.as_bytes();
        let n = raw.iter().position(|&c| c == 0).unwrap_or(raw.len());
        let mut expect = raw[..n].to_vec();
        expect.push(0);
        let k = text.char_indices().nth(text.chars().count() / 2).map_or(text.len(), |(i, _)| i);
        // (bytes as the CStr reports them, bytes found in memory by scanning for the terminator)
        let both = |c: &CStr| (c.to_bytes_with_nul().to_vec(), unsafe { CStr::from_ptr(c.as_ptr()) }.to_bytes_with_nul().to_vec());
        let (got, mem) = match f {
            0 => both(bump.alloc_cstr_from_str(text)),
            1 => both(bump.alloc_cstr_fmt(format_args!("{text}"))),
            2 => both(bump.alloc_cstr_fmt_mut(format_args!("{text}"))),
            3 => both(BumpString::from_str_in(text, &bump).into_cstr()),
            4 => both(MutBumpString::from_str_in(text, &mut bump).into_cstr()),
            5 => both(bump.alloc_cstr_fmt(format_args!("{}{}", &text[..k], &text[k..]))),
            _ => both(bump.alloc_cstr_fmt_mut(format_args!("{}{}", &text[..k], &text[k..]))),
        };
        if got != expect {
            return Err(format!("C string bytes are {got:02x?}, expected {expect:02x?} (text up to the first NUL, then one NUL)"));
        }
        if mem != expect {
            return Err(format!("bytes in memory up to the terminator are {mem:02x?}, expected {expect:02x?}"));
        }
        Ok(())
    })
}
