//! pool-seq: sequential part of C19. Every history (up to a depth bound) of pool operations on one thread, with the
//! *real* std Mutex (no hook), against an instrumented base allocator that can refuse or panic on demand. This is the
//! half of C19 that loom cannot see: loom's Mutex never poisons, while a base allocator that panics inside `get`
//! poisons the pool's mutex.
//!
//! usage: pool-seq check --prop C19 --tier quick|thorough
//!        pool-seq replay --prop C19 --case "<ops>"

use bump_scope::alloc::{AllocError, Allocator};
use bump_scope::{BumpPool, BumpPoolGuard};
use std::alloc::Layout;
use std::cell::RefCell;
use std::collections::{BTreeMap, BTreeSet};
use std::panic::{AssertUnwindSafe, catch_unwind};
use std::ptr::NonNull;
use std::sync::Mutex;
use std::sync::atomic::{AtomicBool, AtomicU64, AtomicUsize, Ordering};
use std::time::{Duration, Instant};
use vcore::json::J;

#[derive(Clone, Copy, PartialEq, Eq, Debug)]
enum Mode {
    Normal,
    Refuse,
    Panic,
}

struct State {
    mode: Mode,
    live: BTreeMap<usize, (usize, usize)>,
    allocs: u64,
    deallocs: u64,
    refused: u64,
    panicked: u64,
    errors: Vec<String>,
}

thread_local! {
    static ST: RefCell<State> = RefCell::new(State { mode: Mode::Normal, live: BTreeMap::new(), allocs: 0, deallocs: 0, refused: 0, panicked: 0, errors: Vec::new() });
}

fn st<R>(f: impl FnOnce(&mut State) -> R) -> R {
    ST.with(|s| f(&mut s.borrow_mut()))
}

#[derive(Clone, Default)]
struct Track;

unsafe impl Allocator for Track {
    fn allocate(&self, layout: Layout) -> Result<NonNull<[u8]>, AllocError> {
        match st(|s| s.mode) {
            Mode::Panic => {
                st(|s| s.panicked += 1);
                panic!("injected: base allocator panics");
            }
            Mode::Refuse => {
                st(|s| s.refused += 1);
                return Err(AllocError);
            }
            Mode::Normal => {}
        }
        let p = unsafe { std::alloc::alloc(layout) };
        let Some(nn) = NonNull::new(p) else { return Err(AllocError) };
        unsafe { std::ptr::write_bytes(p, 0xCD, layout.size()) };
        st(|s| {
            s.allocs += 1;
            s.live.insert(p as usize, (layout.size(), layout.align()));
        });
        Ok(NonNull::slice_from_raw_parts(nn, layout.size()))
    }

    unsafe fn deallocate(&self, ptr: NonNull<u8>, layout: Layout) {
        let known = st(|s| {
            s.deallocs += 1;
            s.live.remove(&(ptr.as_ptr() as usize))
        });
        match known {
            Some((size, align)) if size == layout.size() && align == layout.align() => unsafe {
                // poison, so that stale reads are visible
                std::ptr::write_bytes(ptr.as_ptr(), 0xDE, size);
                std::alloc::dealloc(ptr.as_ptr(), layout)
            },
            Some((size, align)) => st(|s| s.errors.push(format!("deallocate with layout {layout:?} of a block granted with size {size} align {align}"))),
            None => st(|s| s.errors.push(format!("deallocate of a block that is not live: {:p}", ptr.as_ptr()))),
        }
    }
}

#[derive(Clone, Copy, PartialEq, Eq, Debug, Hash)]
enum Op {
    Get,
    TryGet,
    GetWithSize,
    GetWithCapacity,
    TryGetWithSize,
    TryGetWithCapacity,
    /// `get()` while the base allocator panics (unwinds out of `get` iff a new arena is needed)
    GetPanics,
    /// `try_get()` while the base allocator refuses
    TryGetRefused,
    /// allocate a patterned block through guard i (0 = oldest live, 1 = newest live)
    Alloc(u8),
    /// a block that needs a further chunk
    AllocBig(u8),
    DropGuard(u8),
    /// the newest guard is dropped by a panic that unwinds through its owner: the arena goes back to the pool all the same
    DropGuardUnwinding,
    Reset,
    ResetToStart,
}

impl Op {
    fn text(&self) -> String {
        match self {
            Op::Get => "get".into(),
            Op::TryGet => "try_get".into(),
            Op::GetWithSize => "get_with_size".into(),
            Op::GetWithCapacity => "get_with_capacity".into(),
            Op::TryGetWithSize => "try_get_with_size".into(),
            Op::TryGetWithCapacity => "try_get_with_capacity".into(),
            Op::GetPanics => "get_panics".into(),
            Op::TryGetRefused => "try_get_refused".into(),
            Op::Alloc(i) => format!("alloc.{i}"),
            Op::AllocBig(i) => format!("alloc_big.{i}"),
            Op::DropGuard(i) => format!("drop.{i}"),
            Op::DropGuardUnwinding => "drop_unwinding".into(),
            Op::Reset => "reset".into(),
            Op::ResetToStart => "reset_to_start".into(),
        }
    }
    fn parse(s: &str) -> Option<Op> {
        let (h, a) = match s.split_once('.') {
            Some((h, a)) => (h, a.parse::<u8>().ok()?),
            None => (s, 0),
        };
        Some(match h {
            "get" => Op::Get,
            "try_get" => Op::TryGet,
            "get_with_size" => Op::GetWithSize,
            "get_with_capacity" => Op::GetWithCapacity,
            "try_get_with_size" => Op::TryGetWithSize,
            "try_get_with_capacity" => Op::TryGetWithCapacity,
            "get_panics" => Op::GetPanics,
            "try_get_refused" => Op::TryGetRefused,
            "alloc" => Op::Alloc(a),
            "alloc_big" => Op::AllocBig(a),
            "drop" => Op::DropGuard(a),
            "drop_unwinding" => Op::DropGuardUnwinding,
            "reset" => Op::Reset,
            "reset_to_start" => Op::ResetToStart,
            _ => return None,
        })
    }
}

fn alphabet() -> Vec<Op> {
    vec![
        Op::Get,
        Op::TryGet,
        Op::GetWithSize,
        Op::GetWithCapacity,
        Op::TryGetWithSize,
        Op::TryGetWithCapacity,
        Op::GetPanics,
        Op::TryGetRefused,
        Op::Alloc(0),
        Op::Alloc(1),
        Op::AllocBig(0),
        Op::AllocBig(1),
        Op::DropGuard(0),
        Op::DropGuard(1),
        Op::DropGuardUnwinding,
        Op::Reset,
        Op::ResetToStart,
    ]
}

type Guard = BumpPoolGuard<'static, Track>;

struct Block {
    ptr: usize,
    len: usize,
    pat: u8,
}

#[derive(Default)]
struct Cover {
    reused: bool,
    poisoned: bool,
    refused: bool,
    two_guards: bool,
    reset_with_data: bool,
}

enum Outcome {
    Disabled(usize),
    Ok(Cover),
    Viol(usize, String),
}

fn chunks_of(g: &Guard) -> BTreeSet<usize> {
    g.stats().small_to_big().map(|c| c.chunk_start().as_ptr() as usize).collect()
}

fn run(hist: &[Op]) -> Outcome {
    struct Infl<'a>(&'a [Op]);
    fn fmt(p: *const ()) -> String {
        format!("replaycase=<<{}>>", hist_text(unsafe { &*(p as *const Infl<'_>) }.0))
    }
    let infl = Infl(hist);
    vcore::crash::with_inflight(&infl, fmt, || run_inner(hist))
}

fn run_inner(hist: &[Op]) -> Outcome {
    st(|s| {
        *s = State { mode: Mode::Normal, live: BTreeMap::new(), allocs: 0, deallocs: 0, refused: 0, panicked: 0, errors: Vec::new() };
    });
    let _ = vcore::crash::take_last_panic();
    let pool_box: *mut BumpPool<Track> = Box::into_raw(Box::new(BumpPool::new_in(Track)));
    // guards hold `&'static BumpPool`; `reset*` is only executed while no guard is alive
    let pool: &'static BumpPool<Track> = unsafe { &*pool_box };
    let mut guards: Vec<Guard> = Vec::new();
    let mut blocks: Vec<Block> = Vec::new();
    // every arena ever seen, as the set of its chunk addresses at the time it was last observed
    let mut arenas: Vec<BTreeSet<usize>> = Vec::new();
    let mut peak = 0usize;
    let mut cover = Cover::default();
    let mut next_pat = 1u8;
    let mut result: Option<Outcome> = None;
    macro_rules! viol {
        ($i:expr, $($t:tt)*) => {{
            result = Some(Outcome::Viol($i, format!($($t)*)));
            break;
        }};
    }
    for (i, op) in hist.iter().enumerate() {
        let deallocs_before = st(|s| s.deallocs);
        let live_before = guards.len();
        let mut new_guard: Option<Guard> = None;
        let mut may_release = false;
        match *op {
            Op::Get => new_guard = Some(pool.get()),
            Op::TryGet => match pool.try_get() {
                Ok(g) => new_guard = Some(g),
                Err(_) => viol!(i, "try_get failed although the base allocator refused nothing"),
            },
            Op::GetWithSize => new_guard = Some(pool.get_with_size(1024)),
            Op::GetWithCapacity => new_guard = Some(pool.get_with_capacity(Layout::from_size_align(300, 8).unwrap())),
            Op::TryGetWithSize => match pool.try_get_with_size(1024) {
                Ok(g) => new_guard = Some(g),
                Err(_) => viol!(i, "try_get_with_size failed although the base allocator refused nothing"),
            },
            Op::TryGetWithCapacity => match pool.try_get_with_capacity(Layout::from_size_align(300, 8).unwrap()) {
                Ok(g) => new_guard = Some(g),
                Err(_) => viol!(i, "try_get_with_capacity failed although the base allocator refused nothing"),
            },
            Op::GetPanics => {
                st(|s| s.mode = Mode::Panic);
                let before = st(|s| s.panicked);
                let r = catch_unwind(AssertUnwindSafe(|| pool.get()));
                st(|s| s.mode = Mode::Normal);
                let hit = st(|s| s.panicked) != before;
                match r {
                    Ok(g) => {
                        if hit {
                            viol!(i, "get() returned a guard although the base allocator panicked");
                        }
                        new_guard = Some(g)
                    }
                    Err(_) => {
                        let _ = vcore::crash::take_last_panic();
                        if !hit {
                            viol!(i, "get() panicked although an idle arena was available and the base allocator was not called");
                        }
                        cover.poisoned = true;
                    }
                }
            }
            Op::TryGetRefused => {
                st(|s| s.mode = Mode::Refuse);
                let before = st(|s| s.refused);
                let r = catch_unwind(AssertUnwindSafe(|| pool.try_get()));
                st(|s| s.mode = Mode::Normal);
                let hit = st(|s| s.refused) != before;
                match r {
                    Ok(Ok(g)) => {
                        if hit {
                            viol!(i, "try_get() returned a guard although the base allocator refused");
                        }
                        new_guard = Some(g)
                    }
                    Ok(Err(_)) => {
                        if !hit {
                            viol!(i, "try_get() failed although the base allocator refused nothing");
                        }
                        cover.refused = true;
                    }
                    Err(_) => viol!(i, "try_get() panicked: {}", vcore::crash::take_last_panic().unwrap_or_default()),
                }
            }
            Op::Alloc(k) | Op::AllocBig(k) => {
                if guards.is_empty() || (k == 1 && guards.len() < 2) {
                    result = Some(Outcome::Disabled(i));
                    break;
                }
                let gi = if k == 0 { 0 } else { guards.len() - 1 };
                let len = if matches!(op, Op::AllocBig(_)) { 700 } else { 24 };
                let pat = next_pat;
                next_pat = next_pat.wrapping_add(1).max(1);
                let p = guards[gi].alloc_slice_fill(len, pat).into_raw();
                blocks.push(Block { ptr: p.as_ptr() as *mut u8 as usize, len, pat });
            }
            Op::DropGuard(k) => {
                if guards.is_empty() || (k == 1 && guards.len() < 2) {
                    result = Some(Outcome::Disabled(i));
                    break;
                }
                let gi = if k == 0 { 0 } else { guards.len() - 1 };
                let g = guards.remove(gi);
                let cs = chunks_of(&g);
                // remember the arena's final chunk set
                if let Some(a) = arenas.iter_mut().find(|a| !a.is_disjoint(&cs)) {
                    *a = cs;
                }
                drop(g);
            }
            Op::DropGuardUnwinding => {
                if guards.is_empty() {
                    result = Some(Outcome::Disabled(i));
                    break;
                }
                let g = guards.pop().unwrap();
                let cs = chunks_of(&g);
                if let Some(a) = arenas.iter_mut().find(|a| !a.is_disjoint(&cs)) {
                    *a = cs;
                }
                let r = catch_unwind(AssertUnwindSafe(move || {
                    let _owner = g;
                    std::panic::resume_unwind(Box::new("a user of the pool panics"));
                }));
                debug_assert!(r.is_err());
                let _ = vcore::crash::take_last_panic();
            }
            Op::Reset | Op::ResetToStart => {
                if !guards.is_empty() {
                    result = Some(Outcome::Disabled(i));
                    break;
                }
                if !blocks.is_empty() {
                    cover.reset_with_data = true;
                }
                let pm: &mut BumpPool<Track> = unsafe { &mut *pool_box };
                let counts: Vec<usize> = pm.bumps().iter().map(|b| b.stats().count()).collect();
                if *op == Op::Reset {
                    pm.reset();
                    may_release = true;
                } else {
                    pm.reset_to_start();
                }
                blocks.clear();
                let idle = pm.bumps().len();
                if idle != arenas.len() {
                    viol!(i, "the pool holds {idle} idle arenas but {} were created and none is handed out", arenas.len());
                }
                for (j, b) in pm.bumps().iter().enumerate() {
                    let s = b.stats();
                    if s.allocated() != 0 {
                        viol!(i, "after {} arena {j} still reports {} allocated bytes", op.text(), s.allocated());
                    }
                    if *op == Op::Reset && s.count() > 1 {
                        viol!(i, "after reset arena {j} still has {} chunks", s.count());
                    }
                    if *op == Op::ResetToStart && s.count() != counts[j] {
                        viol!(i, "reset_to_start changed the number of chunks of arena {j}: {} -> {}", counts[j], s.count());
                    }
                }
                if result.is_some() {
                    break;
                }
                // chunk sets changed: re-learn them
                arenas = pm.bumps().iter().map(|b| b.stats().small_to_big().map(|c| c.chunk_start().as_ptr() as usize).collect()).collect();
            }
        }
        if let Some(g) = new_guard {
            let cs = chunks_of(&g);
            if cs.is_empty() {
                viol!(i, "{} returned a guard without a chunk", op.text());
            }
            if !std::ptr::eq(g.pool(), pool_box as *const BumpPool<Track>) {
                viol!(i, "{}: the guard's pool() is not the pool it was taken from", op.text());
            }
            for (j, other) in guards.iter().enumerate() {
                if !chunks_of(other).is_disjoint(&cs) {
                    viol!(i, "{} handed out the arena that live guard {j} already owns", op.text());
                }
            }
            if result.is_some() {
                break;
            }
            match arenas.iter_mut().find(|a| !a.is_disjoint(&cs)) {
                Some(a) => {
                    *a = cs;
                    cover.reused = true;
                }
                None => {
                    // a new arena: only legitimate if every arena created so far is handed out
                    if arenas.len() > live_before {
                        viol!(i, "{} created a new arena although {} idle arena(s) were available", op.text(), arenas.len() - live_before);
                    }
                    arenas.push(cs);
                }
            }
            guards.push(g);
            if guards.len() >= 2 {
                cover.two_guards = true;
            }
        }
        peak = peak.max(guards.len());
        if arenas.len() > peak {
            viol!(i, "{} arenas were created although at most {peak} guards were alive at the same time", arenas.len());
        }
        // nothing is released before the pool is reset or dropped
        let d = st(|s| s.deallocs);
        if d != deallocs_before && !may_release {
            viol!(i, "{} released {} chunk(s) to the base allocator although the pool was neither reset nor dropped", op.text(), d - deallocs_before);
        }
        // everything allocated since the last reset is intact and its chunk is still granted
        for b in &blocks {
            let inside = st(|s| s.live.range(..=b.ptr).next_back().map_or(false, |(&a, &(sz, _))| b.ptr + b.len <= a + sz));
            if !inside {
                viol!(i, "a block allocated through a guard no longer lies in memory granted by the base allocator after {}", op.text());
            }
            let ok = unsafe { std::slice::from_raw_parts(b.ptr as *const u8, b.len) }.iter().all(|&x| x == b.pat);
            if !ok {
                viol!(i, "a block allocated through a guard changed after {}", op.text());
            }
        }
        if result.is_some() {
            break;
        }
        if let Some(e) = st(|s| s.errors.first().cloned()) {
            viol!(i, "base allocator protocol: {e}");
        }
    }
    // tear down: guards first, then the pool; every chunk goes back exactly once
    drop(guards);
    unsafe { drop(Box::from_raw(pool_box)) };
    if result.is_none() {
        let (live, errs) = st(|s| (s.live.len(), s.errors.first().cloned()));
        if let Some(e) = errs {
            result = Some(Outcome::Viol(hist.len(), format!("base allocator protocol: {e}")));
        } else if live != 0 {
            result = Some(Outcome::Viol(hist.len(), format!("{live} chunk(s) were never released after the pool was dropped")));
        }
    } else {
        // leaked memory of aborted runs is returned here
        let rest: Vec<(usize, (usize, usize))> = st(|s| std::mem::take(&mut s.live).into_iter().collect());
        for (a, (sz, al)) in rest {
            unsafe { std::alloc::dealloc(a as *mut u8, Layout::from_size_align(sz, al).unwrap()) };
        }
    }
    result.unwrap_or(Outcome::Ok(cover))
}

fn hist_text(h: &[Op]) -> String {
    h.iter().map(|o| o.text()).collect::<Vec<_>>().join(" ")
}

fn arg(args: &[String], name: &str) -> Option<String> {
    args.iter().position(|a| a == name).and_then(|i| args.get(i + 1).cloned())
}

fn main() {
    vcore::crash::install();
    let args: Vec<String> = std::env::args().collect();
    match args.get(1).map(String::as_str).unwrap_or("") {
        "check" => {
            let prop = arg(&args, "--prop").unwrap_or_else(|| "C19".into());
            let thorough = arg(&args, "--tier").as_deref() == Some("thorough");
            let secs: u64 = arg(&args, "--secs").and_then(|s| s.parse().ok()).unwrap_or(if thorough { 900 } else { 50 });
            let depth: usize = arg(&args, "--depth").and_then(|s| s.parse().ok()).unwrap_or(if thorough { 8 } else { 6 });
            let deadline = Instant::now() + Duration::from_secs(secs);
            let t0 = Instant::now();
            let alpha = alphabet();
            // work items: all enabled prefixes of length 2, each explored depth-first by one worker
            let mut seeds: Vec<Vec<Op>> = Vec::new();
            for a in &alpha {
                for b in &alpha {
                    seeds.push(vec![*a, *b]);
                }
            }
            let evals = AtomicU64::new(0);
            let nontriv = AtomicU64::new(0);
            let (c_reused, c_poison, c_refused, c_two, c_reset) = (AtomicU64::new(0), AtomicU64::new(0), AtomicU64::new(0), AtomicU64::new(0), AtomicU64::new(0));
            let capped = AtomicBool::new(false);
            let viols: Mutex<Vec<(Vec<Op>, usize, String)>> = Mutex::new(Vec::new());
            let next = AtomicUsize::new(0);
            let threads = std::thread::available_parallelism().map_or(8, |n| n.get());
            let account = |c: &Cover| {
                if c.reused { c_reused.fetch_add(1, Ordering::Relaxed); }
                if c.poisoned { c_poison.fetch_add(1, Ordering::Relaxed); }
                if c.refused { c_refused.fetch_add(1, Ordering::Relaxed); }
                if c.two_guards { c_two.fetch_add(1, Ordering::Relaxed); }
                if c.reset_with_data { c_reset.fetch_add(1, Ordering::Relaxed); }
                if c.reused || c.poisoned || c.two_guards || c.reset_with_data {
                    nontriv.fetch_add(1, Ordering::Relaxed);
                }
            };
            // histories of length 0 and 1
            for h in std::iter::once(vec![]).chain(alpha.iter().map(|o| vec![*o])) {
                evals.fetch_add(1, Ordering::Relaxed);
                match run(&h) {
                    Outcome::Viol(s, m) => viols.lock().unwrap().push((h, s, m)),
                    Outcome::Ok(c) => account(&c),
                    Outcome::Disabled(_) => {}
                }
            }
            std::thread::scope(|sc| {
                for _ in 0..threads {
                    sc.spawn(|| {
                        vcore::crash::install_thread_altstack();
                        loop {
                            let i = next.fetch_add(1, Ordering::Relaxed);
                            if i >= seeds.len() {
                                break;
                            }
                            let mut stack = vec![seeds[i].clone()];
                            while let Some(h) = stack.pop() {
                                if Instant::now() > deadline {
                                    capped.store(true, Ordering::Relaxed);
                                    return;
                                }
                                if viols.lock().unwrap().len() >= 8 {
                                    return;
                                }
                                evals.fetch_add(1, Ordering::Relaxed);
                                match run(&h) {
                                    Outcome::Disabled(_) => continue,
                                    Outcome::Viol(s, m) => {
                                        viols.lock().unwrap().push((h, s, m));
                                        continue;
                                    }
                                    Outcome::Ok(c) => account(&c),
                                }
                                if h.len() < depth {
                                    for o in alpha.iter().rev() {
                                        let mut h2 = h.clone();
                                        h2.push(*o);
                                        stack.push(h2);
                                    }
                                }
                            }
                        }
                    });
                }
            });
            let mut viols = viols.into_inner().unwrap();
            viols.sort_by_key(|v| v.0.len());
            for (h, s, m) in &viols {
                let vj = J::obj()
                    .set("prop", prop.as_str())
                    .set("cfg", "BumpPool<Track> (std Mutex, single thread)")
                    .set("params", "")
                    .set("history", hist_text(h))
                    .set("step", *s)
                    .set("msg", m.as_str())
                    .set("replay_args", vec!["--case".to_string(), hist_text(h)]);
                println!("VIOL {}", vj.to_string());
            }
            let ev = evals.load(Ordering::Relaxed);
            let nt = nontriv.load(Ordering::Relaxed);
            let mut vac = J::obj();
            vac.put("arena_reused", c_reused.load(Ordering::Relaxed));
            vac.put("mutex_poisoned_by_panicking_get", c_poison.load(Ordering::Relaxed));
            vac.put("try_get_refused", c_refused.load(Ordering::Relaxed));
            vac.put("two_live_guards", c_two.load(Ordering::Relaxed));
            vac.put("reset_with_data", c_reset.load(Ordering::Relaxed));
            let cov = J::obj()
                .set("states", nt)
                .set("transitions", ev)
                .set("traces_validated_against_impl", ev)
                .set("evaluations", ev)
                .set("distinct_nontrivial", nt)
                .set("rule", "sequential half of C19: every enabled history up to the depth bound over {get, try_get, get_with_size, get_with_capacity, get with a panicking base allocator (poisons the pool mutex), try_get with a refusing base allocator, allocate a small / chunk-growing patterned block through the oldest / newest live guard, drop the oldest / newest guard, drop the newest guard by a panic that unwinds through its owner, reset, reset_to_start} on the real BumpPool with the real std Mutex; after every step: live guards own disjoint arenas, a new arena is only created when none is idle (arenas created <= peak live guards), nothing is released to the base allocator before reset / drop, all blocks allocated since the last reset are intact and lie in granted memory, reset / reset_to_start leave every arena empty with <= 1 / the same number of chunks, and after dropping the pool every chunk was released exactly once; non-trivial = an arena was reused, the mutex was poisoned, two guards were alive, or a reset discarded data")
                .set("samples", vec!["get alloc.0 get_panics drop.0 get".to_string(), "get get alloc_big.1 drop.0 drop.0 reset".to_string()])
                .set("exhaustive", !capped.load(Ordering::Relaxed))
                .set("depth_bound", depth)
                .set("alphabet_size", alpha.len())
                .set("vacuity_counters", vac);
            let space = J::obj()
                .set("property_id", prop.as_str())
                .set("tier", if thorough { "thorough" } else { "quick" })
                .set("seed", 0)
                .set("level", "model_checking")
                .set("space", "pool-sequential-histories")
                .set("coverage", cov)
                .set("wall_s", t0.elapsed().as_secs_f64())
                .set("violations", viols.len())
                .set("floor", 1000)
                .set("floor_ok", nt >= 1000 || !viols.is_empty() || capped.load(Ordering::Relaxed));
            println!("SPACE {}", space.to_string());
            println!("DONE violations={}", viols.len());
        }
        "replay" => {
            let case = arg(&args, "--case").unwrap_or_default();
            let hist: Vec<Op> = case.split_whitespace().map(|s| Op::parse(s).expect("op")).collect();
            match run(&hist) {
                Outcome::Viol(s, m) => println!("REPLAY VIOLATION step={s} msg={m}"),
                Outcome::Disabled(d) => println!("REPLAY DISABLED at={d}"),
                Outcome::Ok(_) => println!("REPLAY OK"),
            }
        }
        _ => {
            eprintln!("usage: pool-seq check|replay ...");
            std::process::exit(2);
        }
    }
}
