//! C07, overflowing requests on collections: "whenever ... a size computation overflows, every try_-prefixed method
//! returns an error without panicking, and a panicking method never returns normally (capacity overflow is reported by
//! an unwinding panic)". Closed product: vector kind x element type {u64, ()} x length x request.

use bump_scope::settings::BumpSettings;
use bump_scope::{Bump, BumpString, BumpVec, FixedBumpVec, MutBumpString, MutBumpVec, MutBumpVecRev};
use std::panic::{AssertUnwindSafe, catch_unwind};
use std::time::Instant;
use vcore::json::J;
use vcore::slab::{self, SlabCfg, SlabZ};

type B = Bump<SlabZ, BumpSettings<1, true, true, true, true, true, 0>>;

const KINDS: [&str; 6] = ["fixed", "vec", "mutvec", "mutvecrev", "string", "mutstring"];
const REQS: [&str; 6] = ["reserve_max", "reserve_exact_max", "reserve_max_minus_len_plus_1", "reserve_isize_max", "extend_from_within_on_huge_len", "resize_overflow"];

pub fn case_text(kind: &str, zst: bool, n: usize, req: &str) -> String {
    format!("overflow:kind={kind};zst={};n={n};req={req}", zst as u8)
}

/// what must happen: Some(true) = must fail (Err / unwinding panic), Some(false) = must succeed, None = not applicable
fn expectation(kind: &str, zst: bool, n: usize, req: &str) -> Option<bool> {
    let is_str = kind.ends_with("string");
    if is_str && zst {
        return None;
    }
    if kind == "fixed" && req == "reserve_exact_max" {
        return None;
    }
    match req {
        // len + usize::MAX overflows unless len == 0; for sized types even len == 0 exceeds isize::MAX bytes
        "reserve_max" | "reserve_exact_max" => Some(if zst && !is_str { n > 0 } else { true }),
        // len + (usize::MAX - len + 1) == usize::MAX + 1: overflows for every len >= 0 ... (n = 0: additional wraps to 0)
        "reserve_max_minus_len_plus_1" => {
            if n == 0 {
                None
            } else {
                Some(true)
            }
        }
        // isize::MAX more bytes than a sized vector may ever hold; fine for zero-sized elements
        // (strings: isize::MAX bytes is a valid layout that merely cannot be served - an allocation failure, which aborts
        // in the panicking twin - so it is left out)
        "reserve_isize_max" => {
            if is_str {
                None
            } else {
                Some(!zst)
            }
        }
        "extend_from_within_on_huge_len" | "resize_overflow" => None,
        _ => None,
    }
}

macro_rules! requests {
    ($v:ident, $req:expr, $n:expr, $try_:expr, exact) => {{
        if $req == "reserve_exact_max" {
            if $try_ {
                $v.try_reserve_exact(usize::MAX).is_err()
            } else {
                let r = catch_unwind(AssertUnwindSafe(|| $v.reserve_exact(usize::MAX)));
                if r.is_err() {
                    let _ = vcore::crash::take_last_panic();
                }
                r.is_err()
            }
        } else {
            requests!($v, $req, $n, $try_, plain)
        }
    }};
    ($v:ident, $req:expr, $n:expr, $try_:expr, plain) => {{
        let amount = match $req {
            "reserve_max" | "reserve_exact_max" => usize::MAX,
            "reserve_max_minus_len_plus_1" => usize::MAX - $n + 1,
            _ => isize::MAX as usize,
        };
        if $try_ {
            $v.try_reserve(amount).is_err()
        } else {
            let r = catch_unwind(AssertUnwindSafe(|| $v.reserve(amount)));
            if r.is_err() {
                let _ = vcore::crash::take_last_panic();
            }
            r.is_err()
        }
    }};
}

/// returns Ok(failed) for the try_ twin and the panicking twin
fn run_one<T: Copy + Default + PartialEq + std::fmt::Debug>(kind: &str, n: usize, req: &str, try_: bool) -> Result<bool, String> {
    slab::select(0);
    slab::reset(0, SlabCfg::default());
    let _ = vcore::crash::take_last_panic();
    let mut bump: B = Bump::new_in(SlabZ);
    let model: Vec<T> = vec![T::default(); n];
    macro_rules! go {
        ($v:ident, $mode:tt) => {{
            for _ in 0..n {
                $v.push(T::default());
            }
            let r = catch_unwind(AssertUnwindSafe(|| requests!($v, req, n, try_, $mode)));
            let failed = match r {
                Ok(f) => f,
                Err(_) => return Err(format!("{}{req} panicked: {}", if try_ { "try_ twin of " } else { "" }, vcore::crash::take_last_panic().unwrap_or_default())),
            };
            if $v.len() != n || $v.iter().copied().collect::<Vec<T>>() != model {
                return Err(format!("{req} changed the contents (len {} instead of {n})", $v.len()));
            }
            // still usable
            if $v.len() < $v.capacity() || kind != "fixed" {
                let _ = $v.try_push(T::default());
            }
            failed
        }};
    }
    Ok(match kind {
        "fixed" => {
            let mut v: FixedBumpVec<T> = FixedBumpVec::with_capacity_in(n + 2, &bump);
            go!(v, plain)
        }
        "vec" => {
            let mut v: BumpVec<T, &B> = BumpVec::new_in(&bump);
            go!(v, exact)
        }
        "mutvec" => {
            let mut v: MutBumpVec<T, &mut B> = MutBumpVec::new_in(&mut bump);
            go!(v, exact)
        }
        _ => {
            let mut v: MutBumpVecRev<T, &mut B> = MutBumpVecRev::new_in(&mut bump);
            go!(v, exact)
        }
    })
}

fn run_str(kind: &str, n: usize, req: &str, try_: bool) -> Result<bool, String> {
    slab::select(0);
    slab::reset(0, SlabCfg::default());
    let _ = vcore::crash::take_last_panic();
    let mut bump: B = Bump::new_in(SlabZ);
    let text = "é".repeat(n);
    let len = text.len();
    macro_rules! go {
        ($s:ident) => {{
            $s.push_str(&text);
            let r = catch_unwind(AssertUnwindSafe(|| requests!($s, req, len, try_, exact)));
            let failed = match r {
                Ok(f) => f,
                Err(_) => return Err(format!("{}{req} panicked: {}", if try_ { "try_ twin of " } else { "" }, vcore::crash::take_last_panic().unwrap_or_default())),
            };
            if $s.as_str() != text {
                return Err(format!("{req} changed the string"));
            }
            let _ = $s.try_push('x');
            failed
        }};
    }
    Ok(if kind == "string" {
        let mut s: BumpString<&B> = BumpString::new_in(&bump);
        go!(s)
    } else {
        let mut s: MutBumpString<&mut B> = MutBumpString::new_in(&mut bump);
        go!(s)
    })
}

pub fn case(kind: &str, zst: bool, n: usize, req: &str) -> Result<bool, String> {
    let Some(must_fail) = expectation(kind, zst, n, req) else { return Ok(false) };
    for try_ in [true, false] {
        let failed = if kind.ends_with("string") {
            run_str(kind, n, req, try_)?
        } else if zst {
            run_one::<()>(kind, n, req, try_)?
        } else {
            run_one::<u64>(kind, n, req, try_)?
        };
        let what = if try_ { "the try_ twin returned Ok" } else { "the panicking twin returned normally" };
        let what_not = if try_ { "the try_ twin returned Err" } else { "the panicking twin panicked" };
        if must_fail && !failed {
            return Err(format!("{req} on a {kind} of {n} {} elements: {what} although the request overflows", if zst { "zero-sized" } else { "sized" }));
        }
        if !must_fail && failed {
            return Err(format!("{req} on a {kind} of {n} {} elements: {what_not} although the request is satisfiable", if zst { "zero-sized" } else { "sized" }));
        }
    }
    Ok(true)
}


// ---- vectors of zero-sized elements whose length is close to usize::MAX -------------------------------------------
// Such a vector never allocates (capacity usize::MAX), so the only thing that can go wrong is the length computation:
// whatever adds r elements to a vector of usize::MAX - k elements must fail for r > k and leave the length alone.

pub const HUGE_KINDS: [&str; 4] = ["fixed", "vec", "mutvec", "mutvecrev"];
pub const HUGE_REQS: [&str; 10] = ["push", "push_with", "insert", "extend_from_within_clone", "extend_from_within_copy", "extend_from_slice_clone", "extend_from_slice_copy", "append", "reserve", "extend_iter"];

pub fn huge_text(kind: &str, k: usize, req: &str, r: usize) -> String {
    format!("overflow:huge=1;kind={kind};k={k};req={req};r={r}")
}

/// Ok(Some(failed)) per twin; Ok(None) = not applicable
fn huge_one(kind: &str, k: usize, req: &str, r: usize, try_: bool) -> Result<Option<bool>, String> {
    slab::select(0);
    slab::reset(0, SlabCfg::default());
    let _ = vcore::crash::take_last_panic();
    let mut bump: B = Bump::new_in(SlabZ);
    let start = usize::MAX - k;
    macro_rules! go {
        ($v:ident) => {{
            if $v.capacity() < start {
                return Ok(None);
            }
            // SAFETY: the elements are zero-sized and need no initialisation; the new length is within the capacity
            unsafe { $v.set_len(start) };
            let src: Vec<()> = vec![(); r];
            let r_ = catch_unwind(AssertUnwindSafe(|| -> Option<bool> {
                Some(if try_ {
                    match req {
                        "push" => $v.try_push(()).is_err(),
                        "push_with" => $v.try_push_with(|| ()).is_err(),
                        "insert" => $v.try_insert(0, ()).is_err(),
                        "extend_from_within_clone" => $v.try_extend_from_within_clone(0..r).is_err(),
                        "extend_from_within_copy" => $v.try_extend_from_within_copy(0..r).is_err(),
                        "extend_from_slice_clone" => $v.try_extend_from_slice_clone(&src).is_err(),
                        "extend_from_slice_copy" => $v.try_extend_from_slice_copy(&src).is_err(),
                        "append" => $v.try_append(src.clone()).is_err(),
                        "reserve" => $v.try_reserve(r).is_err(),
                        _ => return None,
                    }
                } else {
                    match req {
                        "push" => $v.push(()),
                        "push_with" => $v.push_with(|| ()),
                        "insert" => $v.insert(0, ()),
                        "extend_from_within_clone" => $v.extend_from_within_clone(0..r),
                        "extend_from_within_copy" => $v.extend_from_within_copy(0..r),
                        "extend_from_slice_clone" => $v.extend_from_slice_clone(&src),
                        "extend_from_slice_copy" => $v.extend_from_slice_copy(&src),
                        "append" => $v.append(src.clone()),
                        "reserve" => $v.reserve(r),
                        "extend_iter" => $v.extend(src.iter().copied()),
                        _ => return None,
                    }
                    false
                })
            }));
            let len = $v.len();
            // leave an empty vector behind (dropping usize::MAX unit values is a no-op anyway)
            unsafe { $v.set_len(0) };
            let failed = match r_ {
                Ok(None) => return Ok(None),
                Ok(Some(f)) => f,
                Err(_) => {
                    let m = vcore::crash::take_last_panic().unwrap_or_default();
                    if try_ {
                        return Err(format!("the try_ twin of {req} panicked: {m}"));
                    }
                    true
                }
            };
            let adds = if req == "reserve" { 0 } else { r };
            let want = if failed { start } else { start.wrapping_add(adds) };
            if len != want {
                return Err(format!("{}{req}({r}) on {} unit elements {} and left a length of {len}", if try_ { "try_" } else { "" }, fmt_huge(start), if failed { "failed" } else { "succeeded" }));
            }
            Some(failed)
        }};
    }
    Ok(match kind {
        "fixed" => {
            let mut v: FixedBumpVec<()> = FixedBumpVec::with_capacity_in(usize::MAX, &bump);
            go!(v)
        }
        "vec" => {
            let mut v: BumpVec<(), &B> = BumpVec::new_in(&bump);
            go!(v)
        }
        "mutvec" => {
            let mut v: MutBumpVec<(), &mut B> = MutBumpVec::new_in(&mut bump);
            go!(v)
        }
        _ => {
            let mut v: MutBumpVecRev<(), &mut B> = MutBumpVecRev::new_in(&mut bump);
            go!(v)
        }
    })
}

fn fmt_huge(n: usize) -> String {
    format!("usize::MAX - {}", usize::MAX - n)
}

pub fn huge_case(kind: &str, k: usize, req: &str, r: usize) -> Result<bool, String> {
    let single = matches!(req, "push" | "push_with" | "insert");
    if single && r != 1 {
        return Ok(false);
    }
    let must_fail = r > k;
    let mut any = false;
    for try_ in [true, false] {
        let Some(failed) = huge_one(kind, k, req, r, try_)? else { continue };
        any = true;
        if must_fail && !failed {
            return Err(format!("{}{req}({r}) on a {kind} of {} unit elements returned {} although the new length overflows", if try_ { "try_" } else { "" }, fmt_huge(usize::MAX - k), if try_ { "Ok" } else { "normally" }));
        }
        if !must_fail && failed {
            return Err(format!("{}{req}({r}) on a {kind} of {} unit elements failed although the new length fits", if try_ { "try_" } else { "" }, fmt_huge(usize::MAX - k)));
        }
    }
    Ok(any)
}

pub fn explore(thorough: bool) -> (J, Vec<J>) {
    let t0 = Instant::now();
    let mut viols = Vec::new();
    let (mut n_cases, mut nt) = (0u64, 0u64);
    let max_n = if thorough { 9 } else { 4 };
    for kind in KINDS {
        for zst in [false, true] {
            for n in 0..=max_n {
                for req in REQS {
                    n_cases += 1;
                    let text = case_text(kind, zst, n, req);
                    let r = vcore::crash::with_inflight(&text, |p| format!("replaycase=<<{}>>", unsafe { &*(p as *const String) }), || case(kind, zst, n, req));
                    match r {
                        Ok(true) => nt += 1,
                        Ok(false) => {}
                        Err(m) => {
                            if viols.len() < 8 {
                                viols.push(J::obj().set("prop", "C07").set("cfg", "up-ma1").set("params", format!("{kind} zst={zst} n={n}")).set("history", req).set("msg", m).set("replay_args", vec!["--case".to_string(), text]));
                            }
                        }
                    }
                }
            }
        }
    }
    for kind in HUGE_KINDS {
        for k in 0..=2usize {
            for req in HUGE_REQS {
                for r in 0..=4usize {
                    n_cases += 1;
                    let text = huge_text(kind, k, req, r);
                    let res = vcore::crash::with_inflight(&text, |p| format!("replaycase=<<{}>>", unsafe { &*(p as *const String) }), || huge_case(kind, k, req, r));
                    match res {
                        Ok(true) => nt += 1,
                        Ok(false) => {}
                        Err(m) => {
                            if viols.len() < 8 {
                                viols.push(J::obj().set("prop", "C07").set("cfg", "up-ma1").set("params", format!("{kind} of usize::MAX - {k} unit elements")).set("history", format!("{req}({r})")).set("msg", m).set("replay_args", vec!["--case".to_string(), text]));
                            }
                        }
                    }
                }
            }
        }
    }
    let cov = J::obj()
        .set("evaluations", n_cases)
        .set("distinct_nontrivial", nt)
        .set("states", n_cases)
        .set("transitions", n_cases)
        .set("traces_validated_against_impl", n_cases)
        .set("rule", "overflowing requests: {FixedBumpVec, BumpVec, MutBumpVec, MutBumpVecRev} x {u64, ()} elements and {BumpString, MutBumpString} x length 0..N x {(try_)reserve(usize::MAX), (try_)reserve_exact(usize::MAX), (try_)reserve(usize::MAX - len + 1), (try_)reserve(isize::MAX)}; a request whose element count or byte size overflows must make the try_ twin return Err and the panicking twin unwind (never return), a satisfiable one (zero-sized elements) must succeed, contents and length stay as they were. Plus vectors of unit elements whose length is usize::MAX - k (k = 0..2; such a vector never allocates, only the length arithmetic can fail): {FixedBumpVec, BumpVec, MutBumpVec, MutBumpVecRev} x {push, push_with, insert, extend_from_within_clone / _copy (0..r), extend_from_slice_clone / _copy, append, reserve, extend} adding r = 0..4 elements, both twins: r > k must fail (Err / unwinding panic) with the length unchanged, r <= k must succeed with length + r; non-trivial = cases with a defined expectation")
        .set("samples", vec![case_text("fixed", true, 1, "reserve_max"), case_text("vec", false, 3, "reserve_isize_max")])
        .set("exhaustive", true);
    let space = J::obj()
        .set("property_id", "C07")
        .set("tier", if thorough { "thorough" } else { "quick" })
        .set("seed", 0)
        .set("level", "fault_enumeration")
        .set("space", "overflowing-requests")
        .set("coverage", cov)
        .set("wall_s", t0.elapsed().as_secs_f64())
        .set("violations", viols.len())
        .set("floor", 50)
        .set("floor_ok", nt >= 50 || !viols.is_empty());
    (space, viols)
}

pub fn replay(case_text: &str) -> Option<String> {
    let rest = case_text.strip_prefix("overflow:")?;
    let mut m = std::collections::HashMap::new();
    for item in rest.split(';') {
        if let Some((k, v)) = item.split_once('=') {
            m.insert(k.to_string(), v.to_string());
        }
    }
    if m.contains_key("huge") {
        let kind = HUGE_KINDS.into_iter().find(|k| *k == m["kind"])?;
        let req = HUGE_REQS.into_iter().find(|k| *k == m["req"])?;
        return huge_case(kind, m["k"].parse().ok()?, req, m["r"].parse().ok()?).err();
    }
    let kind = KINDS.into_iter().find(|k| *k == m["kind"])?;
    let req = REQS.into_iter().find(|k| *k == m["req"])?;
    case(kind, m["zst"] == "1", m["n"].parse().ok()?, req).err()
}
