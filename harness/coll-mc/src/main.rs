fn main(){}
