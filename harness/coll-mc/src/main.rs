//! coll-mc: exhaustive bounded differential exploration of bump-scope's vector-like collections against std models
//! (C08), with a panic injected at every user-callback invocation (C06), split/merge partition checks (C16) and
//! allocation-failure injection into collection growth (C07, collection part).
//!
//! usage: coll-mc check --prop C06|C08|C16|C07 --tier quick|thorough
//!        coll-mc replay --prop <id> --case "<text>"

mod abort;
mod boxend;
mod boxinit;
mod claimops;
mod copyops;
mod elem;
mod flatten;
mod overflow;
mod split;
mod strfail;
mod strsplit;
mod vecs;

use bump_scope::settings::BumpSettings;
use bump_scope::{Bump, BumpVec, FixedBumpVec, MutBumpVec, MutBumpVecRev};
use elem::{El, ElemT, InjectedPanic, Z};
use std::panic::{AssertUnwindSafe, catch_unwind};
use std::sync::Mutex;
use std::sync::atomic::{AtomicBool, AtomicU64, AtomicUsize, Ordering};
use std::time::{Duration, Instant};
use vcore::json::J;
use vcore::slab::{self, SlabCfg, SlabZ};
use vecs::*;

pub fn arg(args: &[String], name: &str) -> Option<String> {
    args.iter().position(|a| a == name).and_then(|i| args.get(i + 1).cloned())
}

pub const FIXED_EXTRA: usize = 3;

pub const CFGS: [(&str, bool, usize); 4] = [("up-ma1", true, 1), ("down-ma1", false, 1), ("up-ma8", true, 8), ("down-ma16", false, 16)];

#[macro_export]
macro_rules! with_cfg {
    ($ci:expr, |$S:ident| $body:expr) => {
        match $ci {
            0 => {
                type $S = BumpSettings<1, true, true, true, true, true, 0>;
                $body
            }
            1 => {
                type $S = BumpSettings<1, false, true, true, true, true, 0>;
                $body
            }
            2 => {
                type $S = BumpSettings<8, true, true, true, true, true, 0>;
                $body
            }
            3 => {
                type $S = BumpSettings<16, false, true, true, true, true, 0>;
                $body
            }
            _ => unreachable!(),
        }
    };
}

#[derive(Clone, Copy, Debug, PartialEq, Eq)]
pub enum Mode {
    /// C08: compare with the model after every operation
    Diff,
    /// C06: arm the k-th callback to panic (None = fault-free reference run); `drops`: Drop::drop counts as a callback
    Inject { k: Option<u64>, drops: bool },
}

#[derive(Debug, Clone)]
pub enum Verdict {
    Ok,
    /// the op at this index is not available for the kind / was pruned (both panicked)
    Stop(usize),
    Violation(usize, String),
}

pub struct CaseResult {
    pub verdict: Verdict,
    pub callbacks: u64,
    pub changed: bool,
    pub fired: bool,
    pub final_vals: Vec<u32>,
}

fn payload_kind(p: &Box<dyn std::any::Any + Send>) -> (bool, Option<String>) {
    if p.is::<InjectedPanic>() {
        (true, None)
    } else if let Some(o) = p.downcast_ref::<OracleFail>() {
        (false, Some(o.0.clone()))
    } else {
        (false, None)
    }
}

fn drive<T: ElemT + Clone + PartialEq, Sub: Subject<T>>(mut sub: Sub, mut model: Vec<u32>, ops: &[VOp], mode: Mode, fixed_cap0: usize, promised0: usize) -> (Verdict, bool) {
    let kind = Sub::KIND;
    let mut fixed_cap = fixed_cap0;
    let inject = matches!(mode, Mode::Inject { .. });
    let mut promised = promised0;
    let mut changed = false;
    let aux = Aux(std::marker::PhantomData);
    for (i, op) in ops.iter().enumerate() {
        if !inject && matches!(op, VOp::Drain(_, _, Take::Forget) | VOp::Splice(_, _, _, Take::Forget) | VOp::ExtractIf(_, Take::Forget)) {
            return (Verdict::Stop(i), changed);
        }
        let cap_before = sub.capacity();
        let anchor_before = sub.anchor();
        let model_before = model.clone();
        let mut m = catch_unwind(AssertUnwindSafe(|| model_apply(&mut model, kind, op, fixed_cap)));
        let model_panic = if m.is_err() { vcore::crash::take_last_panic().unwrap_or_default() } else { String::new() };
        if T::IS_ZST {
            // all zero-sized values are equal: the model holds zeros
            for v in model.iter_mut() {
                *v = 0;
            }
            if let Ok(Some(r)) = &mut m {
                // (`map` turns the zero-sized values into numbers: 0 + 2000)
                let z = if matches!(op, VOp::Map | VOp::TryMap) { 2000 } else { 0 };
                for v in r.vals.iter_mut() {
                    *v = z;
                }
            }
        }
        if let Ok(None) = m {
            return (Verdict::Stop(i), changed);
        }
        if op.is_finisher() {
            let s = catch_unwind(AssertUnwindSafe(|| sub.finish(op)));
            return match (m, s) {
                (_, Ok(None)) => (Verdict::Stop(i), changed),
                (Ok(Some(mr)), Ok(Some(sr))) => {
                    if mr != sr {
                        (Verdict::Violation(i, format!("{op}: returned {:?}, model {:?}", sr.vals, mr.vals)), changed)
                    } else {
                        (Verdict::Ok, true)
                    }
                }
                (Err(_), Err(_)) => (Verdict::Stop(i), changed),
                (Ok(_), Err(p)) => {
                    let (inj, orc) = payload_kind(&p);
                    if inj {
                        (Verdict::Ok, true)
                    } else {
                        (Verdict::Violation(i, format!("{op}: panicked ({}) but the model did not", orc.unwrap_or_else(|| vcore::crash::take_last_panic().unwrap_or_default()))), changed)
                    }
                }
                (Err(_), Ok(_)) => (Verdict::Violation(i, format!("{op}: the model panics but the subject returned normally")), changed),
                (Ok(None), _) => unreachable!(),
            };
        }
        let s = catch_unwind(AssertUnwindSafe(|| sub.apply(op, &aux)));
        match (m, s) {
            (_, Ok(None)) => return (Verdict::Stop(i), changed),
            (Ok(Some(mr)), Ok(Some(sr))) => {
                let leak_route = sr.flag == Some(true) || matches!(op, VOp::Drain(_, _, Take::Forget) | VOp::ExtractIf(_, Take::Forget));
                if leak_route {
                    // explicit leak: contents unspecified from here on; drop counts are still judged by the caller
                    return (Verdict::Ok, true);
                }
                if mr.vals != sr.vals {
                    return (Verdict::Violation(i, format!("{op}: returned {:?}, model {:?}", sr.vals, mr.vals)), changed);
                }
                let sv = sub.vals();
                if sv != model {
                    return (Verdict::Violation(i, format!("{op}: contents {:?}, model {:?}", sv, model)), changed);
                }
                if sub.len() != model.len() {
                    return (Verdict::Violation(i, format!("{op}: len {} but {} elements", sub.len(), model.len())), changed);
                }
                if model != model_before {
                    changed = true;
                }
                // ---- capacity promises
                let cap = sub.capacity();
                if T::IS_ZST {
                    if cap != usize::MAX && kind != Kind::Boxed {
                        return (Verdict::Violation(i, format!("{op}: capacity of a zero-sized element vector is {cap}")), changed);
                    }
                } else {
                    if cap < sub.len() {
                        return (Verdict::Violation(i, format!("{op}: capacity {cap} < len {}", sub.len())), changed);
                    }
                    if kind == Kind::Fixed && matches!(op, VOp::SplitOff(..)) {
                        // the capacity is divided between the two parts (their sum is judged by C16)
                        if cap > cap_before {
                            return (Verdict::Violation(i, format!("{op}: split_off increased the capacity {cap_before} → {cap}")), changed);
                        }
                        fixed_cap = cap;
                        promised = cap;
                    }
                    match *op {
                        VOp::Reserve(k) | VOp::ReserveExact(k) => promised = promised.max(model.len() + k),
                        VOp::ShrinkToFit | VOp::RoundTrip | VOp::Rebuild(_) => promised = 0,
                        VOp::SplitOff(..) if kind != Kind::Fixed => promised = 0,
                        VOp::ShrinkTo(k) => promised = promised.min(k.max(model.len())),
                        _ => {}
                    }
                    if kind != Kind::Boxed && cap < promised {
                        return (Verdict::Violation(i, format!("{op}: capacity {cap} is below the promised {promised}")), changed);
                    }
                    let may_move = matches!(op, VOp::ShrinkToFit | VOp::ShrinkTo(_) | VOp::SplitOff(..) | VOp::RoundTrip | VOp::Rebuild(_) | VOp::ExtendIter(_, true) | VOp::Reserve(_) | VOp::ReserveExact(_));
                    if !may_move && kind != Kind::Boxed && model.len() <= cap_before && sub.anchor() != anchor_before {
                        return (Verdict::Violation(i, format!("{op}: the buffer moved although the capacity {cap_before} sufficed for {} elements", model.len())), changed);
                    }
                    if matches!(op, VOp::Reserve(k) | VOp::ReserveExact(k) if model.len() + k <= cap_before) && sub.anchor() != anchor_before {
                        return (Verdict::Violation(i, format!("{op}: the buffer moved although the capacity {cap_before} already sufficed")), changed);
                    }
                    if kind == Kind::Fixed && !matches!(op, VOp::SplitOff(..)) && (sub.anchor() != anchor_before || cap != cap_before) {
                        return (Verdict::Violation(i, format!("{op}: a fixed vector changed its buffer or capacity ({cap_before} → {cap})")), changed);
                    }
                }
            }
            (Err(_), Err(p)) => {
                let (inj, orc) = payload_kind(&p);
                if let Some(o) = orc {
                    return (Verdict::Violation(i, format!("{op}: {o}")), changed);
                }
                if inj {
                    return (Verdict::Ok, true);
                }
                // both reject the arguments: the subject must be unchanged; the history is not extended through it
                let sv = sub.vals();
                if model_panic.starts_with("model: fixed vector") {
                    // a fixed vector that runs full in the middle of a multi-element operation keeps what fitted
                    if !sv.starts_with(&model_before) || sv.len() > fixed_cap {
                        return (Verdict::Violation(i, format!("{op}: a full fixed vector lost or corrupted contents: {:?} (before {:?})", sv, model_before)), changed);
                    }
                } else if sv != model_before {
                    return (Verdict::Violation(i, format!("{op}: panicked like the model but changed the contents to {:?} (before {:?})", sv, model_before)), changed);
                }
                return (Verdict::Stop(i), changed);
            }
            (Ok(_), Err(p)) => {
                let (inj, orc) = payload_kind(&p);
                if inj {
                    return (Verdict::Ok, true);
                }
                let msg = orc.unwrap_or_else(|| vcore::crash::take_last_panic().unwrap_or_default());
                return (Verdict::Violation(i, format!("{op}: panicked ({msg}) but the model did not")), changed);
            }
            (Err(_), Ok(_)) => return (Verdict::Violation(i, format!("{op}: std panics on these arguments but the subject returned normally")), changed),
            (Ok(None), _) => unreachable!(),
        }
    }
    (Verdict::Ok, changed)
}

/// Creates the subject of `kind` with `init` elements on a fresh arena and drives the history.
pub fn run_case(ci: usize, kind: Kind, zst: bool, init: usize, ops: &[VOp], mode: Mode) -> CaseResult {
    struct Infl<'a>(usize, Kind, bool, usize, &'a [VOp], Mode);
    fn fmt(p: *const ()) -> String {
        let i = unsafe { &*(p as *const Infl<'_>) };
        let (prop, k, drops) = match i.5 {
            Mode::Diff => ("C08", None, false),
            Mode::Inject { k, drops } => ("C06", k, drops),
        };
        format!("replaycase=<<{}>>", case_text(prop, i.0, i.1, i.2, i.3, i.4, k, drops))
    }
    let infl = Infl(ci, kind, zst, init, ops, mode);
    vcore::crash::with_inflight(&infl, fmt, || run_case_inner(ci, kind, zst, init, ops, mode))
}

fn run_case_inner(ci: usize, kind: Kind, zst: bool, init: usize, ops: &[VOp], mode: Mode) -> CaseResult {
    slab::select(0);
    slab::reset(0, SlabCfg::default());
    elem::reset();
    let _ = vcore::crash::take_last_panic();
    let mut callbacks = 0;
    let mut fired = false;
    let (verdict, changed) = with_cfg!(ci, |S| {
        if zst { run_typed::<S, Z>(kind, init, ops, mode, &mut callbacks, &mut fired) } else { run_typed::<S, El>(kind, init, ops, mode, &mut callbacks, &mut fired) }
    });
    // ---- end of life accounting (everything is dropped by now)
    let mut verdict = verdict;
    if let Verdict::Ok | Verdict::Stop(_) = verdict {
        let flags = elem::flags();
        let c = elem::census();
        let leak_ok = ops.iter().any(|o| matches!(o, VOp::Drain(_, _, Take::Forget) | VOp::Splice(_, _, _, Take::Forget) | VOp::ExtractIf(_, Take::Forget))) || matches!(mode, Mode::Inject { drops: true, .. });
        if let Some(f) = flags.first() {
            verdict = Verdict::Violation(ops.len(), f.clone());
        } else if c.dropped_more > 0 {
            verdict = Verdict::Violation(ops.len(), format!("{} value(s) were dropped more than once", c.dropped_more));
        } else if c.z_live < 0 {
            verdict = Verdict::Violation(ops.len(), "more zero-sized values dropped than created".into());
        } else if !leak_ok && (c.alive > 0 || c.z_live > 0) {
            verdict = Verdict::Violation(ops.len(), format!("{} value(s) were never dropped (leaked) after the collection and everything moved out of it were gone", c.alive as i64 + c.z_live));
        } else {
            let (errs, guards) = slab::with_slab(0, |s| (s.errors.first().cloned(), s.check_guards()));
            if let Some(e) = errs {
                verdict = Verdict::Violation(ops.len(), format!("base allocator protocol: {e}"));
            } else if let Err(e) = guards {
                verdict = Verdict::Violation(ops.len(), format!("memory outside granted blocks was written: {e}"));
            }
        }
    }
    CaseResult { verdict, callbacks, changed, fired, final_vals: Vec::new() }
}

fn run_typed<S, T>(kind: Kind, init: usize, ops: &[VOp], mode: Mode, callbacks: &mut u64, fired: &mut bool) -> (Verdict, bool)
where
    S: bump_scope::settings::BumpAllocatorSettings + 'static,
    T: ElemT + Clone + PartialEq,
    SlabZ: bump_scope::BaseAllocator<S::GuaranteedAllocated>,
{
    let mut bump: Bump<SlabZ, S> = Bump::new_in(SlabZ);
    // misalign the position
    let _ = bump.alloc(0u8);
    let model: Vec<u32> = (1..=init as u32).map(|v| if T::IS_ZST { 0 } else { v }).collect();
    let mk = || (1..=init as u32).map(T::new);
    let fixed_cap = init + FIXED_EXTRA;
    // zero-sized elements: every vector has unlimited capacity
    let model_cap = if T::IS_ZST { usize::MAX / 2 } else { fixed_cap };
    let r = {
        let arm = |mode: Mode| {
            if let Mode::Inject { k: Some(k), drops } = mode {
                elem::arm(k as i64, drops);
            } else if let Mode::Inject { k: None, drops } = mode {
                elem::arm(-1, drops);
            }
        };
        match kind {
            Kind::BumpVec => {
                let v: BumpVec<T, &Bump<SlabZ, S>> = BumpVec::from_iter_in(mk(), &bump);
                arm(mode);
                catch_unwind(AssertUnwindSafe(|| drive::<T, _>(v, model, ops, mode, model_cap, 0)))
            }
            Kind::MutVec => {
                let v: MutBumpVec<T, &mut Bump<SlabZ, S>> = MutBumpVec::from_iter_in(mk(), &mut bump);
                arm(mode);
                catch_unwind(AssertUnwindSafe(|| drive::<T, _>(v, model, ops, mode, model_cap, 0)))
            }
            Kind::MutVecRev => {
                // from_iter pushes one by one, i.e. the logical order is reversed: build it so that it equals the model
                let mut v: MutBumpVecRev<T, &mut Bump<SlabZ, S>> = MutBumpVecRev::new_in(&mut bump);
                for x in (1..=init as u32).rev() {
                    v.push(T::new(x));
                }
                arm(mode);
                catch_unwind(AssertUnwindSafe(|| drive::<T, _>(v, model, ops, mode, model_cap, 0)))
            }
            Kind::Fixed => {
                let mut v: FixedBumpVec<'_, T> = FixedBumpVec::with_capacity_in(fixed_cap, &bump);
                for e in mk() {
                    v.push(e);
                }
                arm(mode);
                catch_unwind(AssertUnwindSafe(|| drive::<T, _>(v, model, ops, mode, model_cap, if T::IS_ZST { 0 } else { fixed_cap })))
            }
            Kind::Boxed => {
                let v = bump.alloc_iter(mk());
                arm(mode);
                catch_unwind(AssertUnwindSafe(|| drive::<T, _>(v, model, ops, mode, model_cap, 0)))
            }
        }
    };
    *callbacks = elem::callbacks();
    *fired = elem::fired();
    elem::arm(-1, false);
    match r {
        Ok(x) => x,
        Err(p) => {
            // a panic escaping `drive` can only come from dropping the subject during unwinding of an injected panic
            let (inj, _) = payload_kind(&p);
            if inj { (Verdict::Ok, true) } else { (Verdict::Violation(ops.len(), format!("unexpected panic: {}", vcore::crash::take_last_panic().unwrap_or_default())), false) }
        }
    }
}

/// the operations applicable to a vector of `n` elements (every index / range incl. one out-of-range value)
pub fn ops_for(n: usize, thorough: bool, inject: bool) -> Vec<VOp> {
    let mut v = vec![VOp::Push(41), VOp::PushWith(42), VOp::PushMut(46), VOp::PushMutWith(47), VOp::InsertMut(n / 2, 48), VOp::Rebuild(0), VOp::Rebuild(2), VOp::Pop, VOp::PopIf(true), VOp::PopIf(false), VOp::Clear, VOp::Dedup, VOp::DedupByKey, VOp::DedupBy, VOp::ShrinkToFit, VOp::RoundTrip, VOp::Reserve(2), VOp::Reserve(9), VOp::ReserveExact(3)];
    for i in 0..=n + 1 {
        v.push(VOp::Insert(i, 43));
        v.push(VOp::Truncate(i));
        v.push(VOp::ShrinkTo(i));
    }
    for i in 0..=n {
        v.push(VOp::Remove(i));
        v.push(VOp::SwapRemove(i));
    }
    for k in [0, n.saturating_sub(1), n + 2] {
        v.push(VOp::Resize(k, 44));
        v.push(VOp::ResizeWith(k));
    }
    v.push(VOp::ExtendClone(0));
    v.push(VOp::ExtendClone(2));
    v.push(VOp::ExtendIter(2, false));
    v.push(VOp::ExtendIter(2, true));
    for src in [Src::Array, Src::StdVec, Src::BoxedSlice, Src::StdDrain, Src::OtherBumpVec] {
        v.push(VOp::Append(src, 2));
    }
    v.push(VOp::Append(Src::Array, 0));
    let takes: &[Take] = if inject {
        &[Take::All, Take::FrontOne, Take::BackOne, Take::None, Take::KeepRest, Take::KeepRestBack, Take::KeepRestNone, Take::Forget]
    } else {
        &[Take::All, Take::FrontOne, Take::BackOne, Take::None, Take::KeepRest, Take::KeepRestBack, Take::KeepRestNone]
    };
    for s in 0..=n + 1 {
        for e in 0..=n + 1 {
            if s > e && !(s == e + 1) {
                continue;
            }
            // s == e + 1 is the one inverted (invalid) range per start
            v.push(VOp::ExtendWithin(s, e));
            v.push(VOp::SplitOff(s, e));
            for &t in takes {
                if thorough || matches!(t, Take::All | Take::FrontOne | Take::KeepRest | Take::KeepRestBack | Take::Forget) || (s + 1 == e) {
                    v.push(VOp::Drain(s, e, t));
                }
            }
            for c in [0usize, 2] {
                v.push(VOp::Splice(s, e, c, Take::All));
                if c > 0 {
                    // honest lower bounds: exact, and one short of the number of items
                    v.push(VOp::SpliceHint(s, e, c + 1, c + 1));
                    v.push(VOp::SpliceHint(s, e, c + 1, c));
                }
                if thorough || inject {
                    v.push(VOp::Splice(s, e, c, Take::None));
                }
            }
        }
    }
    for mask in [0u8, 0b101, 0xff] {
        v.push(VOp::Retain(mask));
        for t in [Take::All, Take::FrontOne, Take::None] {
            v.push(VOp::ExtractIf(mask, t));
        }
        if inject {
            v.push(VOp::ExtractIf(mask, Take::Forget));
        }
    }
    // finishers
    v.push(VOp::IntoIter(0, 0));
    v.push(VOp::IntoIter(1, 1));
    v.push(VOp::IntoIter(n, 0));
    v.push(VOp::MapInPlace);
    v.push(VOp::Map);
    v.push(VOp::TryMap);
    if thorough {
        v.push(VOp::Rebuild(1));
        v.push(VOp::Rebuild(3));
    }
    v
}

fn model_len_after(kind: Kind, init: usize, prefix: &[VOp]) -> Option<usize> {
    let mut m: Vec<u32> = (1..=init as u32).collect();
    for op in prefix {
        let r = catch_unwind(AssertUnwindSafe(|| model_apply(&mut m, kind, op, init + FIXED_EXTRA)));
        match r {
            Ok(Some(_)) => {}
            _ => return None,
        }
    }
    Some(m.len())
}

pub fn case_text(prop: &str, ci: usize, kind: Kind, zst: bool, init: usize, ops: &[VOp], k: Option<u64>, drops: bool) -> String {
    format!("prop={prop};cfg={ci};kind={};zst={};init={init};k={};drops={};ops={}", kind.name(), zst as u8, k.map_or(-1i64, |k| k as i64), drops as u8, ops.iter().map(|o| format!("{o:?}")).collect::<Vec<_>>().join("|"))
}

struct Totals {
    histories: AtomicU64,
    runs: AtomicU64,
    nontrivial: AtomicU64,
    unwound: AtomicU64,
    stop: AtomicBool,
}

fn explore_vecs(prop: &str, thorough: bool, deadline: Instant) -> (J, Vec<J>) {
    let inject = prop == "C06";
    let depth = if thorough { if inject { 2 } else { 3 } } else if inject { 2 } else { 3 };
    let inits: Vec<usize> = if thorough { vec![0, 1, 2, 3, 4] } else if inject { vec![0, 1, 2, 3, 4] } else { vec![0, 2] };
    explore_vecs_ex(prop, thorough, thorough, depth, inits, "vectors", deadline)
}

/// `tier_thorough` only labels the evidence; `thorough` selects the rich (true) or the plain alphabet
fn explore_vecs_ex(prop: &str, tier_thorough: bool, thorough: bool, depth: usize, inits: Vec<usize>, space_name: &str, deadline: Instant) -> (J, Vec<J>) {
    let t0 = Instant::now();
    let inject = prop == "C06";
    let totals = Totals { histories: AtomicU64::new(0), runs: AtomicU64::new(0), nontrivial: AtomicU64::new(0), unwound: AtomicU64::new(0), stop: AtomicBool::new(false) };
    let viols: Mutex<Vec<J>> = Mutex::new(Vec::new());
    let samples: Mutex<Vec<String>> = Mutex::new(Vec::new());
    let capped = AtomicBool::new(false);
    // work items: (config, kind, zst, init, first op index)
    let mut items = Vec::new();
    for ci in 0..CFGS.len() {
        for kind in KINDS {
            for zst in [false, true] {
                // zero-sized elements never touch the arena: the quick differential tier runs them on one upward and one
                // downward configuration only
                if zst && !tier_thorough && !inject && ci >= 2 {
                    continue;
                }
                for &init in &inits {
                    let n_first = ops_for(init, thorough, inject).len();
                    for f in 0..n_first {
                        items.push((ci, kind, zst, init, f));
                    }
                }
            }
        }
    }
    let next = AtomicUsize::new(0);
    let threads = std::thread::available_parallelism().map_or(8, |n| n.get());
    std::thread::scope(|sc| {
        for _ in 0..threads {
            sc.spawn(|| {
                vcore::crash::install_thread_altstack();
                loop {
                    let it = next.fetch_add(1, Ordering::Relaxed);
                    if it >= items.len() || totals.stop.load(Ordering::Relaxed) {
                        break;
                    }
                    let (ci, kind, zst, init, f) = items[it];
                    let first = ops_for(init, thorough, inject)[f];
                    let mut stack: Vec<Vec<VOp>> = vec![vec![first]];
                    while let Some(hist) = stack.pop() {
                        if totals.stop.load(Ordering::Relaxed) {
                            break;
                        }
                        if Instant::now() > deadline {
                            capped.store(true, Ordering::Relaxed);
                            totals.stop.store(true, Ordering::Relaxed);
                            break;
                        }
                        let mode = if inject { Mode::Inject { k: None, drops: false } } else { Mode::Diff };
                        let r = run_case(ci, kind, zst, init, &hist, mode);
                        totals.runs.fetch_add(1, Ordering::Relaxed);
                        let mut report = |v: &Verdict, k: Option<u64>, drops: bool| {
                            if let Verdict::Violation(step, msg) = v {
                                let case = case_text(prop, ci, kind, zst, init, &hist, k, drops);
                                let mut vs = viols.lock().unwrap();
                                vs.push(
                                    J::obj()
                                        .set("prop", prop)
                                        .set("cfg", CFGS[ci].0)
                                        .set("params", format!("{} elem={} init_len={init} inject={:?} drop_panics={drops}", kind.name(), if zst { "ZST" } else { "sized" }, k))
                                        .set("history", hist.iter().map(|o| format!("{o:?}")).collect::<Vec<_>>().join(" "))
                                        .set("step", *step)
                                        .set("msg", msg.as_str())
                                        .set("replay_args", vec!["--case".to_string(), case]),
                                );
                                if vs.len() >= 8 {
                                    totals.stop.store(true, Ordering::Relaxed);
                                }
                            }
                        };
                        match &r.verdict {
                            Verdict::Stop(i) if *i < hist.len() => continue,
                            Verdict::Violation(..) => {
                                report(&r.verdict, None, false);
                                continue;
                            }
                            _ => {}
                        }
                        totals.histories.fetch_add(1, Ordering::Relaxed);
                        if r.changed {
                            totals.nontrivial.fetch_add(1, Ordering::Relaxed);
                        }
                        let h = totals.histories.load(Ordering::Relaxed);
                        if h % 200_003 == 7 {
                            let mut s = samples.lock().unwrap();
                            if s.len() < 16 {
                                s.push(case_text(prop, ci, kind, zst, init, &hist, None, false));
                            }
                        }
                        if inject {
                            // a panic at every callback invocation of this history (and, separately, at every drop)
                            for k in 0..r.callbacks {
                                let ri = run_case(ci, kind, zst, init, &hist, Mode::Inject { k: Some(k), drops: false });
                                totals.runs.fetch_add(1, Ordering::Relaxed);
                                if ri.fired {
                                    totals.unwound.fetch_add(1, Ordering::Relaxed);
                                }
                                report(&ri.verdict, Some(k), false);
                            }
                            let rd = run_case(ci, kind, zst, init, &hist, Mode::Inject { k: None, drops: true });
                            for k in 0..rd.callbacks.min(24) {
                                let ri = run_case(ci, kind, zst, init, &hist, Mode::Inject { k: Some(k), drops: true });
                                totals.runs.fetch_add(1, Ordering::Relaxed);
                                if ri.fired {
                                    totals.unwound.fetch_add(1, Ordering::Relaxed);
                                }
                                report(&ri.verdict, Some(k), true);
                            }
                        }
                        if hist.len() < depth && !hist.last().unwrap().is_finisher() {
                            if let Some(n) = model_len_after(kind, init, &hist) {
                                for op in ops_for(n, thorough, inject).into_iter().rev() {
                                    let mut h2 = hist.clone();
                                    h2.push(op);
                                    stack.push(h2);
                                }
                            }
                        }
                    }
                }
            });
        }
    });
    let h = totals.histories.load(Ordering::Relaxed);
    let runs = totals.runs.load(Ordering::Relaxed);
    let nt = if inject { totals.unwound.load(Ordering::Relaxed) } else { totals.nontrivial.load(Ordering::Relaxed) };
    let mut samples = samples.into_inner().unwrap();
    if samples.is_empty() {
        samples.push(case_text(prop, 0, Kind::BumpVec, false, 3, &[VOp::Drain(1, 2, Take::FrontOne), VOp::Push(41)], None, false));
    }
    let viols = viols.into_inner().unwrap();
    let rule = if inject {
        "every history (depth bound) over the state-dependent alphabet of vector operations (all indices / ranges incl. invalid ones, iterator consumption patterns incl. forget and keep_rest) x {BumpVec, MutBumpVec, MutBumpVecRev, FixedBumpVec, BumpBox<[T]>} x {sized, zero-sized} elements x initial lengths x 4 arena configurations; for each history one run per user-callback invocation with a panic injected exactly there (Clone, closures, predicates, Iterator::next), and again with Drop::drop counted as a callback; drop counts of every value ever created are audited after everything is gone; non-trivial = injected runs in which the panic actually fired inside an operation"
    } else {
        "every history (depth bound) over the state-dependent alphabet of vector operations (all indices / ranges incl. one out-of-range value each) x {BumpVec, MutBumpVec, MutBumpVecRev (mirrored model), FixedBumpVec, BumpBox<[T]>} x {sized, zero-sized} elements x initial lengths x 4 arena configurations (both directions, MIN_ALIGN 1/8/16, 16-byte first chunk so growth crosses chunks; quick tier: zero-sized elements on the two MIN_ALIGN 1 configurations only), compared with std Vec after every operation (return value, contents, len, panic/no-panic, capacity promises, buffer address); histories are not extended through operations on which model and subject both panic (subject checked unchanged); non-trivial = histories that changed the contents"
    };
    let cov = J::obj()
        .set("states", h)
        .set("transitions", runs)
        .set("traces_validated_against_impl", runs)
        .set("evaluations", runs)
        .set("distinct_nontrivial", nt)
        .set("rule", rule)
        .set("samples", samples)
        .set("exhaustive", !capped.load(Ordering::Relaxed))
        .set("depth_bound", depth)
        .set("initial_lengths", inits.iter().map(|&x| x as u64).collect::<Vec<u64>>())
        .set("histories", h)
        .set("runs_incl_injected", runs);
    let space = J::obj()
        .set("property_id", prop)
        .set("tier", if tier_thorough { "thorough" } else { "quick" })
        .set("seed", 0)
        .set("level", if inject { "fault_enumeration" } else { "model_checking" })
        .set("space", space_name)
        .set("coverage", cov)
        .set("wall_s", t0.elapsed().as_secs_f64())
        .set("violations", viols.len())
        .set("floor", 1000)
        .set("floor_ok", nt >= 1000 || !viols.is_empty() || capped.load(Ordering::Relaxed));
    (space, viols)
}

fn parse_case(s: &str) -> Option<(String, usize, Kind, bool, usize, Option<u64>, bool, Vec<VOp>)> {
    let mut m = std::collections::HashMap::new();
    for kv in s.split(';') {
        let (k, v) = kv.split_once('=')?;
        m.insert(k, v);
    }
    let k: i64 = m.get("k")?.parse().ok()?;
    let ops = parse_ops(m.get("ops")?)?;
    Some((m.get("prop")?.to_string(), m.get("cfg")?.parse().ok()?, Kind::parse(m.get("kind")?)?, *m.get("zst")? == "1", m.get("init")?.parse().ok()?, if k < 0 { None } else { Some(k as u64) }, *m.get("drops")? == "1", ops))
}

pub fn parse_ops(s: &str) -> Option<Vec<VOp>> {
    // Debug format of VOp, e.g. Drain(1, 2, FrontOne)
    let mut out = Vec::new();
    if s.is_empty() {
        return Some(out);
    }
    for t in s.split('|') {
        let (name, args) = match t.find('(') {
            Some(i) => (&t[..i], t[i + 1..t.len() - 1].split(", ").collect::<Vec<_>>()),
            None => (t, Vec::new()),
        };
        let u = |i: usize| -> Option<usize> { args.get(i)?.parse().ok() };
        let take = |i: usize| -> Option<Take> {
            Some(match *args.get(i)? {
                "All" => Take::All,
                "FrontOne" => Take::FrontOne,
                "BackOne" => Take::BackOne,
                "None" => Take::None,
                "Forget" => Take::Forget,
                "KeepRest" => Take::KeepRest,
                "KeepRestBack" => Take::KeepRestBack,
                "KeepRestNone" => Take::KeepRestNone,
                _ => return None,
            })
        };
        out.push(match name {
            "Push" => VOp::Push(u(0)? as u32),
            "PushWith" => VOp::PushWith(u(0)? as u32),
            "Insert" => VOp::Insert(u(0)?, u(1)? as u32),
            "PushMut" => VOp::PushMut(u(0)? as u32),
            "PushMutWith" => VOp::PushMutWith(u(0)? as u32),
            "InsertMut" => VOp::InsertMut(u(0)?, u(1)? as u32),
            "Rebuild" => VOp::Rebuild(u(0)? as u8),
            "TryMap" => VOp::TryMap,
            "Remove" => VOp::Remove(u(0)?),
            "SwapRemove" => VOp::SwapRemove(u(0)?),
            "Pop" => VOp::Pop,
            "PopIf" => VOp::PopIf(*args.first()? == "true"),
            "Truncate" => VOp::Truncate(u(0)?),
            "Clear" => VOp::Clear,
            "Resize" => VOp::Resize(u(0)?, u(1)? as u32),
            "ResizeWith" => VOp::ResizeWith(u(0)?),
            "ExtendClone" => VOp::ExtendClone(u(0)?),
            "ExtendWithin" => VOp::ExtendWithin(u(0)?, u(1)?),
            "ExtendIter" => VOp::ExtendIter(u(0)?, *args.get(1)? == "true"),
            "Append" => VOp::Append(
                match *args.first()? {
                    "Array" => Src::Array,
                    "StdVec" => Src::StdVec,
                    "BoxedSlice" => Src::BoxedSlice,
                    "StdDrain" => Src::StdDrain,
                    "BumpBoxSlice" => Src::BumpBoxSlice,
                    _ => Src::OtherBumpVec,
                },
                u(1)?,
            ),
            "Drain" => VOp::Drain(u(0)?, u(1)?, take(2)?),
            "Splice" => VOp::Splice(u(0)?, u(1)?, u(2)?, take(3)?),
            "SpliceHint" => VOp::SpliceHint(u(0)?, u(1)?, u(2)?, u(3)?),
            "ExtractIf" => VOp::ExtractIf(u(0)? as u8, take(1)?),
            "Retain" => VOp::Retain(u(0)? as u8),
            "Dedup" => VOp::Dedup,
            "DedupByKey" => VOp::DedupByKey,
            "DedupBy" => VOp::DedupBy,
            "SplitOff" => VOp::SplitOff(u(0)?, u(1)?),
            "Reserve" => VOp::Reserve(u(0)?),
            "ReserveExact" => VOp::ReserveExact(u(0)?),
            "ShrinkToFit" => VOp::ShrinkToFit,
            "ShrinkTo" => VOp::ShrinkTo(u(0)?),
            "RoundTrip" => VOp::RoundTrip,
            "IntoIter" => VOp::IntoIter(u(0)?, u(1)?),
            "MapInPlace" => VOp::MapInPlace,
            "Map" => VOp::Map,
            _ => return None,
        });
    }
    Some(out)
}

/// Ok(how the child ended) or Err(violation message); vacuous probes are machinery failures
fn abort_verdict(ci: usize, name: &str) -> Result<&'static str, String> {
    match abort::run_child(ci, name) {
        abort::ProbeResult::Aborted => Ok("abort"),
        abort::ProbeResult::Unwound => Ok("unwind"),
        abort::ProbeResult::Returned => Err(format!("panicking method `{name}` returned normally although the base allocator refused memory (its try_ twin reports Err in the same situation)")),
        abort::ProbeResult::Other(m) => Err(format!("`{name}`: {m}")),
        abort::ProbeResult::Vacuous(m) => {
            eprintln!("MACHINERY: abort probe {name} on configuration {ci} is vacuous: {m}");
            std::process::exit(2);
        }
    }
}

fn explore_abort_probes(thorough: bool) -> (J, Vec<J>) {
    let t0 = Instant::now();
    let mut cases = Vec::new();
    for ci in 0..CFGS.len() {
        for name in abort::PROBES {
            cases.push((ci, *name));
        }
    }
    let next = AtomicUsize::new(0);
    let aborted = AtomicU64::new(0);
    let unwound = AtomicU64::new(0);
    let viols: Mutex<Vec<J>> = Mutex::new(Vec::new());
    let threads = std::thread::available_parallelism().map_or(8, |n| n.get());
    std::thread::scope(|sc| {
        for _ in 0..threads {
            sc.spawn(|| {
                loop {
                    let i = next.fetch_add(1, Ordering::Relaxed);
                    if i >= cases.len() {
                        break;
                    }
                    let (ci, name) = cases[i];
                    match abort_verdict(ci, name) {
                        Ok("abort") => {
                            aborted.fetch_add(1, Ordering::Relaxed);
                        }
                        Ok(_) => {
                            unwound.fetch_add(1, Ordering::Relaxed);
                        }
                        Err(m) => {
                            viols.lock().unwrap().push(J::obj().set("prop", "C07").set("cfg", CFGS[ci].0).set("params", "child process").set("history", name).set("msg", m).set("replay_args", vec!["--case".to_string(), format!("abort:{ci};{name}")]));
                        }
                    }
                }
            });
        }
    });
    let viols = viols.into_inner().unwrap();
    let n = cases.len();
    let mut vac = J::obj();
    vac.put("ended_by_abort", aborted.load(Ordering::Relaxed));
    vac.put("ended_by_unwinding_panic", unwound.load(Ordering::Relaxed));
    let cov = J::obj()
        .set("evaluations", n)
        .set("distinct_nontrivial", n)
        .set("states", n)
        .set("transitions", n)
        .set("traces_validated_against_impl", n)
        .set("rule", "panicking-twin part of C07: every listed panicking entry point (typed allocation methods, reserve, scoped allocation, BumpVec / MutBumpVec / MutBumpVecRev / BumpString / MutBumpString constructors and growth methods, Bump constructors) x 4 arena configurations, each in a child process: the chunk is filled completely, every further base-allocator call is refused, the try_ twin must report Err on an identically prepared arena (otherwise the probe is vacuous = machinery failure) and the panicking twin must not return (accepted: abort via handle_alloc_error, or an unwinding panic)")
        .set("samples", abort::PROBES.iter().take(8).map(|s| s.to_string()).collect::<Vec<_>>())
        .set("exhaustive", true)
        .set("probes", abort::PROBES.len())
        .set("vacuity_counters", vac);
    let space = J::obj()
        .set("property_id", "C07")
        .set("tier", if thorough { "thorough" } else { "quick" })
        .set("seed", 0)
        .set("level", "fault_enumeration")
        .set("space", "panicking-twins-under-refusal")
        .set("coverage", cov)
        .set("wall_s", t0.elapsed().as_secs_f64())
        .set("violations", viols.len())
        .set("floor", 100)
        .set("floor_ok", n >= 100 || !viols.is_empty());
    (space, viols)
}

fn main() {
    let args: Vec<String> = std::env::args().collect();
    let cmd = args.get(1).map(String::as_str).unwrap_or("");
    if cmd != "abort-child" {
        vcore::crash::install();
    }
    let prop = arg(&args, "--prop").unwrap_or_default();
    match cmd {
        "check" => {
            let thorough = arg(&args, "--tier").as_deref() == Some("thorough");
            let secs: u64 = arg(&args, "--secs").and_then(|s| s.parse().ok()).unwrap_or(if thorough { 900 } else { 75 });
            let deadline = Instant::now() + Duration::from_secs(secs);
            let mut results = Vec::new();
            match prop.as_str() {
                "C06" | "C08" => {
                    results.push(explore_vecs(&prop, thorough, deadline));
                    if prop == "C06" && results[0].1.is_empty() {
                        results.push(boxinit::explore(thorough));
                        results.push(boxend::explore(thorough));
                    }
                    if thorough && prop == "C06" && results.iter().all(|r| r.1.is_empty()) {
                        // one level deeper with the plain alphabet: a panic at every callback of every history of 3 operations
                        results.push(explore_vecs_ex(&prop, true, false, 3, vec![0, 2], "vectors-depth-3-plain-alphabet", deadline));
                    }
                    if prop == "C08" && results[0].1.is_empty() {
                        results.push(copyops::explore(thorough));
                        results.push(copyops::explore_fixed(thorough));
                    }
                    if thorough && prop == "C08" && results.iter().all(|r| r.1.is_empty()) {
                        results.push(explore_vecs_ex(&prop, true, false, 4, vec![0, 2], "vectors-depth-4-plain-alphabet", deadline));
                    }
                }
                "C16" => {
                    results.push(split::explore(thorough, deadline));
                    results.push(flatten::explore(thorough));
                    results.push(strsplit::explore(thorough));
                }
                "C07" => {
                    results.push(split::explore_alloc_failures(thorough, deadline));
                    results.push(strfail::explore_str_failures(thorough, deadline));
                    results.push(explore_abort_probes(thorough));
                    results.push(overflow::explore(thorough));
                    results.push(claimops::explore(thorough));
                }
                _ => panic!("unknown property"),
            };
            let mut total = 0;
            for (space, viols) in &results {
                for v in viols {
                    println!("VIOL {}", v.to_string());
                }
                println!("SPACE {}", space.to_string());
                total += viols.len();
            }
            println!("DONE violations={total}");
        }
        "replay" => {
            let case = arg(&args, "--case").expect("--case");
            if let Some(rest) = case.strip_prefix("abort:") {
                let (ci, name) = rest.split_once(';').expect("abort:<ci>;<probe>");
                match abort_verdict(ci.parse().expect("ci"), name) {
                    Ok(_) => println!("REPLAY OK"),
                    Err(m) => println!("REPLAY VIOLATION step=0 msg={m}"),
                }
                return;
            }
            if case.starts_with("claimops:") {
                match claimops::replay(&case) {
                    Some(m) => println!("REPLAY VIOLATION step=0 msg={m}"),
                    None => println!("REPLAY OK"),
                }
                return;
            }
            if case.starts_with("boxend:") {
                match boxend::replay(&case) {
                    Some(m) => println!("REPLAY VIOLATION step=0 msg={m}"),
                    None => println!("REPLAY OK"),
                }
                return;
            }
            if case.starts_with("copyops:fixedtry=1") {
                match copyops::replay_fixed(&case) {
                    Some(m) => println!("REPLAY VIOLATION step=0 msg={m}"),
                    None => println!("REPLAY OK"),
                }
                return;
            }
            if case.starts_with("copyops:") {
                match copyops::replay(&case) {
                    Some(m) => println!("REPLAY VIOLATION step=0 msg={m}"),
                    None => println!("REPLAY OK"),
                }
                return;
            }
            if case.starts_with("overflow:") {
                match overflow::replay(&case) {
                    Some(m) => println!("REPLAY VIOLATION step=0 msg={m}"),
                    None => println!("REPLAY OK"),
                }
                return;
            }
            if case.starts_with("strsplit:") {
                match strsplit::replay(&case) {
                    Some(m) => println!("REPLAY VIOLATION step=0 msg={m}"),
                    None => println!("REPLAY OK"),
                }
                return;
            }
            if case.starts_with("boxinit:") {
                match boxinit::replay(&case) {
                    Some(m) => println!("REPLAY VIOLATION step=0 msg={m}"),
                    None => println!("REPLAY OK"),
                }
                return;
            }
            if case.starts_with("flat:") {
                match flatten::replay(&case) {
                    Some(m) => println!("REPLAY VIOLATION step=0 msg={m}"),
                    None => println!("REPLAY OK"),
                }
                return;
            }
            if case.starts_with("strfail:") {
                match strfail::replay(&case) {
                    Some(m) => println!("REPLAY VIOLATION step=0 msg={m}"),
                    None => println!("REPLAY OK"),
                }
                return;
            }
            if case.starts_with("split:") || case.starts_with("fail:") {
                match split::replay(&case) {
                    Some(m) => println!("REPLAY VIOLATION step=0 msg={m}"),
                    None => println!("REPLAY OK"),
                }
                return;
            }
            let (_p, ci, kind, zst, init, k, drops, ops) = parse_case(&case).expect("case");
            let mode = if _p == "C06" { Mode::Inject { k, drops } } else { Mode::Diff };
            let r = run_case(ci, kind, zst, init, &ops, mode);
            match r.verdict {
                Verdict::Violation(step, msg) => println!("REPLAY VIOLATION step={step} msg={msg}"),
                _ => println!("REPLAY OK"),
            }
        }
        "abort-child" => {
            let ci: usize = arg(&args, "--ci").and_then(|s| s.parse().ok()).expect("--ci");
            let name = arg(&args, "--probe").expect("--probe");
            abort::child(ci, &name)
        }
        _ => {
            eprintln!("usage: coll-mc check|replay ...");
            std::process::exit(2);
        }
    }
}
