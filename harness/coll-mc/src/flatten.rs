//! C16, `into_flattened`: flattening a slice / vector of arrays keeps element count and order, capacities multiply,
//! and the flattened collection is an ordinary owner afterwards (push / pop / drop, every value dropped once).
//! Closed product: configuration x container x element kind x array length N x number of arrays x spare capacity.

use crate::elem::{self, El, ElemT, Z};
use crate::{CFGS, with_cfg};
use bump_scope::settings::{BumpAllocatorSettings, BumpSettings};
use bump_scope::{BaseAllocator, Bump, BumpBox, BumpVec, FixedBumpVec, MutBumpVec, MutBumpVecRev};
use std::panic::{AssertUnwindSafe, catch_unwind};
use std::time::Instant;
use vcore::json::J;
use vcore::slab::{self, SlabCfg, SlabZ};

type B<S> = Bump<SlabZ, S>;

#[derive(Clone, Copy, Debug, PartialEq, Eq)]
pub enum Cont {
    Boxed,
    Fixed,
    Vec,
    MutVec,
    MutVecRev,
}

const CONTS: [Cont; 5] = [Cont::Boxed, Cont::Fixed, Cont::Vec, Cont::MutVec, Cont::MutVecRev];

#[derive(Clone, Copy, Debug)]
pub struct FlatCase {
    pub ci: usize,
    pub cont: Cont,
    pub zst: bool,
    pub arr: usize,
    pub n: usize,
    pub extra: usize,
}

impl FlatCase {
    pub fn text(&self) -> String {
        format!("flat:cfg={};cont={:?};zst={};arr={};n={};extra={}", self.ci, self.cont, self.zst as u8, self.arr, self.n, self.extra)
    }
}

fn arrays<T: ElemT, const N: usize>(n: usize) -> (Vec<[T; N]>, Vec<u32>) {
    let mut model = Vec::new();
    let mut v = Vec::new();
    for i in 0..n {
        v.push(std::array::from_fn(|j| {
            let val = (10 * (i + 1) + j) as u32;
            model.push(if T::IS_ZST { 0 } else { val });
            T::new(val)
        }));
    }
    (v, model)
}

fn run<S, T, const N: usize>(c: &FlatCase) -> Result<(), String>
where
    S: BumpAllocatorSettings + 'static,
    T: ElemT,
    SlabZ: BaseAllocator<S::GuaranteedAllocated>,
{
    let mut bump: B<S> = Bump::new_in(SlabZ);
    let _ = bump.alloc(0u8);
    let (src, mut model) = arrays::<T, N>(c.n);
    let vals = |it: &mut dyn Iterator<Item = &T>| -> Vec<u32> { it.map(|e| e.val()).collect() };
    let z = |x: u32| if T::IS_ZST { 0 } else { x };
    macro_rules! cap_check {
        ($flat:ident, $cap_before:expr, $can_grow:expr) => {{
            let cap: usize = $cap_before;
            let expect = if T::IS_ZST { usize::MAX } else { cap.saturating_mul(N) };
            // a zero-sized array type reports unlimited capacity before flattening
            let expect = if N == 0 && !T::IS_ZST { 0 } else { expect };
            if !$can_grow && $flat.capacity() != expect {
                return Err(format!("flattened capacity {} != {} (capacity {} x {})", $flat.capacity(), expect, cap, N));
            }
            if $flat.capacity() < $flat.len() {
                return Err(format!("flattened capacity {} < length {}", $flat.capacity(), $flat.len()));
            }
        }};
    }
    macro_rules! after {
        ($flat:ident, $rev:expr) => {{
            let got = vals(&mut $flat.iter());
            if got != model {
                return Err(format!("flattened contents {:?}, expected {:?}", got, model));
            }
            if $flat.len() != c.n * N {
                return Err(format!("flattened length {} != {} arrays x {}", $flat.len(), c.n, N));
            }
            // the flattened collection is an ordinary owner: pop one
            if let Some(last) = $flat.pop() {
                let want = if $rev { model.remove(0) } else { model.pop().unwrap() };
                if last.val() != want {
                    return Err(format!("pop after flattening returned {}, expected {want}", last.val()));
                }
            }
        }};
    }
    match c.cont {
        Cont::Boxed => {
            let b: BumpBox<[[T; N]]> = bump.alloc_iter(src);
            let mut flat: BumpBox<[T]> = b.into_flattened();
            after!(flat, false);
            drop(flat);
        }
        Cont::Fixed => {
            let mut f: FixedBumpVec<[T; N]> = FixedBumpVec::with_capacity_in(c.n + c.extra, &bump);
            for a in src {
                f.push(a);
            }
            let cap = f.capacity();
            let mut flat: FixedBumpVec<T> = f.into_flattened();
            cap_check!(flat, cap, false);
            after!(flat, false);
            // fill up to the flattened capacity (bounded), must never reallocate or overflow the buffer
            let room = (flat.capacity() - flat.len()).min(8);
            for i in 0..room {
                flat.push(T::new(500 + i as u32));
                model.push(z(500 + i as u32));
            }
            let got = vals(&mut flat.iter());
            if got != model {
                return Err(format!("after filling the flattened fixed vector: {:?}, expected {:?}", got, model));
            }
            if !T::IS_ZST && flat.len() == flat.capacity() && flat.try_push(T::new(1)).is_ok() {
                return Err("a full flattened fixed vector accepted another element".into());
            }
            drop(flat);
        }
        Cont::Vec => {
            let mut v: BumpVec<[T; N], &B<S>> = BumpVec::with_capacity_in(c.n + c.extra, &bump);
            for a in src {
                v.push(a);
            }
            let cap = v.capacity();
            let mut flat: BumpVec<T, &B<S>> = v.into_flattened();
            cap_check!(flat, cap, false);
            after!(flat, false);
            for i in 0..9 {
                flat.push(T::new(500 + i));
                model.push(z(500 + i));
            }
            let got = vals(&mut flat.iter());
            if got != model {
                return Err(format!("after growing the flattened vector: {:?}, expected {:?}", got, model));
            }
            drop(flat);
        }
        Cont::MutVec => {
            let mut v: MutBumpVec<[T; N], &mut B<S>> = MutBumpVec::with_capacity_in(c.n + c.extra, &mut bump);
            for a in src {
                v.push(a);
            }
            let cap = v.capacity();
            let mut flat: MutBumpVec<T, &mut B<S>> = v.into_flattened();
            cap_check!(flat, cap, true);
            after!(flat, false);
            for i in 0..9 {
                flat.push(T::new(500 + i));
                model.push(z(500 + i));
            }
            let got = vals(&mut flat.iter());
            if got != model {
                return Err(format!("after growing the flattened vector: {:?}, expected {:?}", got, model));
            }
            let boxed = flat.into_boxed_slice();
            let got = vals(&mut boxed.iter());
            if got != model {
                return Err(format!("into_boxed_slice of the flattened vector: {:?}, expected {:?}", got, model));
            }
            drop(boxed);
        }
        Cont::MutVecRev => {
            let mut v: MutBumpVecRev<[T; N], &mut B<S>> = MutBumpVecRev::with_capacity_in(c.n + c.extra, &mut bump);
            // pushing to the front: push in reverse to keep the model order
            for a in src.into_iter().rev() {
                v.push(a);
            }
            let cap = v.capacity();
            let mut flat: MutBumpVecRev<T, &mut B<S>> = v.into_flattened();
            cap_check!(flat, cap, true);
            after!(flat, true);
            for i in 0..9 {
                flat.push(T::new(500 + i));
                model.insert(0, z(500 + i));
            }
            let got = vals(&mut flat.iter());
            if got != model {
                return Err(format!("after growing the flattened rev vector: {:?}, expected {:?}", got, model));
            }
            let boxed = flat.into_boxed_slice();
            let got = vals(&mut boxed.iter());
            if got != model {
                return Err(format!("into_boxed_slice of the flattened rev vector: {:?}, expected {:?}", got, model));
            }
            drop(boxed);
        }
    }
    Ok(())
}

pub fn flat_case(c: &FlatCase) -> Result<(), String> {
    fn fmt(p: *const ()) -> String {
        format!("replaycase=<<{}>>", unsafe { &*(p as *const FlatCase) }.text())
    }
    vcore::crash::with_inflight(c, fmt, || flat_case_inner(c))
}

fn flat_case_inner(c: &FlatCase) -> Result<(), String> {
    slab::select(0);
    slab::reset(0, SlabCfg::default());
    elem::reset();
    let _ = vcore::crash::take_last_panic();
    macro_rules! go {
        ($n:literal) => {
            with_cfg!(c.ci, |S| if c.zst { run::<S, Z, $n>(c) } else { run::<S, El, $n>(c) })
        };
    }
    let r = catch_unwind(AssertUnwindSafe(|| match c.arr {
        0 => go!(0),
        1 => go!(1),
        2 => go!(2),
        _ => go!(3),
    }));
    match r {
        Ok(r) => r?,
        Err(_) => return Err(format!("unexpected panic: {}", vcore::crash::take_last_panic().unwrap_or_default())),
    }
    if let Some(f) = elem::flags().first() {
        return Err(f.clone());
    }
    let cen = elem::census();
    if cen.dropped_more > 0 {
        return Err(format!("{} value(s) dropped more than once", cen.dropped_more));
    }
    if cen.alive > 0 || cen.z_live != 0 {
        return Err(format!("{} value(s) never dropped after the flattened collection was gone", cen.alive as i64 + cen.z_live));
    }
    let (errs, guards) = slab::with_slab(0, |s| (s.errors.first().cloned(), s.check_guards()));
    if let Some(e) = errs {
        return Err(format!("base allocator protocol: {e}"));
    }
    if let Err(e) = guards {
        return Err(format!("memory outside granted blocks written: {e}"));
    }
    Ok(())
}

pub fn explore(thorough: bool) -> (J, Vec<J>) {
    let t0 = Instant::now();
    let max_n = if thorough { 9 } else { 5 };
    let mut cases = Vec::new();
    for ci in 0..CFGS.len() {
        for cont in CONTS {
            for zst in [false, true] {
                for arr in 0..=3 {
                    for n in 0..=max_n {
                        for extra in 0..=2 {
                            if cont == Cont::Boxed && extra > 0 {
                                continue;
                            }
                            cases.push(FlatCase { ci, cont, zst, arr, n, extra });
                        }
                    }
                }
            }
        }
    }
    let mut viols = Vec::new();
    let mut nt = 0u64;
    for c in &cases {
        if c.n > 0 && c.arr > 0 {
            nt += 1;
        }
        if let Err(m) = flat_case(c) {
            if viols.len() < 8 {
                viols.push(J::obj().set("prop", "C16").set("cfg", CFGS[c.ci].0).set("params", format!("{:?} zst={} arrays={} of length {} extra_cap={}", c.cont, c.zst, c.n, c.arr, c.extra)).set("history", "into_flattened").set("msg", m).set("replay_args", vec!["--case".to_string(), c.text()]));
            }
        }
    }
    let cov = J::obj()
        .set("states", cases.len())
        .set("transitions", cases.len())
        .set("traces_validated_against_impl", cases.len())
        .set("evaluations", cases.len())
        .set("distinct_nontrivial", nt)
        .set("rule", "into_flattened on BumpBox<[[T;N]]>, FixedBumpVec, BumpVec, MutBumpVec, MutBumpVecRev x sized / zero-sized T x N in 0..3 x 0..max arrays x spare capacity 0..2 x 4 configurations: the flattened collection holds the same elements in the same order, its length is arrays x N, the capacity of fixed and shared vectors is the old capacity x N (unlimited for zero-sized T), it pops / pushes / grows / converts like any other owner, a full flattened fixed vector refuses another element, and every value is dropped exactly once; non-trivial = at least one non-empty array")
        .set("samples", cases.iter().step_by((cases.len() / 6).max(1)).take(6).map(|c| c.text()).collect::<Vec<_>>())
        .set("exhaustive", true);
    let space = J::obj()
        .set("property_id", "C16")
        .set("tier", if thorough { "thorough" } else { "quick" })
        .set("seed", 0)
        .set("level", "model_checking")
        .set("space", "into-flattened")
        .set("coverage", cov)
        .set("wall_s", t0.elapsed().as_secs_f64())
        .set("violations", viols.len())
        .set("floor", 500)
        .set("floor_ok", nt >= 500 || !viols.is_empty());
    (space, viols)
}

pub fn replay(case: &str) -> Option<String> {
    let rest = case.strip_prefix("flat:")?;
    let mut m = std::collections::HashMap::new();
    for item in rest.split(';') {
        if let Some((k, v)) = item.split_once('=') {
            m.insert(k.to_string(), v.to_string());
        }
    }
    let c = FlatCase {
        ci: m["cfg"].parse().ok()?,
        cont: match m["cont"].as_str() {
            "Boxed" => Cont::Boxed,
            "Fixed" => Cont::Fixed,
            "Vec" => Cont::Vec,
            "MutVec" => Cont::MutVec,
            _ => Cont::MutVecRev,
        },
        zst: m["zst"] == "1",
        arr: m["arr"].parse().ok()?,
        n: m["n"].parse().ok()?,
        extra: m["extra"].parse().ok()?,
    };
    flat_case(&c).err()
}
