//! C16, strings: `split_off` on `BumpBox<str>`, `FixedBumpString` and `BumpString` divides a string into two parts that
//! together hold exactly the original text, with capacities that add up to the original capacity and memory that does
//! not overlap; afterwards each part is independent (filling one up to and beyond its capacity never changes the other).
//! Closed product: configuration x container x text x spare capacity x every byte range (valid or not).

use crate::{CFGS, with_cfg};
use bump_scope::settings::{BumpAllocatorSettings, BumpSettings};
use bump_scope::{BaseAllocator, Bump, BumpBox, BumpString, FixedBumpString};
use std::panic::{AssertUnwindSafe, catch_unwind};
use std::time::Instant;
use vcore::json::J;
use vcore::slab::{self, SlabCfg, SlabZ};

type B<S> = Bump<SlabZ, S>;

#[derive(Clone, Copy, Debug, PartialEq, Eq)]
pub enum SCont {
    Boxed,
    Fixed,
    Bump,
}

const TEXTS: [&str; 7] = ["", "a", "abcdefgh", "héllo", "a€b", "😀xy😀", "ab€d😀fgh"];

#[derive(Clone, Copy, Debug)]
pub struct StrSplitCase {
    pub ci: usize,
    pub cont: SCont,
    pub text: usize,
    pub extra: usize,
    pub s: usize,
    pub e: usize,
    /// how the range is written (elem::bounds)
    pub form: usize,
}

impl StrSplitCase {
    pub fn text(&self) -> String {
        format!("strsplit:cfg={};cont={:?};text={};extra={};s={};e={};form={}", self.ci, self.cont, self.text, self.extra, self.s, self.e, self.form)
    }
}

fn run<S>(c: &StrSplitCase) -> Result<bool, String>
where
    S: BumpAllocatorSettings + 'static,
    SlabZ: BaseAllocator<S::GuaranteedAllocated>,
{
    let bump: B<S> = Bump::new_in(SlabZ);
    let _ = bump.alloc(0u8);
    let text = TEXTS[c.text];
    let valid = c.s <= c.e && c.e <= text.len() && text.is_char_boundary(c.s) && text.is_char_boundary(c.e);
    let (want_part, want_rest) = if valid { (text[c.s..c.e].to_string(), format!("{}{}", &text[..c.s], &text[c.e..])) } else { (String::new(), text.to_string()) };
    // (start, capacity end) of a string's buffer
    let span = |ptr: *const u8, cap: usize| (ptr as usize, ptr as usize + cap);
    macro_rules! judge {
        ($res:expr, $orig:ident, $cap_of:expr, $orig_cap:expr) => {{
            match $res {
                Err(_) => {
                    let _ = vcore::crash::take_last_panic();
                    if valid {
                        return Err(format!("split_off({}..{}) on {:?} panicked although the range is valid", c.s, c.e, text));
                    }
                    if $orig.as_bytes() != text.as_bytes() {
                        return Err(format!("split_off({}..{}) panicked and changed the string to {:?}", c.s, c.e, $orig.as_bytes()));
                    }
                    return Ok(false);
                }
                Ok(part) => {
                    if !valid {
                        return Err(format!("split_off({}..{}) on {:?} returned normally although the range is out of bounds or not on a char boundary", c.s, c.e, text));
                    }
                    if part.as_bytes() != want_part.as_bytes() || $orig.as_bytes() != want_rest.as_bytes() {
                        return Err(format!("split_off({}..{}) on {:?} gave {:?} and left {:?}", c.s, c.e, text, String::from_utf8_lossy(part.as_bytes()), String::from_utf8_lossy($orig.as_bytes())));
                    }
                    let (cp, co): (usize, usize) = ($cap_of(&part), $cap_of(&$orig));
                    let orig_cap: usize = $orig_cap;
                    if cp < part.len() || co < $orig.len() {
                        return Err(format!("a part's capacity is below its length ({cp} < {} or {co} < {})", part.len(), $orig.len()));
                    }
                    if cp + co != orig_cap {
                        return Err(format!("capacities {cp} + {co} do not add up to the original capacity {orig_cap}"));
                    }
                    let (a, b) = (span(part.as_ptr(), cp), span($orig.as_ptr(), co));
                    if cp > 0 && co > 0 && a.0 < b.1 && b.0 < a.1 {
                        return Err(format!("the parts' buffers overlap: {:#x}..{:#x} and {:#x}..{:#x}", a.0, a.1, b.0, b.1));
                    }
                    part
                }
            }
        }};
    }
    match c.cont {
        SCont::Boxed => {
            let mut orig: BumpBox<str> = bump.alloc_str(text);
            let r = catch_unwind(AssertUnwindSafe(|| orig.split_off(crate::elem::bounds(c.form, c.s, c.e, text.len()))));
            let part = judge!(r, orig, |x: &BumpBox<str>| x.len(), text.len());
            drop(part);
        }
        SCont::Fixed => {
            let mut orig: FixedBumpString = FixedBumpString::with_capacity_in(text.len() + c.extra, &bump);
            orig.push_str(text);
            let cap0 = orig.capacity();
            let r = catch_unwind(AssertUnwindSafe(|| orig.split_off(crate::elem::bounds(c.form, c.s, c.e, text.len()))));
            let mut part = judge!(r, orig, |x: &FixedBumpString| x.capacity(), cap0);
            // fill both parts to the brim: neither may disturb the other
            let mut want_p = want_part.clone();
            let mut want_o = want_rest.clone();
            while part.len() < part.capacity() {
                part.push('p');
                want_p.push('p');
            }
            if orig.as_bytes() != want_o.as_bytes() {
                return Err(format!("filling the split-off part changed the remaining string to {:?}", String::from_utf8_lossy(orig.as_bytes())));
            }
            while orig.len() < orig.capacity() {
                orig.push('o');
                want_o.push('o');
            }
            if part.as_bytes() != want_p.as_bytes() || orig.as_bytes() != want_o.as_bytes() {
                return Err(format!("after filling both parts they hold {:?} and {:?}", String::from_utf8_lossy(part.as_bytes()), String::from_utf8_lossy(orig.as_bytes())));
            }
            if part.try_push('x').is_ok() && part.capacity() > 0 {
                return Err("a full split-off fixed string accepted another char".into());
            }
        }
        SCont::Bump => {
            let mut orig: BumpString<&B<S>> = BumpString::with_capacity_in(text.len() + c.extra, &bump);
            orig.push_str(text);
            let cap0 = orig.capacity();
            let r = catch_unwind(AssertUnwindSafe(|| orig.split_off(crate::elem::bounds(c.form, c.s, c.e, text.len()))));
            let mut part = judge!(r, orig, |x: &BumpString<&B<S>>| x.capacity(), cap0);
            let mut want_p = want_part.clone();
            let mut want_o = want_rest.clone();
            // within capacity, then beyond it (the part has to move away)
            for _ in 0..part.capacity() - part.len() + 3 {
                part.push('p');
                want_p.push('p');
                if orig.as_bytes() != want_o.as_bytes() {
                    return Err(format!("pushing to the split-off part changed the remaining string to {:?}", String::from_utf8_lossy(orig.as_bytes())));
                }
            }
            for _ in 0..orig.capacity() - orig.len() + 3 {
                orig.push('o');
                want_o.push('o');
                if part.as_bytes() != want_p.as_bytes() {
                    return Err(format!("pushing to the remaining string changed the split-off part to {:?}", String::from_utf8_lossy(part.as_bytes())));
                }
            }
            if orig.as_bytes() != want_o.as_bytes() {
                return Err("the remaining string lost its own pushes".into());
            }
        }
    }
    Ok(valid)
}

pub fn case(c: &StrSplitCase) -> Result<bool, String> {
    fn fmt(p: *const ()) -> String {
        format!("replaycase=<<{}>>", unsafe { &*(p as *const StrSplitCase) }.text())
    }
    vcore::crash::with_inflight(c, fmt, || {
        slab::select(0);
        slab::reset(0, SlabCfg::default());
        let _ = vcore::crash::take_last_panic();
        let r = catch_unwind(AssertUnwindSafe(|| with_cfg!(c.ci, |S| run::<S>(c))));
        let r = match r {
            Ok(r) => r,
            Err(_) => Err(format!("unexpected panic: {}", vcore::crash::take_last_panic().unwrap_or_default())),
        };
        let ok = r?;
        let (errs, guards) = slab::with_slab(0, |s| (s.errors.first().cloned(), s.check_guards()));
        if let Some(e) = errs {
            return Err(format!("base allocator protocol: {e}"));
        }
        if let Err(e) = guards {
            return Err(format!("memory outside granted blocks written: {e}"));
        }
        Ok(ok)
    })
}

pub fn explore(thorough: bool) -> (J, Vec<J>) {
    let t0 = Instant::now();
    let max_extra = if thorough { 6 } else { 3 };
    let mut viols = Vec::new();
    let (mut n, mut nt) = (0u64, 0u64);
    let mut samples = Vec::new();
    'outer: for ci in 0..CFGS.len() {
        for cont in [SCont::Boxed, SCont::Fixed, SCont::Bump] {
            for text in 0..TEXTS.len() {
                for extra in 0..=max_extra {
                    if cont == SCont::Boxed && extra > 0 {
                        continue;
                    }
                    let len = TEXTS[text].len();
                    for s in 0..=len + 1 {
                        for e in 0..=len + 1 {
                          for form in 0..=4usize {
                            if !crate::elem::bounds_form_applies(form, s, e, len) {
                                continue;
                            }
                            let c = StrSplitCase { ci, cont, text, extra, s, e, form };
                            n += 1;
                            match case(&c) {
                                Ok(true) => {
                                    nt += 1;
                                    if samples.len() < 6 && nt % 997 == 1 {
                                        samples.push(c.text());
                                    }
                                }
                                Ok(false) => {}
                                Err(m) => {
                                    viols.push(J::obj().set("prop", "C16").set("cfg", CFGS[ci].0).set("params", format!("{cont:?} text={:?} extra_cap={extra}", TEXTS[text])).set("history", format!("split_off({:?})", crate::elem::bounds(form, s, e, len))).set("msg", m).set("replay_args", vec!["--case".to_string(), c.text()]));
                                    if viols.len() >= 8 {
                                        break 'outer;
                                    }
                                }
                            }
                          }
                        }
                    }
                }
            }
        }
    }
    let cov = J::obj()
        .set("states", n)
        .set("transitions", n)
        .set("traces_validated_against_impl", n)
        .set("evaluations", n)
        .set("distinct_nontrivial", nt)
        .set("rule", "string split_off: {BumpBox<str>, FixedBumpString, BumpString} x 7 texts mixing 1-4 byte characters x spare capacity 0..N x every pair of byte indices 0..=len+1, each written with every applicable bound form (s..e, excluded start, included end, both, unbounded) (inverted, out-of-range and non-boundary ranges must panic and leave the string alone) x 4 arena configurations; a valid split returns exactly text[range] and leaves the rest, the capacities add up to the original capacity, the buffers (start .. start + capacity) do not overlap, and filling each part up to (fixed) / beyond (growable) its capacity never changes the other part; non-trivial = valid ranges")
        .set("samples", samples)
        .set("exhaustive", true);
    let space = J::obj()
        .set("property_id", "C16")
        .set("tier", if thorough { "thorough" } else { "quick" })
        .set("seed", 0)
        .set("level", "model_checking")
        .set("space", "string-split")
        .set("coverage", cov)
        .set("wall_s", t0.elapsed().as_secs_f64())
        .set("violations", viols.len())
        .set("floor", 500)
        .set("floor_ok", nt >= 500 || !viols.is_empty());
    (space, viols)
}

pub fn replay(case_text: &str) -> Option<String> {
    let rest = case_text.strip_prefix("strsplit:")?;
    let mut m = std::collections::HashMap::new();
    for item in rest.split(';') {
        if let Some((k, v)) = item.split_once('=') {
            m.insert(k.to_string(), v.to_string());
        }
    }
    let c = StrSplitCase {
        ci: m["cfg"].parse().ok()?,
        cont: match m["cont"].as_str() {
            "Boxed" => SCont::Boxed,
            "Fixed" => SCont::Fixed,
            _ => SCont::Bump,
        },
        text: m["text"].parse().ok()?,
        extra: m["extra"].parse().ok()?,
        s: m["s"].parse().ok()?,
        e: m["e"].parse().ok()?,
        form: m.get("form").and_then(|f| f.parse().ok()).unwrap_or(0),
    };
    case(&c).err()
}
