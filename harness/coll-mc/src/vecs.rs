//! Vector operations, the std reference model (mirrored for `MutBumpVecRev`) and the `Subject` adapters for the five
//! vector-like types of bump-scope.

use crate::elem::{ElemT, tick};
use bump_scope::{Bump, BumpBox, BumpVec, FixedBumpVec, MutBumpVec, MutBumpVecRev, settings::BumpAllocatorSettings};
use std::fmt;
use vcore::slab::SlabZ;

#[derive(Clone, Copy, Debug, PartialEq, Eq, Hash)]
pub enum Kind {
    BumpVec,
    MutVec,
    MutVecRev,
    Fixed,
    Boxed,
}
pub const KINDS: [Kind; 5] = [Kind::BumpVec, Kind::MutVec, Kind::MutVecRev, Kind::Fixed, Kind::Boxed];

impl Kind {
    pub fn name(self) -> &'static str {
        match self {
            Kind::BumpVec => "BumpVec",
            Kind::MutVec => "MutBumpVec",
            Kind::MutVecRev => "MutBumpVecRev",
            Kind::Fixed => "FixedBumpVec",
            Kind::Boxed => "BumpBox<[T]>",
        }
    }
    pub fn parse(s: &str) -> Option<Kind> {
        KINDS.iter().copied().find(|k| k.name() == s)
    }
    pub fn rev(self) -> bool {
        self == Kind::MutVecRev
    }
}

#[derive(Clone, Copy, Debug, PartialEq, Eq, Hash)]
pub enum Take {
    /// consume the whole iterator
    All,
    /// take one item from the front, then drop the iterator
    FrontOne,
    /// take one item from the back, then drop the iterator
    BackOne,
    /// drop the iterator without taking anything
    None,
    /// take one from the front, then `mem::forget` the iterator (explicit leak route)
    Forget,
    /// take one from the front, then `keep_rest()` (drain only)
    KeepRest,
    /// take one from the back, then `keep_rest()`
    KeepRestBack,
    /// `keep_rest()` right away
    KeepRestNone,
}

#[derive(Clone, Copy, Debug, PartialEq, Eq, Hash)]
pub enum Src {
    Array,
    StdVec,
    BoxedSlice,
    StdDrain,
    BumpBoxSlice,
    OtherBumpVec,
}

#[derive(Clone, Copy, Debug, PartialEq, Eq, Hash)]
pub enum VOp {
    Push(u32),
    PushWith(u32),
    Insert(usize, u32),
    /// push_mut / push_mut_with / insert_mut: like their plain twins, but hand back `&mut T`
    PushMut(u32),
    PushMutWith(u32),
    InsertMut(usize, u32),
    /// BumpVec only: rebuild the vector from its own elements through another constructor
    /// (0 = from_owned_slice_in(Vec), 1 = from_owned_slice_in(Box<[T]>), 2 = from_iter_exact_in, 3 = from_iter_in)
    Rebuild(u8),
    Remove(usize),
    SwapRemove(usize),
    Pop,
    PopIf(bool),
    Truncate(usize),
    Clear,
    Resize(usize, u32),
    ResizeWith(usize),
    ExtendClone(usize),
    ExtendWithin(usize, usize),
    /// extend from an iterator of n items with an (under = false / over = true)-reporting size hint
    ExtendIter(usize, bool),
    Append(Src, usize),
    Drain(usize, usize, Take),
    Splice(usize, usize, usize, Take),
    /// splice whose replacement iterator reports an honest lower bound of min(lower, remaining): the drop path moves
    /// the tail by the bound first, then collects the rest
    SpliceHint(usize, usize, usize, usize),
    /// predicate: bit i of mask set => element i selected
    ExtractIf(u8, Take),
    Retain(u8),
    Dedup,
    DedupByKey,
    /// dedup_by with a predicate that is not transitive (values at most 1 apart): every element has to be compared
    /// with the last *retained* one
    DedupBy,
    SplitOff(usize, usize),
    Reserve(usize),
    ReserveExact(usize),
    ShrinkToFit,
    ShrinkTo(usize),
    /// into_boxed_slice / into_fixed_vec and back where the type supports it (contents must survive)
    RoundTrip,
    // ---- consuming ("finishing") operations
    IntoIter(usize, usize),
    MapInPlace,
    Map,
    /// BumpVec::try_map
    TryMap,
    IntoFlattenedNoop,
}

impl VOp {
    pub fn is_finisher(&self) -> bool {
        matches!(self, VOp::IntoIter(..) | VOp::MapInPlace | VOp::Map | VOp::TryMap | VOp::IntoFlattenedNoop)
    }
}

impl fmt::Display for VOp {
    fn fmt(&self, f: &mut fmt::Formatter<'_>) -> fmt::Result {
        write!(f, "{:?}", self)
    }
}

#[derive(Clone, Debug, PartialEq, Eq, Default)]
pub struct Ret {
    pub vals: Vec<u32>,
    pub flag: Option<bool>,
}
impl Ret {
    pub fn none() -> Ret {
        Ret::default()
    }
    pub fn vals(v: Vec<u32>) -> Ret {
        Ret { vals: v, flag: None }
    }
}

fn take_model(mut it: Vec<u32>, take: Take) -> Vec<u32> {
    match take {
        Take::All => it,
        Take::FrontOne | Take::Forget | Take::KeepRest => {
            it.truncate(1);
            it
        }
        Take::BackOne | Take::KeepRestBack => it.pop().into_iter().collect(),
        Take::None | Take::KeepRestNone => Vec::new(),
    }
}

/// The reference model: `Vec<u32>` with the documented semantics (front/back mirrored for the reverse vector).
/// Returns None when the operation is not defined for the kind.
pub fn model_apply(m: &mut Vec<u32>, kind: Kind, op: &VOp, fixed_cap: usize) -> Option<Ret> {
    let rev = kind.rev();
    let n = m.len();
    let full = |extra: usize| kind == Kind::Fixed && n + extra > fixed_cap;
    Some(match *op {
        VOp::Push(v) | VOp::PushWith(v) => {
            if full(1) {
                panic!("model: fixed vector is full");
            }
            if rev { m.insert(0, v) } else { m.push(v) }
            Ret::none()
        }
        VOp::Insert(i, v) => {
            if i > n {
                panic!("model: insertion index out of bounds");
            }
            if full(1) {
                panic!("model: fixed vector is full");
            }
            m.insert(i, v);
            Ret::none()
        }
        VOp::PushMut(v) | VOp::PushMutWith(v) => {
            if kind == Kind::Boxed {
                return None;
            }
            if full(1) {
                panic!("model: fixed vector is full");
            }
            if rev { m.insert(0, v) } else { m.push(v) }
            Ret::vals(vec![v])
        }
        VOp::InsertMut(i, v) => {
            if kind == Kind::Boxed {
                return None;
            }
            if i > n {
                panic!("model: insertion index out of bounds");
            }
            if full(1) {
                panic!("model: fixed vector is full");
            }
            m.insert(i, v);
            Ret::vals(vec![v])
        }
        VOp::Rebuild(_) => {
            if kind != Kind::BumpVec {
                return None;
            }
            Ret::none()
        }
        VOp::Remove(i) => Ret::vals(vec![m.remove(i)]),
        VOp::SwapRemove(i) => {
            if rev {
                if i >= n {
                    panic!("model: swap_remove index out of bounds");
                }
                m.swap(0, i);
                Ret::vals(vec![m.remove(0)])
            } else {
                Ret::vals(vec![m.swap_remove(i)])
            }
        }
        VOp::Pop => {
            let r = if rev { if n > 0 { Some(m.remove(0)) } else { None } } else { m.pop() };
            Ret { vals: r.into_iter().collect(), flag: None }
        }
        VOp::PopIf(b) => {
            if kind == Kind::Boxed {
                return None;
            }
            if n == 0 || !b {
                Ret::none()
            } else {
                let r = if rev { m.remove(0) } else { m.pop().unwrap() };
                Ret::vals(vec![r])
            }
        }
        VOp::Truncate(k) => {
            if k < n {
                if rev {
                    m.drain(..n - k);
                } else {
                    m.truncate(k);
                }
            }
            Ret::none()
        }
        VOp::Clear => {
            m.clear();
            Ret::none()
        }
        VOp::Resize(k, _) | VOp::ResizeWith(k) => {
            let v = if let VOp::Resize(_, v) = *op { v } else { 77 };
            if k > n {
                if full(k - n) {
                    panic!("model: fixed vector is full");
                }
                if rev {
                    for _ in 0..k - n {
                        m.insert(0, v);
                    }
                } else {
                    m.resize(k, v);
                }
            } else if rev {
                m.drain(..n - k);
            } else {
                m.truncate(k);
            }
            Ret::none()
        }
        VOp::ExtendClone(c) => {
            if full(c) {
                panic!("model: fixed vector is full");
            }
            let s: Vec<u32> = (0..c as u32).map(|i| 500 + i).collect();
            if rev {
                m.splice(0..0, s);
            } else {
                m.extend(s);
            }
            Ret::none()
        }
        VOp::ExtendWithin(s, e) => {
            let part: Vec<u32> = m[s..e].to_vec();
            if full(part.len()) {
                panic!("model: fixed vector is full");
            }
            if rev {
                m.splice(0..0, part);
            } else {
                m.extend(part);
            }
            Ret::none()
        }
        VOp::ExtendIter(c, over) => {
            if over && kind == Kind::Fixed {
                // an over-reporting lower bound breaks the Iterator contract; a fixed vector may refuse the (lied) amount
                return None;
            }
            if full(c) {
                panic!("model: fixed vector is full");
            }
            for i in 0..c as u32 {
                if rev {
                    m.insert(0, 600 + i);
                } else {
                    m.push(600 + i);
                }
            }
            Ret::none()
        }
        VOp::Append(_, c) => {
            if full(c) {
                panic!("model: fixed vector is full");
            }
            let s: Vec<u32> = (0..c as u32).map(|i| 700 + i).collect();
            if rev {
                m.splice(0..0, s);
            } else {
                m.extend(s);
            }
            Ret::none()
        }
        VOp::Drain(s, e, take) => {
            if rev {
                return None;
            }
            let d: Vec<u32> = m.drain(s..e).collect();
            // keep_rest: the un-yielded part of the range stays in the vector
            let rest: Vec<u32> = match take {
                Take::KeepRest if !d.is_empty() => d[1..].to_vec(),
                Take::KeepRestBack if !d.is_empty() => d[..d.len() - 1].to_vec(),
                Take::KeepRestNone => d.clone(),
                _ => Vec::new(),
            };
            m.splice(s..s, rest);
            Ret::vals(take_model(d, take))
        }
        VOp::Splice(s, e, c, take) => {
            if kind != Kind::BumpVec {
                return None;
            }
            let repl: Vec<u32> = (0..c as u32).map(|i| 800 + i).collect();
            let d: Vec<u32> = m.splice(s..e, repl).collect();
            Ret::vals(take_model(d, take))
        }
        VOp::SpliceHint(s, e, c, _) => {
            if kind != Kind::BumpVec {
                return None;
            }
            let repl: Vec<u32> = (0..c as u32).map(|i| 800 + i).collect();
            let d: Vec<u32> = m.splice(s..e, repl).collect();
            Ret::vals(d)
        }
        VOp::ExtractIf(mask, take) => {
            if rev {
                return None;
            }
            // std semantics: elements are visited lazily; dropping the iterator early keeps the unvisited rest
            let mut out = Vec::new();
            let mut keep = Vec::new();
            let limit = match take {
                Take::All => usize::MAX,
                Take::FrontOne | Take::Forget | Take::KeepRest => 1,
                Take::BackOne | Take::KeepRestBack | Take::KeepRestNone => return None,
                Take::None => 0,
            };
            let mut stopped_at = n;
            for (i, &v) in m.iter().enumerate() {
                if out.len() >= limit {
                    stopped_at = i;
                    break;
                }
                if mask >> (i % 8) & 1 == 1 {
                    out.push(v);
                } else {
                    keep.push(v);
                }
            }
            keep.extend_from_slice(&m[stopped_at..]);
            *m = keep;
            Ret::vals(out)
        }
        VOp::Retain(mask) => {
            if rev {
                return None;
            }
            let mut i = 0;
            m.retain(|_| {
                let k = mask >> (i % 8) & 1 == 1;
                i += 1;
                k
            });
            Ret::none()
        }
        VOp::Dedup => {
            if rev {
                return None;
            }
            m.dedup();
            Ret::none()
        }
        VOp::DedupByKey => {
            if rev {
                return None;
            }
            m.dedup_by_key(|v| *v / 2);
            Ret::none()
        }
        VOp::DedupBy => {
            if rev {
                return None;
            }
            m.dedup_by(|a, b| a.abs_diff(*b) <= 1);
            Ret::none()
        }
        VOp::SplitOff(s, e) => {
            if matches!(kind, Kind::MutVec | Kind::MutVecRev) {
                return None;
            }
            let d: Vec<u32> = m.drain(s..e).collect();
            Ret::vals(d)
        }
        VOp::Reserve(_) | VOp::ReserveExact(_) => {
            if kind == Kind::Boxed || (kind == Kind::Fixed && matches!(op, VOp::ReserveExact(_))) {
                return None;
            }
            if let VOp::Reserve(k) | VOp::ReserveExact(k) = *op {
                if full(k) {
                    panic!("model: fixed vector cannot reserve");
                }
            }
            Ret::none()
        }
        VOp::ShrinkToFit | VOp::ShrinkTo(_) => {
            if kind != Kind::BumpVec {
                return None;
            }
            Ret::none()
        }
        VOp::RoundTrip => {
            if !matches!(kind, Kind::BumpVec) {
                return None;
            }
            Ret::none()
        }
        VOp::IntoIter(j, k) => {
            let mut it: std::collections::VecDeque<u32> = m.drain(..).collect();
            let mut out = Vec::new();
            for _ in 0..j {
                if let Some(v) = it.pop_front() {
                    out.push(v);
                }
            }
            for _ in 0..k {
                if let Some(v) = it.pop_back() {
                    out.push(v);
                }
            }
            Ret::vals(out)
        }
        VOp::MapInPlace => {
            if rev {
                return None;
            }
            for v in m.iter_mut() {
                *v += 1000;
            }
            Ret::vals(m.clone())
        }
        VOp::Map | VOp::TryMap => {
            if kind != Kind::BumpVec {
                return None;
            }
            for v in m.iter_mut() {
                *v += 2000;
            }
            Ret::vals(m.clone())
        }
        VOp::IntoFlattenedNoop => return None,
    })
}

/// An iterator with a lying size hint whose `next` is a user callback.
pub struct TickIter<T: ElemT> {
    next: u32,
    end: u32,
    over: bool,
    lower: usize,
    _t: std::marker::PhantomData<T>,
}
impl<T: ElemT> TickIter<T> {
    pub fn new(start: u32, n: usize, over: bool) -> Self {
        TickIter { next: start, end: start + n as u32, over, lower: 0, _t: std::marker::PhantomData }
    }
    /// honest lower bound min(lower, remaining), no upper bound
    pub fn with_lower(start: u32, n: usize, lower: usize) -> Self {
        TickIter { next: start, end: start + n as u32, over: false, lower, _t: std::marker::PhantomData }
    }
}
impl<T: ElemT> Iterator for TickIter<T> {
    type Item = T;
    fn next(&mut self) -> Option<T> {
        tick();
        if self.next >= self.end {
            return None;
        }
        self.next += 1;
        Some(T::new(self.next - 1))
    }
    fn size_hint(&self) -> (usize, Option<usize>) {
        let n = (self.end - self.next) as usize;
        if self.over { (n + 3, Some(n + 3)) } else { (self.lower.min(n), None) }
    }
}

pub fn take_from<T: ElemT, I: DoubleEndedIterator<Item = T>>(mut it: I, take: Take) -> (Vec<u32>, Option<I>) {
    let mut out = Vec::new();
    match take {
        Take::All => {
            for v in it.by_ref() {
                out.push(v.val());
            }
            (out, Some(it))
        }
        Take::FrontOne | Take::Forget | Take::KeepRest => {
            if let Some(v) = it.next() {
                out.push(v.val());
            }
            (out, Some(it))
        }
        Take::BackOne | Take::KeepRestBack => {
            if let Some(v) = it.next_back() {
                out.push(v.val());
            }
            (out, Some(it))
        }
        Take::None | Take::KeepRestNone => (out, Some(it)),
    }
}

pub type B<S> = Bump<SlabZ, S>;

/// What the differential driver needs from a vector-like subject.
pub trait Subject<T: ElemT>: Sized {
    const KIND: Kind;
    fn vals(&self) -> Vec<u32>;
    fn len(&self) -> usize;
    fn capacity(&self) -> usize;
    /// address that stays fixed while no reallocation happens (start of the buffer; end for the reverse vector)
    fn anchor(&self) -> usize;
    /// None = operation not available on this type
    fn apply(&mut self, op: &VOp, aux: &Aux<'_>) -> Option<Ret>;
    fn finish(self, op: &VOp) -> Option<Ret>;
}

/// placeholder for auxiliary operands
pub struct Aux<'x>(pub std::marker::PhantomData<&'x ()>);

/// payload of a panic raised by the harness' own oracle inside an adapter (not a panic of the subject)
pub struct OracleFail(pub String);

macro_rules! basic_ops {
    ($self:ident, $op:ident, $T:ty) => {
        match *$op {
            VOp::Pop => return Some(Ret { vals: $self.pop().map(|e| e.val()).into_iter().collect(), flag: None }),
            VOp::Clear => {
                $self.clear();
                return Some(Ret::none());
            }
            VOp::Truncate(k) => {
                $self.truncate(k);
                return Some(Ret::none());
            }
            VOp::Remove(i) => return Some(Ret::vals(vec![$self.remove(i).val()])),
            VOp::SwapRemove(i) => return Some(Ret::vals(vec![$self.swap_remove(i).val()])),
            _ => {}
        }
    };
}

macro_rules! pop_if_op {
    ($self:ident, $op:ident) => {
        if let VOp::PopIf(b) = *$op {
            return Some(Ret {
                vals: $self
                    .pop_if(|e| {
                        tick();
                        let _ = e.val();
                        b
                    })
                    .map(|e| e.val())
                    .into_iter()
                    .collect(),
                flag: None,
            });
        }
    };
}

macro_rules! grow_ops {
    ($self:ident, $op:ident, $T:ty, $aux:ident) => {
        match *$op {
            VOp::Push(v) => {
                $self.push(<$T>::new(v));
                return Some(Ret::none());
            }
            VOp::PushWith(v) => {
                $self.push_with(|| {
                    tick();
                    <$T>::new(v)
                });
                return Some(Ret::none());
            }
            VOp::Insert(i, v) => {
                $self.insert(i, <$T>::new(v));
                return Some(Ret::none());
            }
            VOp::PushMut(v) => {
                let r: &mut $T = $self.push_mut(<$T>::new(v));
                return Some(Ret::vals(vec![r.val()]));
            }
            VOp::PushMutWith(v) => {
                let r: &mut $T = $self.push_mut_with(|| {
                    tick();
                    <$T>::new(v)
                });
                return Some(Ret::vals(vec![r.val()]));
            }
            VOp::InsertMut(i, v) => {
                let r: &mut $T = $self.insert_mut(i, <$T>::new(v));
                return Some(Ret::vals(vec![r.val()]));
            }
            VOp::Resize(k, v) => {
                $self.resize(k, <$T>::new(v));
                return Some(Ret::none());
            }
            VOp::ResizeWith(k) => {
                $self.resize_with(k, || {
                    tick();
                    <$T>::new(77)
                });
                return Some(Ret::none());
            }
            VOp::ExtendClone(c) => {
                let src: Vec<$T> = (0..c as u32).map(|i| <$T>::new(500 + i)).collect();
                $self.extend_from_slice_clone(&src);
                return Some(Ret::none());
            }
            VOp::ExtendWithin(s, e) => {
                $self.extend_from_within_clone(crate::elem::bounds((s * 3 + e) % 5, s, e, $self.len()));
                return Some(Ret::none());
            }
            VOp::ExtendIter(c, over) => {
                $self.extend(TickIter::<$T>::new(600, c, over));
                return Some(Ret::none());
            }
            VOp::Append(src, c) => {
                let mk = || -> Vec<$T> { (0..c as u32).map(|i| <$T>::new(700 + i)).collect() };
                match src {
                    Src::Array => match c {
                        0 => $self.append([] as [$T; 0]),
                        1 => $self.append([<$T>::new(700)]),
                        2 => $self.append([<$T>::new(700), <$T>::new(701)]),
                        _ => $self.append(mk()),
                    },
                    Src::StdVec => $self.append(mk()),
                    Src::BoxedSlice => $self.append(mk().into_boxed_slice()),
                    Src::StdDrain => {
                        let mut v = mk();
                        $self.append(v.drain(..));
                    }
                    Src::BumpBoxSlice | Src::OtherBumpVec => {
                        let _ = &$aux;
                        let mut v = mk();
                        $self.append(&mut v);
                        if !v.is_empty() {
                            std::panic::panic_any(OracleFail("append(&mut Vec) left the source non-empty".into()));
                        }
                    }
                }
                return Some(Ret::none());
            }
            VOp::Reserve(k) => {
                $self.reserve(k);
                if $self.capacity() - $self.len() < k && !<$T>::IS_ZST {
                    std::panic::panic_any(OracleFail(format!("reserve({k}) left spare capacity {}", $self.capacity() - $self.len())));
                }
                return Some(Ret::none());
            }
            _ => {}
        }
    };
}

macro_rules! retain_ops {
    ($self:ident, $op:ident, $T:ty) => {
        match *$op {
            VOp::Retain(mask) => {
                let mut i = 0;
                $self.retain(|e| {
                    tick();
                    let _ = e.val();
                    let k = mask >> (i % 8) & 1 == 1;
                    i += 1;
                    k
                });
                return Some(Ret::none());
            }
            VOp::Drain(s, e, take) => {
                let d = $self.drain(crate::elem::bounds((s * 3 + e + 1) % 5, s, e, $self.len()));
                let (out, it) = take_from(d, take);
                match take {
                    Take::Forget => std::mem::forget(it),
                    Take::KeepRest | Take::KeepRestBack | Take::KeepRestNone => it.unwrap().keep_rest(),
                    _ => drop(it),
                }
                return Some(Ret::vals(out));
            }
            VOp::ExtractIf(mask, take) => {
                if matches!(take, Take::BackOne | Take::KeepRestBack | Take::KeepRestNone) {
                    return None;
                }
                let mut i = 0;
                let mut it = $self.extract_if(|e| {
                    tick();
                    let _ = e.val();
                    let k = mask >> (i % 8) & 1 == 1;
                    i += 1;
                    k
                });
                let mut out = Vec::new();
                match take {
                    Take::All => {
                        for v in it.by_ref() {
                            out.push(v.val());
                        }
                    }
                    Take::FrontOne | Take::Forget | Take::KeepRest => {
                        if let Some(v) = it.next() {
                            out.push(v.val());
                        }
                    }
                    _ => {}
                }
                if take == Take::Forget {
                    std::mem::forget(it);
                } else {
                    drop(it);
                }
                return Some(Ret::vals(out));
            }
            VOp::Dedup => {
                $self.dedup();
                return Some(Ret::none());
            }
            VOp::DedupByKey => {
                $self.dedup_by_key(|e| {
                    tick();
                    e.val() / 2
                });
                return Some(Ret::none());
            }
            VOp::DedupBy => {
                $self.dedup_by(|a, b| {
                    tick();
                    a.val().abs_diff(b.val()) <= 1
                });
                return Some(Ret::none());
            }
            _ => {}
        }
    };
}

macro_rules! into_iter_finish {
    ($self:ident, $op:ident) => {
        if let VOp::IntoIter(j, k) = *$op {
            let mut it = $self.into_iter();
            let mut out = Vec::new();
            for _ in 0..j {
                if let Some(v) = it.next() {
                    out.push(v.val());
                }
            }
            for _ in 0..k {
                if let Some(v) = it.next_back() {
                    out.push(v.val());
                }
            }
            drop(it);
            return Some(Ret::vals(out));
        }
    };
}

// ------------------------------------------------------------------------------------------------
impl<'b, T: ElemT + Clone + PartialEq, S: BumpAllocatorSettings + 'static> Subject<T> for BumpVec<T, &'b B<S>>
where
    SlabZ: bump_scope::BaseAllocator<S::GuaranteedAllocated>,
{
    const KIND: Kind = Kind::BumpVec;
    fn vals(&self) -> Vec<u32> {
        self.iter().map(|e| e.val()).collect()
    }
    fn len(&self) -> usize {
        BumpVec::len(self)
    }
    fn capacity(&self) -> usize {
        BumpVec::capacity(self)
    }
    fn anchor(&self) -> usize {
        self.as_ptr() as usize
    }
    fn apply(&mut self, op: &VOp, aux: &Aux<'_>) -> Option<Ret> {
        basic_ops!(self, op, T);
        pop_if_op!(self, op);
        grow_ops!(self, op, T, aux);
        retain_ops!(self, op, T);
        match *op {
            VOp::ReserveExact(k) => {
                self.reserve_exact(k);
                Some(Ret::none())
            }
            VOp::Splice(s, e, c, take) => {
                let sp = self.splice(crate::elem::bounds((s * 3 + e + 3) % 5, s, e, self.len()), TickIter::<T>::new(800, c, false));
                let (out, it) = take_from(sp, take);
                if take == Take::Forget {
                    // leaking a Splice may leak elements, and the vector is left in a valid but unspecified state
                    std::mem::forget(it);
                    return Some(Ret { vals: out, flag: Some(true) });
                }
                drop(it);
                Some(Ret::vals(out))
            }
            VOp::SpliceHint(s, e, c, lower) => {
                let sp = self.splice(s..e, TickIter::<T>::with_lower(800, c, lower));
                let (out, it) = take_from(sp, Take::All);
                drop(it);
                Some(Ret::vals(out))
            }
            VOp::SplitOff(s, e) => {
                let other = self.split_off(crate::elem::bounds((s * 3 + e + 2) % 5, s, e, self.len()));
                let r = Ret::vals(other.iter().map(|e| e.val()).collect());
                drop(other);
                Some(r)
            }
            VOp::ShrinkToFit => {
                self.shrink_to_fit();
                Some(Ret::none())
            }
            VOp::ShrinkTo(k) => {
                self.shrink_to(k);
                Some(Ret::none())
            }
            VOp::RoundTrip => {
                let bump: &'b B<S> = *self.allocator();
                let v = std::mem::replace(self, BumpVec::new_in(bump));
                let (fixed, a) = v.into_parts();
                *self = BumpVec::from_parts(fixed, a);
                Some(Ret::none())
            }
            VOp::Rebuild(how) => {
                let bump: &'b B<S> = *self.allocator();
                let old: Vec<T> = std::mem::replace(self, BumpVec::new_in(bump)).into_iter().collect();
                *self = match how {
                    0 => BumpVec::from_owned_slice_in(old, bump),
                    1 => BumpVec::from_owned_slice_in(old.into_boxed_slice(), bump),
                    2 => BumpVec::from_iter_exact_in(old.into_iter().map(|e| {
                        tick();
                        e
                    }), bump),
                    _ => BumpVec::from_iter_in(old.into_iter().map(|e| {
                        tick();
                        e
                    }), bump),
                };
                Some(Ret::none())
            }
            _ => None,
        }
    }
    fn finish(self, op: &VOp) -> Option<Ret> {
        into_iter_finish!(self, op);
        match *op {
            VOp::MapInPlace => {
                let v = self.map_in_place(|e| {
                    tick();
                    T::new(e.val() + 1000)
                });
                Some(Ret::vals(v.iter().map(|e| e.val()).collect()))
            }
            VOp::Map => {
                let v = self.map(|e| {
                    tick();
                    (e.val() + 2000) as u64
                });
                Some(Ret::vals(v.iter().map(|e| *e as u32).collect()))
            }
            VOp::TryMap => {
                let v = self
                    .try_map(|e| {
                        tick();
                        (e.val() + 2000) as u64
                    })
                    .unwrap_or_else(|_| std::panic::panic_any(OracleFail("try_map failed although memory is available".into())));
                Some(Ret::vals(v.iter().map(|e| *e as u32).collect()))
            }
            _ => None,
        }
    }
}

impl<'b, T: ElemT + Clone + PartialEq, S: BumpAllocatorSettings + 'static> Subject<T> for MutBumpVec<T, &'b mut B<S>>
where
    SlabZ: bump_scope::BaseAllocator<S::GuaranteedAllocated>,
{
    const KIND: Kind = Kind::MutVec;
    fn vals(&self) -> Vec<u32> {
        self.iter().map(|e| e.val()).collect()
    }
    fn len(&self) -> usize {
        MutBumpVec::len(self)
    }
    fn capacity(&self) -> usize {
        MutBumpVec::capacity(self)
    }
    fn anchor(&self) -> usize {
        self.as_ptr() as usize
    }
    fn apply(&mut self, op: &VOp, aux: &Aux<'_>) -> Option<Ret> {
        basic_ops!(self, op, T);
        pop_if_op!(self, op);
        grow_ops!(self, op, T, aux);
        retain_ops!(self, op, T);
        match *op {
            VOp::ReserveExact(k) => {
                self.reserve_exact(k);
                Some(Ret::none())
            }
            _ => None,
        }
    }
    fn finish(self, op: &VOp) -> Option<Ret> {
        into_iter_finish!(self, op);
        match *op {
            VOp::MapInPlace => {
                let v = self.map_in_place(|e| {
                    tick();
                    T::new(e.val() + 1000)
                });
                Some(Ret::vals(v.iter().map(|e| e.val()).collect()))
            }
            _ => None,
        }
    }
}

impl<'b, T: ElemT + Clone + PartialEq, S: BumpAllocatorSettings + 'static> Subject<T> for MutBumpVecRev<T, &'b mut B<S>>
where
    SlabZ: bump_scope::BaseAllocator<S::GuaranteedAllocated>,
{
    const KIND: Kind = Kind::MutVecRev;
    fn vals(&self) -> Vec<u32> {
        self.iter().map(|e| e.val()).collect()
    }
    fn len(&self) -> usize {
        MutBumpVecRev::len(self)
    }
    fn capacity(&self) -> usize {
        MutBumpVecRev::capacity(self)
    }
    fn anchor(&self) -> usize {
        self.as_ptr() as usize + MutBumpVecRev::len(self) * size_of::<T>()
    }
    fn apply(&mut self, op: &VOp, aux: &Aux<'_>) -> Option<Ret> {
        basic_ops!(self, op, T);
        pop_if_op!(self, op);
        grow_ops!(self, op, T, aux);
        match *op {
            VOp::ReserveExact(k) => {
                self.reserve_exact(k);
                Some(Ret::none())
            }
            _ => None,
        }
    }
    fn finish(self, op: &VOp) -> Option<Ret> {
        into_iter_finish!(self, op);
        None
    }
}

impl<'b, T: ElemT + Clone + PartialEq> Subject<T> for FixedBumpVec<'b, T> {
    const KIND: Kind = Kind::Fixed;
    fn vals(&self) -> Vec<u32> {
        self.iter().map(|e| e.val()).collect()
    }
    fn len(&self) -> usize {
        FixedBumpVec::len(self)
    }
    fn capacity(&self) -> usize {
        FixedBumpVec::capacity(self)
    }
    fn anchor(&self) -> usize {
        self.as_ptr() as usize
    }
    fn apply(&mut self, op: &VOp, aux: &Aux<'_>) -> Option<Ret> {
        basic_ops!(self, op, T);
        pop_if_op!(self, op);
        grow_ops!(self, op, T, aux);
        retain_ops!(self, op, T);
        match *op {
            VOp::SplitOff(s, e) => {
                let other = self.split_off(crate::elem::bounds((s * 3 + e + 2) % 5, s, e, self.len()));
                let r = Ret::vals(other.iter().map(|e| e.val()).collect());
                drop(other);
                Some(r)
            }
            _ => None,
        }
    }
    fn finish(self, op: &VOp) -> Option<Ret> {
        into_iter_finish!(self, op);
        match *op {
            VOp::MapInPlace => {
                let v = self.map_in_place(|e| {
                    tick();
                    T::new(e.val() + 1000)
                });
                Some(Ret::vals(v.iter().map(|e| e.val()).collect()))
            }
            _ => None,
        }
    }
}

impl<'b, T: ElemT + Clone + PartialEq> Subject<T> for BumpBox<'b, [T]> {
    const KIND: Kind = Kind::Boxed;
    fn vals(&self) -> Vec<u32> {
        self.iter().map(|e| e.val()).collect()
    }
    fn len(&self) -> usize {
        <[T]>::len(self)
    }
    fn capacity(&self) -> usize {
        <[T]>::len(self)
    }
    fn anchor(&self) -> usize {
        self.as_ptr() as usize
    }
    fn apply(&mut self, op: &VOp, _aux: &Aux<'_>) -> Option<Ret> {
        basic_ops!(self, op, T);
        retain_ops!(self, op, T);
        match *op {
            VOp::SplitOff(s, e) => {
                let other = self.split_off(crate::elem::bounds((s * 3 + e + 2) % 5, s, e, self.len()));
                let r = Ret::vals(other.iter().map(|e| e.val()).collect());
                drop(other);
                Some(r)
            }
            _ => None,
        }
    }
    fn finish(self, op: &VOp) -> Option<Ret> {
        into_iter_finish!(self, op);
        match *op {
            VOp::MapInPlace => {
                let v = self.map_in_place(|e| {
                    tick();
                    T::new(e.val() + 1000)
                });
                Some(Ret::vals(v.iter().map(|e| e.val()).collect()))
            }
            _ => None,
        }
    }
}
