//! C06, how a `BumpBox` ends: "dropped exactly once - when its owner is dropped ... or the value is removed and later
//! dropped by the caller - and never a second time; it is skipped only through the explicit leak / forget routes".
//! Closed product: box shape (one value, slice of n) x sized / zero-sized elements x ending x 4 arena configurations.
//! Endings that hand the value(s) on (drop, into_inner, into_raw + from_raw, into_boxed_slice) must leave nothing alive
//! once everything is gone; the leak routes (`BumpBox::leak`, `mem::forget`) must leave exactly the boxed values
//! alive, readable until the arena goes away, and nothing may ever be dropped twice.

use crate::elem::{self, El, ElemT, Z};
use crate::{CFGS, with_cfg};
use bump_scope::settings::{BumpAllocatorSettings, BumpSettings};
use bump_scope::{BaseAllocator, Bump, BumpBox};
use std::panic::{AssertUnwindSafe, catch_unwind};
use std::time::Instant;
use vcore::json::J;
use vcore::slab::{self, SlabCfg, SlabZ};

type B<S> = Bump<SlabZ, S>;

pub const ENDINGS: [&str; 8] = ["drop", "into_inner", "leak", "forget", "raw_roundtrip", "into_boxed_slice", "leak_then_read_after_more_allocations", "into_inner_then_forget"];

#[derive(Clone, Debug)]
pub struct EndCase {
    pub ci: usize,
    pub zst: bool,
    /// 0 = a single value, n >= 1 = a slice of n - 1 values
    pub shape: usize,
    pub ending: &'static str,
}

impl EndCase {
    pub fn text(&self) -> String {
        format!("boxend:cfg={};zst={};shape={};ending={}", self.ci, self.zst as u8, self.shape, self.ending)
    }
}

/// returns the number of values that must stay alive for ever (leaked on purpose), or None if the case does not apply
fn run<S, T>(c: &EndCase) -> Result<Option<usize>, String>
where
    S: BumpAllocatorSettings + 'static,
    T: ElemT + Clone,
    SlabZ: BaseAllocator<S::GuaranteedAllocated>,
{
    let bump: B<S> = Bump::new_in(SlabZ);
    let _ = bump.alloc(0u8);
    let z = |x: u32| if T::IS_ZST { 0 } else { x };
    let mut leaked = 0usize;
    if c.shape == 0 {
        let b: BumpBox<T> = bump.alloc(T::new(9));
        match c.ending {
            "drop" => drop(b),
            "into_inner" => {
                let v = b.into_inner();
                if v.val() != z(9) {
                    return Err("into_inner returned a different value".into());
                }
                drop(v);
            }
            "into_inner_then_forget" => {
                let v = b.into_inner();
                std::mem::forget(v);
                leaked = 1;
            }
            "leak" | "leak_then_read_after_more_allocations" => {
                let r: &mut T = BumpBox::leak(b);
                if c.ending != "leak" {
                    for i in 0..40u32 {
                        let _ = bump.alloc_slice_fill(7, i as u8);
                    }
                }
                if r.val() != z(9) {
                    return Err("the leaked value reads back differently".into());
                }
                leaked = 1;
            }
            "forget" => {
                std::mem::forget(b);
                leaked = 1;
            }
            "raw_roundtrip" => {
                let p = b.into_raw();
                let b2: BumpBox<T> = unsafe { BumpBox::from_raw(p) };
                if b2.val() != z(9) {
                    return Err("from_raw(into_raw(b)) holds a different value".into());
                }
                drop(b2);
            }
            "into_boxed_slice" => {
                let s: BumpBox<[T]> = b.into_boxed_slice();
                if s.len() != 1 || s[0].val() != z(9) {
                    return Err("into_boxed_slice of a single value is not a slice of that value".into());
                }
                drop(s);
            }
            _ => return Ok(None),
        }
    } else {
        let n = c.shape - 1;
        let src: Vec<T> = (0..n as u32).map(|i| T::new(100 + i)).collect();
        let b: BumpBox<[T]> = bump.alloc_slice_clone(&src);
        drop(src);
        let want: Vec<u32> = (0..n as u32).map(|i| z(100 + i)).collect();
        match c.ending {
            "drop" => drop(b),
            "leak" | "leak_then_read_after_more_allocations" => {
                let r: &mut [T] = BumpBox::leak(b);
                if c.ending != "leak" {
                    for i in 0..40u32 {
                        let _ = bump.alloc_slice_fill(7, i as u8);
                    }
                }
                if r.iter().map(|e| e.val()).collect::<Vec<_>>() != want {
                    return Err("the leaked slice reads back differently".into());
                }
                leaked = n;
            }
            "forget" => {
                std::mem::forget(b);
                leaked = n;
            }
            "raw_roundtrip" => {
                let p = b.into_raw();
                let b2: BumpBox<[T]> = unsafe { BumpBox::from_raw(p) };
                if b2.iter().map(|e| e.val()).collect::<Vec<_>>() != want {
                    return Err("from_raw(into_raw(b)) holds different values".into());
                }
                drop(b2);
            }
            _ => return Ok(None),
        }
    }
    drop(bump);
    Ok(Some(leaked))
}

pub fn case(c: &EndCase) -> Result<bool, String> {
    fn fmt(p: *const ()) -> String {
        format!("replaycase=<<{}>>", unsafe { &*(p as *const EndCase) }.text())
    }
    vcore::crash::with_inflight(c, fmt, || {
        slab::select(0);
        slab::reset(0, SlabCfg::default());
        elem::reset();
        elem::arm(-1, false);
        let _ = vcore::crash::take_last_panic();
        let r = catch_unwind(AssertUnwindSafe(|| with_cfg!(c.ci, |S| if c.zst { run::<S, Z>(c) } else { run::<S, El>(c) })));
        let leaked = match r {
            Ok(r) => r?,
            Err(_) => return Err(format!("unexpected panic: {}", vcore::crash::take_last_panic().unwrap_or_default())),
        };
        let Some(leaked) = leaked else { return Ok(false) };
        let cen = elem::census();
        if let Some(f) = elem::flags().first() {
            return Err(f.clone());
        }
        if cen.dropped_more > 0 {
            return Err(format!("{} value(s) were dropped more than once", cen.dropped_more));
        }
        let alive = if c.zst { cen.z_live } else { cen.alive as i64 };
        if alive != leaked as i64 {
            return Err(format!("{} ends with {alive} value(s) never dropped, expected {leaked}", c.ending));
        }
        let (errs, guards) = slab::with_slab(0, |s| (s.errors.first().cloned(), s.check_guards()));
        if let Some(e) = errs {
            return Err(format!("base allocator protocol: {e}"));
        }
        if let Err(e) = guards {
            return Err(format!("memory outside granted blocks written: {e}"));
        }
        Ok(true)
    })
}

pub fn explore(thorough: bool) -> (J, Vec<J>) {
    let t0 = Instant::now();
    let max_shape = if thorough { 9 } else { 5 };
    let mut viols = Vec::new();
    let (mut n, mut nt) = (0u64, 0u64);
    for ci in 0..CFGS.len() {
        for zst in [false, true] {
            for shape in 0..=max_shape {
                for ending in ENDINGS {
                    let c = EndCase { ci, zst, shape, ending };
                    n += 1;
                    match case(&c) {
                        Ok(true) => nt += 1,
                        Ok(false) => {}
                        Err(m) => {
                            if viols.len() < 8 {
                                viols.push(J::obj().set("prop", "C06").set("cfg", CFGS[ci].0).set("params", format!("{} elem, shape {}", if zst { "ZST" } else { "sized" }, if shape == 0 { "single value".to_string() } else { format!("slice of {}", shape - 1) })).set("history", ending).set("msg", m).set("replay_args", vec!["--case".to_string(), c.text()]));
                            }
                        }
                    }
                }
            }
        }
    }
    let cov = J::obj()
        .set("states", n)
        .set("transitions", n)
        .set("traces_validated_against_impl", n)
        .set("evaluations", n)
        .set("distinct_nontrivial", nt)
        .set("rule", "how a BumpBox ends: {BumpBox<T>, BumpBox<[T]> of 0..N values} x {sized, zero-sized} drop-counting elements x {drop, into_inner (+ drop / + forget by the caller), BumpBox::leak (read back at once / after 40 more allocations), mem::forget, into_raw + from_raw + drop, into_boxed_slice + drop} x 4 arena configurations; after the arena is gone exactly the deliberately leaked values are still alive, nothing was dropped twice, leaked values read back unchanged; non-trivial = applicable cases")
        .set("samples", vec![EndCase { ci: 0, zst: false, shape: 0, ending: "into_inner" }.text(), EndCase { ci: 1, zst: false, shape: 4, ending: "leak" }.text()])
        .set("exhaustive", true);
    let space = J::obj()
        .set("property_id", "C06")
        .set("tier", if thorough { "thorough" } else { "quick" })
        .set("seed", 0)
        .set("level", "model_checking")
        .set("space", "box-endings")
        .set("coverage", cov)
        .set("wall_s", t0.elapsed().as_secs_f64())
        .set("violations", viols.len())
        .set("floor", 100)
        .set("floor_ok", nt >= 100 || !viols.is_empty());
    (space, viols)
}

pub fn replay(text: &str) -> Option<String> {
    let rest = text.strip_prefix("boxend:")?;
    let mut m = std::collections::HashMap::new();
    for item in rest.split(';') {
        if let Some((k, v)) = item.split_once('=') {
            m.insert(k.to_string(), v.to_string());
        }
    }
    let ending = ENDINGS.into_iter().find(|e| *e == m["ending"])?;
    let c = EndCase { ci: m["cfg"].parse().ok()?, zst: m["zst"] == "1", shape: m["shape"].parse().ok()?, ending };
    case(&c).err()
}
