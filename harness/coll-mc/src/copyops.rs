//! C08, the `_copy` twins: `extend_from_slice_copy` and `extend_from_within_copy` are separate code paths from the
//! `_clone` forms (the generic differential driver uses element types that are not `Copy`). Closed product: vector
//! kind x initial length x capacity state x operation (every range), `u32` elements, compared with `std::vec::Vec`
//! (mirrored for `MutBumpVecRev`: new elements are prepended).

use crate::{CFGS, with_cfg};
use bump_scope::settings::{BumpAllocatorSettings, BumpSettings};
use bump_scope::{BaseAllocator, Bump, BumpVec, FixedBumpVec, MutBumpVec, MutBumpVecRev};
use std::panic::{AssertUnwindSafe, catch_unwind};
use std::time::Instant;
use vcore::json::J;
use vcore::slab::{self, SlabCfg, SlabZ};

type B<S> = Bump<SlabZ, S>;

#[derive(Clone, Copy, Debug, PartialEq, Eq)]
pub enum CKind {
    Fixed,
    Vec,
    MutVec,
    MutVecRev,
}
const KINDS: [CKind; 4] = [CKind::Fixed, CKind::Vec, CKind::MutVec, CKind::MutVecRev];

#[derive(Clone, Copy, Debug, PartialEq, Eq)]
pub enum COp {
    /// extend_from_slice_copy with k fresh values
    Slice(usize),
    /// extend_from_within_copy(s..e)
    Within(usize, usize),
}

#[derive(Clone, Copy, Debug)]
pub struct CopyCase {
    pub ci: usize,
    pub kind: CKind,
    pub n: usize,
    /// 0 = capacity as created, 1 = reserve(1) first, 2 = fill up the spare capacity first (the operation has to grow)
    pub prep: usize,
    pub op: COp,
}

impl CopyCase {
    pub fn text(&self) -> String {
        format!("copyops:cfg={};kind={:?};n={};prep={};op={:?}", self.ci, self.kind, self.n, self.prep, self.op)
    }
}

fn run<S>(c: &CopyCase) -> Result<bool, String>
where
    S: BumpAllocatorSettings + 'static,
    SlabZ: BaseAllocator<S::GuaranteedAllocated>,
{
    let mut bump: B<S> = Bump::new_in(SlabZ);
    let _ = bump.alloc(0u8);
    let rev = c.kind == CKind::MutVecRev;
    let mut model: Vec<u32> = Vec::new();
    macro_rules! scenario {
        ($v:ident, $fixed:expr) => {{
            for i in 0..c.n as u32 {
                $v.push(100 + i);
                if rev { model.insert(0, 100 + i) } else { model.push(100 + i) }
            }
            match c.prep {
                1 if !$fixed => $v.reserve(1),
                2 => {
                    let mut k = 0u32;
                    while $v.len() < $v.capacity() && k < 4096 {
                        $v.push(900 + k);
                        if rev { model.insert(0, 900 + k) } else { model.push(900 + k) }
                        k += 1;
                    }
                }
                _ => {}
            }
            let before = model.clone();
            let len = model.len();
            // the model
            let expect: Result<Vec<u32>, ()> = match c.op {
                COp::Slice(k) => Ok((0..k as u32).map(|i| 500 + i).collect()),
                COp::Within(s, e) => {
                    if s <= e && e <= len {
                        Ok(model[s..e].to_vec())
                    } else {
                        Err(())
                    }
                }
            };
            let room = $v.capacity() - $v.len();
            let r = catch_unwind(AssertUnwindSafe(|| match c.op {
                COp::Slice(k) => {
                    let src: Vec<u32> = (0..k as u32).map(|i| 500 + i).collect();
                    $v.extend_from_slice_copy(&src)
                }
                COp::Within(s, e) => $v.extend_from_within_copy(s..e),
            }));
            let got: Vec<u32> = $v.iter().copied().collect();
            match (expect, r) {
                (Ok(add), Ok(())) => {
                    if $fixed && add.len() > room {
                        return Err(format!("{:?} on a fixed vector with room for {room} accepted {} elements", c.op, add.len()));
                    }
                    if rev {
                        model.splice(0..0, add);
                    } else {
                        model.extend(add);
                    }
                    if got != model {
                        return Err(format!("{:?}: contents {:?}, std gives {:?}", c.op, got, model));
                    }
                }
                (Ok(add), Err(_)) => {
                    let _ = vcore::crash::take_last_panic();
                    if !($fixed && add.len() > room) {
                        return Err(format!("{:?} panicked but std does not", c.op));
                    }
                    if got != before {
                        return Err(format!("{:?} on a full fixed vector changed the contents to {:?}", c.op, got));
                    }
                    return Ok(false);
                }
                (Err(()), Ok(())) => return Err(format!("{:?}: std panics on this range but the subject returned normally", c.op)),
                (Err(()), Err(_)) => {
                    let _ = vcore::crash::take_last_panic();
                    if got != before {
                        return Err(format!("{:?} panicked like std but changed the contents to {:?}", c.op, got));
                    }
                    return Ok(false);
                }
            }
            // keeps working
            if $v.len() < $v.capacity() || !$fixed {
                $v.push(7777);
                if rev { model.insert(0, 7777) } else { model.push(7777) }
            }
            let got: Vec<u32> = $v.iter().copied().collect();
            if got != model {
                return Err(format!("after {:?} and one more push: contents {:?}, std gives {:?}", c.op, got, model));
            }
        }};
    }
    match c.kind {
        CKind::Fixed => {
            let mut v: FixedBumpVec<u32> = FixedBumpVec::with_capacity_in(c.n + 3, &bump);
            scenario!(v, true);
        }
        CKind::Vec => {
            let mut v: BumpVec<u32, &B<S>> = BumpVec::with_capacity_in(c.n, &bump);
            scenario!(v, false);
        }
        CKind::MutVec => {
            let mut v: MutBumpVec<u32, &mut B<S>> = MutBumpVec::new_in(&mut bump);
            scenario!(v, false);
        }
        CKind::MutVecRev => {
            let mut v: MutBumpVecRev<u32, &mut B<S>> = MutBumpVecRev::new_in(&mut bump);
            scenario!(v, false);
        }
    }
    Ok(true)
}

pub fn case(c: &CopyCase) -> Result<bool, String> {
    fn fmt(p: *const ()) -> String {
        format!("replaycase=<<{}>>", unsafe { &*(p as *const CopyCase) }.text())
    }
    vcore::crash::with_inflight(c, fmt, || {
        slab::select(0);
        slab::reset(0, SlabCfg::default());
        let _ = vcore::crash::take_last_panic();
        let r = catch_unwind(AssertUnwindSafe(|| with_cfg!(c.ci, |S| run::<S>(c))));
        let r = match r {
            Ok(r) => r,
            Err(_) => Err(format!("unexpected panic: {}", vcore::crash::take_last_panic().unwrap_or_default())),
        };
        let ok = r?;
        let (errs, guards) = slab::with_slab(0, |s| (s.errors.first().cloned(), s.check_guards()));
        if let Some(e) = errs {
            return Err(format!("base allocator protocol: {e}"));
        }
        if let Err(e) = guards {
            return Err(format!("memory outside granted blocks written: {e}"));
        }
        Ok(ok)
    })
}

pub fn explore(thorough: bool) -> (J, Vec<J>) {
    let t0 = Instant::now();
    let max_n = if thorough { 9 } else { 5 };
    let mut viols = Vec::new();
    let (mut n, mut nt) = (0u64, 0u64);
    'outer: for ci in 0..CFGS.len() {
        for kind in KINDS {
            for len in 0..=max_n {
                for prep in 0..3 {
                    let mut ops = vec![COp::Slice(0), COp::Slice(1), COp::Slice(3), COp::Slice(40)];
                    // ranges over the length the vector has after the preparation is not known here: use indices up to
                    // len + 4 (invalid ones must panic like std)
                    for s in 0..=len + 4 {
                        for e in 0..=len + 4 {
                            if e + 1 < s {
                                continue;
                            }
                            ops.push(COp::Within(s, e));
                        }
                    }
                    for op in ops {
                        let c = CopyCase { ci, kind, n: len, prep, op };
                        n += 1;
                        match case(&c) {
                            Ok(true) => nt += 1,
                            Ok(false) => {}
                            Err(m) => {
                                viols.push(J::obj().set("prop", "C08").set("cfg", CFGS[ci].0).set("params", format!("{kind:?} n={len} prep={prep}")).set("history", format!("{op:?}")).set("msg", m).set("replay_args", vec!["--case".to_string(), c.text()]));
                                if viols.len() >= 8 {
                                    break 'outer;
                                }
                            }
                        }
                    }
                }
            }
        }
    }
    let cov = J::obj()
        .set("states", n)
        .set("transitions", n)
        .set("traces_validated_against_impl", n)
        .set("evaluations", n)
        .set("distinct_nontrivial", nt)
        .set("rule", "the _copy twins: {FixedBumpVec, BumpVec, MutBumpVec, MutBumpVecRev} of u32 x initial length 0..N x capacity state {as created, reserve(1), spare capacity used up so that the operation has to grow into another chunk} x {extend_from_slice_copy of 0/1/3/40 values, extend_from_within_copy of every range incl. invalid ones} x 4 arena configurations, compared with std Vec (prepending for the reverse vector; panics on the same ranges; a fixed vector refuses what does not fit and stays unchanged), followed by one more push; non-trivial = operations that succeeded")
        .set("samples", vec![CopyCase { ci: 0, kind: CKind::MutVecRev, n: 3, prep: 2, op: COp::Within(0, 3) }.text()])
        .set("exhaustive", true);
    let space = J::obj()
        .set("property_id", "C08")
        .set("tier", if thorough { "thorough" } else { "quick" })
        .set("seed", 0)
        .set("level", "model_checking")
        .set("space", "copy-twins")
        .set("coverage", cov)
        .set("wall_s", t0.elapsed().as_secs_f64())
        .set("violations", viols.len())
        .set("floor", 1000)
        .set("floor_ok", nt >= 1000 || !viols.is_empty());
    (space, viols)
}

pub fn replay(text: &str) -> Option<String> {
    let rest = text.strip_prefix("copyops:")?;
    let mut m = std::collections::HashMap::new();
    for item in rest.split(';') {
        if let Some((k, v)) = item.split_once('=') {
            m.insert(k.to_string(), v.to_string());
        }
    }
    let nums: Vec<usize> = m["op"].split(|ch: char| !ch.is_ascii_digit()).filter(|s| !s.is_empty()).map(|s| s.parse().unwrap()).collect();
    let op = if m["op"].starts_with("Slice") { COp::Slice(*nums.first()?) } else { COp::Within(*nums.first()?, *nums.get(1)?) };
    let kind = KINDS.into_iter().find(|k| format!("{k:?}") == m["kind"])?;
    let c = CopyCase { ci: m["cfg"].parse().ok()?, kind, n: m["n"].parse().ok()?, prep: m["prep"].parse().ok()?, op };
    case(&c).err()
}

// ---- FixedBumpVec: panic or Err? --------------------------------------------------------------------------------
// A fixed vector has two ways to refuse an insertion: the index is out of bounds (a caller error: panics like
// `Vec::insert`, also in the try_ twin) or there is no room (Err from the try_ twin, a panic from the panicking one).
// The differential driver cannot tell these apart for the panicking twin (both panic), so the try_ twins get a closed
// product of their own: length x free slots x operation x index.

pub const FIXED_OPS: [&str; 5] = ["try_insert", "try_insert_mut", "try_push", "try_push_mut", "try_push_with"];

pub fn fixed_text(ci: usize, n: usize, room: usize, op: &str, idx: usize) -> String {
    format!("copyops:fixedtry=1;cfg={ci};n={n};room={room};op={op};idx={idx}")
}

fn fixed_run<S>(n: usize, room: usize, op: &str, idx: usize) -> Result<bool, String>
where
    S: BumpAllocatorSettings + 'static,
    SlabZ: BaseAllocator<S::GuaranteedAllocated>,
{
    let bump: B<S> = Bump::new_in(SlabZ);
    let _ = bump.alloc(0u8);
    let mut v: FixedBumpVec<u32> = FixedBumpVec::with_capacity_in(n + room, &bump);
    // `with_capacity_in` may grant more than asked for: fill up to the wanted number of free slots
    for i in 0..n as u32 {
        v.push(100 + i);
    }
    while v.capacity() - v.len() > room {
        v.push(0);
    }
    let before: Vec<u32> = v.iter().copied().collect();
    let len = before.len();
    let is_insert = op.starts_with("try_insert");
    if !is_insert && idx != 0 {
        return Ok(false);
    }
    let r = catch_unwind(AssertUnwindSafe(|| -> bool {
        match op {
            "try_insert" => v.try_insert(idx, 7).is_ok(),
            "try_insert_mut" => v.try_insert_mut(idx, 7).is_ok(),
            "try_push" => v.try_push(7).is_ok(),
            "try_push_mut" => v.try_push_mut(7).is_ok(),
            _ => v.try_push_with(|| 7).is_ok(),
        }
    }));
    let got: Vec<u32> = v.iter().copied().collect();
    let out_of_bounds = is_insert && idx > len;
    match r {
        Err(_) => {
            let m = vcore::crash::take_last_panic().unwrap_or_default();
            if !out_of_bounds {
                return Err(format!("{op}({idx}) on a fixed vector of {len} elements with {room} free slot(s) panicked: {m}"));
            }
            if got != before {
                return Err(format!("{op}({idx}) panicked and changed the contents to {got:?}"));
            }
        }
        Ok(ok) => {
            if out_of_bounds {
                return Err(format!("{op}({idx}) on a fixed vector of {len} elements returned {} instead of panicking like Vec::insert (index out of bounds)", if ok { "Ok" } else { "Err" }));
            }
            let mut want = before.clone();
            if room > 0 {
                if is_insert { want.insert(idx, 7) } else { want.push(7) }
            }
            if ok != (room > 0) {
                return Err(format!("{op}({idx}) with {room} free slot(s) returned {}", if ok { "Ok" } else { "Err" }));
            }
            if got != want {
                return Err(format!("{op}({idx}): contents {got:?}, expected {want:?}"));
            }
        }
    }
    Ok(true)
}

pub fn fixed_case(ci: usize, n: usize, room: usize, op: &str, idx: usize) -> Result<bool, String> {
    let text = fixed_text(ci, n, room, op, idx);
    vcore::crash::with_inflight(&text, |p| format!("replaycase=<<{}>>", unsafe { &*(p as *const String) }), || {
        slab::select(0);
        slab::reset(0, SlabCfg::default());
        let _ = vcore::crash::take_last_panic();
        match catch_unwind(AssertUnwindSafe(|| with_cfg!(ci, |S| fixed_run::<S>(n, room, op, idx)))) {
            Ok(r) => r,
            Err(_) => Err(format!("unexpected panic: {}", vcore::crash::take_last_panic().unwrap_or_default())),
        }
    })
}

pub fn explore_fixed(thorough: bool) -> (J, Vec<J>) {
    let t0 = Instant::now();
    let max_n = if thorough { 8 } else { 4 };
    let mut viols = Vec::new();
    let (mut n_cases, mut nt) = (0u64, 0u64);
    for ci in 0..CFGS.len() {
        for n in 0..=max_n {
            for room in 0..=2usize {
                for op in FIXED_OPS {
                    for idx in 0..=n + 4 {
                        n_cases += 1;
                        match fixed_case(ci, n, room, op, idx) {
                            Ok(true) => nt += 1,
                            Ok(false) => {}
                            Err(m) => {
                                if viols.len() < 8 {
                                    viols.push(J::obj().set("prop", "C08").set("cfg", CFGS[ci].0).set("params", format!("FixedBumpVec n={n} free={room}")).set("history", format!("{op}({idx})")).set("msg", m).set("replay_args", vec!["--case".to_string(), fixed_text(ci, n, room, op, idx)]));
                                }
                            }
                        }
                    }
                }
            }
        }
    }
    let cov = J::obj()
        .set("states", n_cases)
        .set("transitions", n_cases)
        .set("traces_validated_against_impl", n_cases)
        .set("evaluations", n_cases)
        .set("distinct_nontrivial", nt)
        .set("rule", "try_ twins of a fixed vector: FixedBumpVec<u32> of 0..N elements x 0..2 free slots x {try_insert, try_insert_mut at every index up to len + 4, try_push, try_push_mut, try_push_with} x 4 arena configurations; an index beyond the length panics like Vec::insert whether or not there is room, a full vector returns Err and stays unchanged, otherwise Ok with std's contents; non-trivial = applicable cases")
        .set("samples", vec![fixed_text(0, 3, 0, "try_insert", 4)])
        .set("exhaustive", true);
    let space = J::obj()
        .set("property_id", "C08")
        .set("tier", if thorough { "thorough" } else { "quick" })
        .set("seed", 0)
        .set("level", "model_checking")
        .set("space", "fixed-vector-try-twins")
        .set("coverage", cov)
        .set("wall_s", t0.elapsed().as_secs_f64())
        .set("violations", viols.len())
        .set("floor", 300)
        .set("floor_ok", nt >= 300 || !viols.is_empty());
    (space, viols)
}

pub fn replay_fixed(text: &str) -> Option<String> {
    let rest = text.strip_prefix("copyops:")?;
    let mut m = std::collections::HashMap::new();
    for item in rest.split(';') {
        if let Some((k, v)) = item.split_once('=') {
            m.insert(k.to_string(), v.to_string());
        }
    }
    let op = FIXED_OPS.into_iter().find(|o| *o == m["op"])?;
    fixed_case(m["cfg"].parse().ok()?, m["n"].parse().ok()?, m["room"].parse().ok()?, op, m["idx"].parse().ok()?).err()
}
