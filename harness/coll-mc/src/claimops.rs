//! C07, "a claimed arena is reported by an unwinding panic ... afterwards nothing is leaked or double-dropped, and a
//! collection on which a single push/insert/reserve/extend/append/resize failed still has its previous length and
//! contents": every single operation of the C06 alphabet on a *full* `BumpVec` while the arena it borrows is claimed.
//! Operations that need memory unwind with "bump allocator is claimed" from wherever they are (e.g. inside
//! `Splice::drop`); the drop accounting afterwards must still be exact.

use crate::elem::{self, El, ElemT, Z};
use crate::vecs::{Aux, Kind, Subject, Take, VOp, model_apply};
use crate::{CFGS, ops_for, with_cfg};
use bump_scope::settings::{BumpAllocatorSettings, BumpSettings};
use bump_scope::{BaseAllocator, Bump, BumpVec};
use std::panic::{AssertUnwindSafe, catch_unwind};
use std::time::Instant;
use vcore::json::J;
use vcore::slab::{self, SlabCfg, SlabZ};

#[derive(Clone, Debug)]
pub struct ClaimCase {
    pub ci: usize,
    pub zst: bool,
    pub n: usize,
    pub op: VOp,
}

impl ClaimCase {
    pub fn text(&self) -> String {
        format!("claimops:cfg={};zst={};n={};op={:?}", self.ci, self.zst as u8, self.n, self.op)
    }
}

fn run<S, T>(c: &ClaimCase) -> Result<bool, String>
where
    S: BumpAllocatorSettings + 'static,
    T: ElemT + Clone + PartialEq,
    SlabZ: BaseAllocator<S::GuaranteedAllocated>,
{
    let bump: Bump<SlabZ, S> = Bump::new_in(SlabZ);
    let _ = bump.alloc(0u8);
    let mut v: BumpVec<T, &Bump<SlabZ, S>> = BumpVec::from_iter_in((1..=c.n as u32).map(T::new), &bump);
    v.shrink_to_fit();
    let z = |x: u32| if T::IS_ZST { 0 } else { x };
    let mut model: Vec<u32> = (1..=c.n as u32).map(z).collect();
    let before = model.clone();
    let model_r = catch_unwind(AssertUnwindSafe(|| model_apply(&mut model, Kind::BumpVec, &c.op, usize::MAX / 2)));
    if model_r.is_err() {
        let _ = vcore::crash::take_last_panic();
    }
    if matches!(model_r, Ok(None)) {
        return Ok(false);
    }
    let aux = Aux(std::marker::PhantomData);
    let guard = bump.claim();
    let finisher = c.op.is_finisher();
    let r = catch_unwind(AssertUnwindSafe(|| {
        if finisher {
            let _ = v.finish(&c.op);
            None
        } else {
            let _ = v.apply(&c.op, &aux);
            Some(v)
        }
    }));
    drop(guard);
    let mut refused = false;
    match r {
        Ok(Some(v)) => {
            let got: Vec<u32> = v.iter().map(|e| e.val()).collect();
            if model_r.is_ok() {
                let want: Vec<u32> = if T::IS_ZST { model.iter().map(|_| 0).collect() } else { model.clone() };
                if got != want && !matches!(c.op, VOp::Drain(_, _, Take::Forget) | VOp::Splice(_, _, _, Take::Forget) | VOp::ExtractIf(_, Take::Forget)) {
                    return Err(format!("{:?} completed while the arena was claimed but left {:?}, expected {:?}", c.op, got, want));
                }
            }
            drop(v);
        }
        Ok(None) => {}
        Err(_) => {
            // the vector was moved into the closure: it has been dropped during unwinding
            let msg = vcore::crash::take_last_panic().unwrap_or_default();
            if model_r.is_ok() && !msg.contains("claimed") {
                return Err(format!("{:?} on a vector of a claimed arena panicked with {msg:?}, expected \"bump allocator is claimed\"", c.op));
            }
            refused = msg.contains("claimed");
        }
    }
    let _ = before;
    Ok(refused)
}

pub fn case(c: &ClaimCase) -> Result<bool, String> {
    fn fmt(p: *const ()) -> String {
        format!("replaycase=<<{}>>", unsafe { &*(p as *const ClaimCase) }.text())
    }
    vcore::crash::with_inflight(c, fmt, || {
        slab::select(0);
        slab::reset(0, SlabCfg::default());
        elem::reset();
        let _ = vcore::crash::take_last_panic();
        let r = catch_unwind(AssertUnwindSafe(|| with_cfg!(c.ci, |S| if c.zst { run::<S, Z>(c) } else { run::<S, El>(c) })));
        let r = match r {
            Ok(r) => r,
            Err(_) => Err(format!("unexpected panic: {}", vcore::crash::take_last_panic().unwrap_or_default())),
        };
        let refused = r?;
        let leak_ok = matches!(c.op, VOp::Drain(_, _, Take::Forget) | VOp::Splice(_, _, _, Take::Forget) | VOp::ExtractIf(_, Take::Forget));
        if let Some(f) = elem::flags().first() {
            return Err(f.clone());
        }
        let cen = elem::census();
        if cen.dropped_more > 0 {
            return Err(format!("{} value(s) were dropped more than once", cen.dropped_more));
        }
        if cen.z_live < 0 {
            return Err("more zero-sized values dropped than created".into());
        }
        if !leak_ok && (cen.alive > 0 || cen.z_live > 0) {
            return Err(format!("{} value(s) were never dropped after the operation was refused by the claimed arena", cen.alive as i64 + cen.z_live));
        }
        let (errs, guards) = slab::with_slab(0, |s| (s.errors.first().cloned(), s.check_guards()));
        if let Some(e) = errs {
            return Err(format!("base allocator protocol: {e}"));
        }
        if let Err(e) = guards {
            return Err(format!("memory outside granted blocks written: {e}"));
        }
        Ok(refused)
    })
}

pub fn explore(thorough: bool) -> (J, Vec<J>) {
    let t0 = Instant::now();
    let max_n = if thorough { 6 } else { 4 };
    let mut viols = Vec::new();
    let (mut n_cases, mut nt) = (0u64, 0u64);
    'outer: for ci in 0..CFGS.len() {
        for zst in [false, true] {
            for n in 0..=max_n {
                for op in ops_for(n, true, true) {
                    if op == VOp::TryMap {
                        // returns Err on a claimed arena (no panic): the adapter of the differential driver treats that as its own failure
                        continue;
                    }
                    let c = ClaimCase { ci, zst, n, op };
                    n_cases += 1;
                    match case(&c) {
                        Ok(true) => nt += 1,
                        Ok(false) => {}
                        Err(m) => {
                            viols.push(J::obj().set("prop", "C07").set("cfg", CFGS[ci].0).set("params", format!("BumpVec zst={zst} n={n}, arena claimed")).set("history", format!("{:?}", c.op)).set("msg", m).set("replay_args", vec!["--case".to_string(), c.text()]));
                            if viols.len() >= 8 {
                                break 'outer;
                            }
                        }
                    }
                }
            }
        }
    }
    let cov = J::obj()
        .set("evaluations", n_cases)
        .set("distinct_nontrivial", nt)
        .set("states", n_cases)
        .set("transitions", n_cases)
        .set("traces_validated_against_impl", n_cases)
        .set("rule", "operations on a full BumpVec while the arena it borrows is claimed: every operation of the C06 alphabet (all indices / ranges, iterator consumption patterns) x sized / zero-sized elements x length 0..N x 4 arena configurations; operations that need memory must unwind with \"bump allocator is claimed\" from wherever they are (also from inside Splice::drop), the others complete as usual; afterwards every value ever created was dropped exactly once and nothing outside granted memory was written; non-trivial = operations that were refused")
        .set("samples", vec![ClaimCase { ci: 0, zst: false, n: 3, op: VOp::Splice(1, 2, 2, Take::All) }.text()])
        .set("exhaustive", true);
    let space = J::obj()
        .set("property_id", "C07")
        .set("tier", if thorough { "thorough" } else { "quick" })
        .set("seed", 0)
        .set("level", "fault_enumeration")
        .set("space", "operations-on-a-claimed-arena")
        .set("coverage", cov)
        .set("wall_s", t0.elapsed().as_secs_f64())
        .set("violations", viols.len())
        .set("floor", 100)
        .set("floor_ok", nt >= 100 || !viols.is_empty());
    (space, viols)
}

pub fn replay(text: &str) -> Option<String> {
    let rest = text.strip_prefix("claimops:")?;
    let (head, op) = rest.split_once(";op=")?;
    let mut m = std::collections::HashMap::new();
    for item in head.split(';') {
        if let Some((k, v)) = item.split_once('=') {
            m.insert(k.to_string(), v.to_string());
        }
    }
    let op = crate::parse_ops(op)?.into_iter().next()?;
    let c = ClaimCase { ci: m["cfg"].parse().ok()?, zst: m["zst"] == "1", n: m["n"].parse().ok()?, op };
    case(&c).err()
}
