//! C07, panicking twins: "a panicking method never returns normally when the base allocator refuses memory".
//! With default features an allocation failure in a panicking method ends in `handle_alloc_error`, i.e. the process
//! aborts; each probe therefore runs in a child process of its own. The complete product entry points x arena
//! configurations is run (no sampling): the child first shows that the fault arrangement bites (the try_ twin
//! returns Err on an identically prepared arena), then calls the panicking twin and prints RETURNED if that call
//! comes back. Accepted endings: abort (SIGABRT) or an unwinding panic (exit code 101).

use crate::with_cfg;
use bump_scope::settings::{BumpAllocatorSettings, BumpSettings};
use bump_scope::{BaseAllocator, Bump, BumpString, BumpVec, MutBumpString, MutBumpVec, MutBumpVecRev};
use std::alloc::Layout;
use std::ffi::CString;
use std::io::Write;
use vcore::slab::{self, SlabCfg, SlabZ};

type B<S> = Bump<SlabZ, S>;

const N: usize = 5000;

#[derive(Clone)]
struct Big([u8; N]);
impl Default for Big {
    fn default() -> Self {
        Big([3; N])
    }
}

pub const PROBES: &[&str] = &[
    "alloc",
    "alloc_with",
    "alloc_default",
    "alloc_slice_copy",
    "alloc_slice_clone",
    "alloc_slice_fill",
    "alloc_slice_fill_with",
    "alloc_slice_move",
    "alloc_str",
    "alloc_fmt",
    "alloc_fmt_mut",
    "alloc_cstr",
    "alloc_cstr_from_str",
    "alloc_cstr_fmt",
    "alloc_cstr_fmt_mut",
    "alloc_iter",
    "alloc_iter_exact",
    "alloc_iter_mut",
    "alloc_iter_mut_rev",
    "alloc_uninit",
    "alloc_uninit_slice",
    "alloc_uninit_slice_for",
    "alloc_try_with",
    "alloc_try_with_mut",
    "reserve",
    "scoped_alloc",
    "vec_with_capacity_in",
    "vec_from_iter_in",
    "vec_from_elem_in",
    "vec_push",
    "vec_push_with",
    "vec_insert",
    "vec_reserve",
    "vec_reserve_exact",
    "vec_extend_from_slice_copy",
    "vec_extend_from_slice_clone",
    "vec_extend_from_within_copy",
    "vec_resize",
    "vec_resize_with",
    "vec_append",
    "vec_extend",
    "mutvec_with_capacity_in",
    "mutvec_push",
    "mutvec_reserve",
    "mutvec_extend_from_slice_copy",
    "mutvecrev_push",
    "mutvecrev_reserve",
    "mutvecrev_extend_from_slice_copy",
    "string_with_capacity_in",
    "string_from_str_in",
    "string_push",
    "string_push_str",
    "string_insert_str",
    "string_reserve",
    "string_extend_from_within",
    "string_into_cstr",
    "mutstring_push_str",
    "mutstring_reserve",
    "bump_new_in",
    "bump_with_size_in",
    "bump_with_capacity_in",
];

fn arm() {
    slab::with_slab(0, |s| {
        let bit = s.calls.min(63);
        s.cfg.fail_mask = !0u64 << bit;
    });
}

/// fills the current chunk completely, so that every further request needs a new chunk
fn fill<S>(bump: &B<S>)
where
    S: BumpAllocatorSettings,
    SlabZ: BaseAllocator<S::GuaranteedAllocated>,
{
    let rem = bump.stats().current_chunk().map_or(0, |c| c.remaining());
    if rem > 0 {
        let _ = bump.alloc_slice_fill(rem, 0x11u8);
    }
}

/// returns Some(true) if the try_ twin reported an error; the panicking twin returns Some(false) if it came back
fn probe<S>(name: &str, panicking: bool) -> Option<bool>
where
    S: BumpAllocatorSettings + 'static,
    SlabZ: BaseAllocator<S::GuaranteedAllocated>,
{
    macro_rules! pair {
        ($pan:expr, $try_:expr) => {{
            arm();
            if panicking {
                let _ = $pan;
                Some(false)
            } else {
                Some($try_.is_err())
            }
        }};
    }
    if name.starts_with("bump_") {
        return match name {
            "bump_new_in" => pair!(B::<S>::new_in(SlabZ), B::<S>::try_new_in(SlabZ)),
            "bump_with_size_in" => pair!(B::<S>::with_size_in(N, SlabZ), B::<S>::try_with_size_in(N, SlabZ)),
            "bump_with_capacity_in" => pair!(B::<S>::with_capacity_in(Layout::new::<Big>(), SlabZ), B::<S>::try_with_capacity_in(Layout::new::<Big>(), SlabZ)),
            _ => None,
        };
    }
    let mut bump: B<S> = Bump::new_in(SlabZ);
    let long = "é".repeat(N / 2);
    let cs = CString::new(vec![b'a'; N]).unwrap();
    let big = Big::default();
    let src = vec![7u8; N];
    macro_rules! with_vec {
        (|$v:ident| $pan:expr, $try_:expr) => {{
            let mut $v: BumpVec<u32, &B<S>> = BumpVec::from_iter_in([1u32, 2, 3], &bump);
            fill(&bump);
            pair!($pan, $try_)
        }};
    }
    macro_rules! with_mutvec {
        ($ty:ident, |$v:ident| $pan:expr, $try_:expr) => {{
            fill(&bump);
            let mut $v: $ty<u32, &mut B<S>> = $ty::new_in(&mut bump);
            pair!($pan, $try_)
        }};
    }
    macro_rules! with_string {
        (|$v:ident| $pan:expr, $try_:expr) => {{
            let mut $v: BumpString<&B<S>> = BumpString::from_str_in("héllo", &bump);
            fill(&bump);
            pair!($pan, $try_)
        }};
    }
    macro_rules! with_mutstring {
        (|$v:ident| $pan:expr, $try_:expr) => {{
            fill(&bump);
            let mut $v: MutBumpString<&mut B<S>> = MutBumpString::new_in(&mut bump);
            pair!($pan, $try_)
        }};
    }
    if !name.starts_with("vec_") && !name.starts_with("string_") {
        fill(&bump);
    }
    match name {
        "alloc" => pair!(bump.alloc(big.clone()), bump.try_alloc(big.clone())),
        "alloc_with" => pair!(bump.alloc_with(|| big.clone()), bump.try_alloc_with(|| big.clone())),
        "alloc_default" => pair!(bump.alloc_default::<Big>(), bump.try_alloc_default::<Big>()),
        "alloc_slice_copy" => pair!(bump.alloc_slice_copy(&src), bump.try_alloc_slice_copy(&src)),
        "alloc_slice_clone" => pair!(bump.alloc_slice_clone(&src), bump.try_alloc_slice_clone(&src)),
        "alloc_slice_fill" => pair!(bump.alloc_slice_fill(N, 1u8), bump.try_alloc_slice_fill(N, 1u8)),
        "alloc_slice_fill_with" => pair!(bump.alloc_slice_fill_with(N, || 1u8), bump.try_alloc_slice_fill_with(N, || 1u8)),
        "alloc_slice_move" => pair!(bump.alloc_slice_move(src.clone()), bump.try_alloc_slice_move(src.clone())),
        "alloc_str" => pair!(bump.alloc_str(&long), bump.try_alloc_str(&long)),
        "alloc_fmt" => pair!(bump.alloc_fmt(format_args!("{long}-{}", 1)), bump.try_alloc_fmt(format_args!("{long}-{}", 1))),
        "alloc_fmt_mut" => pair!(bump.alloc_fmt_mut(format_args!("{long}-{}", 1)), bump.try_alloc_fmt_mut(format_args!("{long}-{}", 1))),
        "alloc_cstr" => pair!(bump.alloc_cstr(&cs), bump.try_alloc_cstr(&cs)),
        "alloc_cstr_from_str" => pair!(bump.alloc_cstr_from_str(&long), bump.try_alloc_cstr_from_str(&long)),
        "alloc_cstr_fmt" => pair!(bump.alloc_cstr_fmt(format_args!("{long}-{}", 1)), bump.try_alloc_cstr_fmt(format_args!("{long}-{}", 1))),
        "alloc_cstr_fmt_mut" => pair!(bump.alloc_cstr_fmt_mut(format_args!("{long}-{}", 1)), bump.try_alloc_cstr_fmt_mut(format_args!("{long}-{}", 1))),
        "alloc_iter" => pair!(bump.alloc_iter(0..N as u32), bump.try_alloc_iter(0..N as u32)),
        "alloc_iter_exact" => pair!(bump.alloc_iter_exact(0..N as u32), bump.try_alloc_iter_exact(0..N as u32)),
        "alloc_iter_mut" => pair!(bump.alloc_iter_mut(0..N as u32), bump.try_alloc_iter_mut(0..N as u32)),
        "alloc_iter_mut_rev" => pair!(bump.alloc_iter_mut_rev(0..N as u32), bump.try_alloc_iter_mut_rev(0..N as u32)),
        "alloc_uninit" => pair!(bump.alloc_uninit::<Big>(), bump.try_alloc_uninit::<Big>()),
        "alloc_uninit_slice" => pair!(bump.alloc_uninit_slice::<u8>(N), bump.try_alloc_uninit_slice::<u8>(N)),
        "alloc_uninit_slice_for" => pair!(bump.alloc_uninit_slice_for(&src), bump.try_alloc_uninit_slice_for(&src)),
        "alloc_try_with" => pair!(bump.alloc_try_with(|| Ok::<Big, ()>(big.clone())), bump.try_alloc_try_with(|| Ok::<Big, ()>(big.clone()))),
        "alloc_try_with_mut" => pair!(bump.alloc_try_with_mut(|| Ok::<Big, ()>(big.clone())), bump.try_alloc_try_with_mut(|| Ok::<Big, ()>(big.clone()))),
        "reserve" => pair!(bump.reserve(N), bump.try_reserve(N)),
        "scoped_alloc" => pair!(bump.scoped(|s| s.alloc_slice_fill(N, 1u8).len()), bump.scoped(|s| s.try_alloc_slice_fill(N, 1u8).map(|b| b.len()))),
        "vec_with_capacity_in" => {
            fill(&bump);
            pair!(BumpVec::<u32, _>::with_capacity_in(N, &bump), BumpVec::<u32, _>::try_with_capacity_in(N, &bump))
        }
        "vec_from_iter_in" => {
            fill(&bump);
            pair!(BumpVec::from_iter_in(0..N as u32, &bump), BumpVec::try_from_iter_in(0..N as u32, &bump))
        }
        "vec_from_elem_in" => {
            fill(&bump);
            pair!(BumpVec::from_elem_in(1u32, N, &bump), BumpVec::try_from_elem_in(1u32, N, &bump))
        }
        "vec_push" => with_vec!(|v| v.push(4), v.try_push(4)),
        "vec_push_with" => with_vec!(|v| v.push_with(|| 4), v.try_push_with(|| 4)),
        "vec_insert" => with_vec!(|v| v.insert(1, 4), v.try_insert(1, 4)),
        "vec_reserve" => with_vec!(|v| v.reserve(N), v.try_reserve(N)),
        "vec_reserve_exact" => with_vec!(|v| v.reserve_exact(N), v.try_reserve_exact(N)),
        "vec_extend_from_slice_copy" => with_vec!(|v| v.extend_from_slice_copy(&[9; 64]), v.try_extend_from_slice_copy(&[9; 64])),
        "vec_extend_from_slice_clone" => with_vec!(|v| v.extend_from_slice_clone(&[9; 64]), v.try_extend_from_slice_clone(&[9; 64])),
        "vec_extend_from_within_copy" => with_vec!(|v| v.extend_from_within_copy(..), v.try_extend_from_within_copy(..)),
        "vec_resize" => with_vec!(|v| v.resize(N, 5), v.try_resize(N, 5)),
        "vec_resize_with" => with_vec!(|v| v.resize_with(N, || 5), v.try_resize_with(N, || 5)),
        "vec_append" => with_vec!(|v| v.append(vec![5u32; 64]), v.try_append(vec![5u32; 64])),
        "vec_extend" => with_vec!(|v| v.extend(0..64u32), v.try_extend_from_slice_copy(&[9; 64])),
        "mutvec_with_capacity_in" => {
            fill(&bump);
            pair!(MutBumpVec::<u32, _>::with_capacity_in(N, &mut bump).len(), MutBumpVec::<u32, _>::try_with_capacity_in(N, &mut bump).map(|v| v.len()))
        }
        "mutvec_push" => with_mutvec!(MutBumpVec, |v| v.push(4), v.try_push(4)),
        "mutvec_reserve" => with_mutvec!(MutBumpVec, |v| v.reserve(N), v.try_reserve(N)),
        "mutvec_extend_from_slice_copy" => with_mutvec!(MutBumpVec, |v| v.extend_from_slice_copy(&[9; 64]), v.try_extend_from_slice_copy(&[9; 64])),
        "mutvecrev_push" => with_mutvec!(MutBumpVecRev, |v| v.push(4), v.try_push(4)),
        "mutvecrev_reserve" => with_mutvec!(MutBumpVecRev, |v| v.reserve(N), v.try_reserve(N)),
        "mutvecrev_extend_from_slice_copy" => with_mutvec!(MutBumpVecRev, |v| v.extend_from_slice_copy(&[9; 64]), v.try_extend_from_slice_copy(&[9; 64])),
        "string_with_capacity_in" => {
            fill(&bump);
            pair!(BumpString::with_capacity_in(N, &bump), BumpString::try_with_capacity_in(N, &bump))
        }
        "string_from_str_in" => {
            fill(&bump);
            pair!(BumpString::from_str_in(&long, &bump), BumpString::try_from_str_in(&long, &bump))
        }
        "string_push" => with_string!(|s| s.push('€'), s.try_push('€')),
        "string_push_str" => with_string!(|s| s.push_str(&long), s.try_push_str(&long)),
        "string_insert_str" => with_string!(|s| s.insert_str(1, &long), s.try_insert_str(1, &long)),
        "string_reserve" => with_string!(|s| s.reserve(N), s.try_reserve(N)),
        "string_extend_from_within" => with_string!(|s| s.extend_from_within(..), s.try_extend_from_within(..)),
        "string_into_cstr" => {
            // exactly full string: the terminating NUL needs growth
            let mut s: BumpString<&B<S>> = BumpString::from_str_in("héllo", &bump);
            while s.len() < s.capacity() {
                s.push('x');
            }
            fill(&bump);
            pair!(s.into_cstr().to_bytes().len(), s.try_into_cstr().map(|c| c.to_bytes().len()))
        }
        "mutstring_push_str" => with_mutstring!(|s| s.push_str(&long), s.try_push_str(&long)),
        "mutstring_reserve" => with_mutstring!(|s| s.reserve(N), s.try_reserve(N)),
        _ => None,
    }
}

/// child process body
pub fn child(ci: usize, name: &str) -> ! {
    // the expected ending is SIGABRT: no core files
    unsafe {
        let lim = libc::rlimit { rlim_cur: 0, rlim_max: 0 };
        libc::setrlimit(libc::RLIMIT_CORE, &lim);
    }
    let out = std::io::stdout();
    let say = |s: &str| {
        let mut o = out.lock();
        let _ = writeln!(o, "{s}");
        let _ = o.flush();
    };
    slab::select(0);
    slab::reset(0, SlabCfg::default());
    match with_cfg!(ci, |S| probe::<S>(name, false)) {
        Some(true) => say("TRY_ERR"),
        Some(false) => {
            say("VACUOUS try twin succeeded under the fault arrangement");
            std::process::exit(3);
        }
        None => {
            say("VACUOUS unknown probe");
            std::process::exit(3);
        }
    }
    slab::reset(0, SlabCfg::default());
    say("ARMED");
    let _ = with_cfg!(ci, |S| probe::<S>(name, true));
    say("RETURNED");
    std::process::exit(0);
}

pub enum ProbeResult {
    Aborted,
    Unwound,
    Returned,
    Vacuous(String),
    Other(String),
}

pub fn run_child(ci: usize, name: &str) -> ProbeResult {
    use std::os::unix::process::ExitStatusExt;
    let exe = std::env::current_exe().expect("current_exe");
    let out = match std::process::Command::new(exe).args(["abort-child", "--ci", &ci.to_string(), "--probe", name]).env("RUST_BACKTRACE", "0").stderr(std::process::Stdio::null()).output() {
        Ok(o) => o,
        Err(e) => return ProbeResult::Other(format!("spawn failed: {e}")),
    };
    let text = String::from_utf8_lossy(&out.stdout).to_string();
    if text.contains("RETURNED") {
        return ProbeResult::Returned;
    }
    if let Some(l) = text.lines().find(|l| l.starts_with("VACUOUS")) {
        return ProbeResult::Vacuous(l.to_string());
    }
    if !text.contains("ARMED") {
        return ProbeResult::Other(format!("child ended before the panicking twin was called: status {:?}, output {text:?}", out.status));
    }
    match (out.status.signal(), out.status.code()) {
        (Some(6), _) => ProbeResult::Aborted,
        (None, Some(101)) => ProbeResult::Unwound,
        (s, c) => ProbeResult::Other(format!("the panicking twin ended the process with signal {s:?} / exit code {c:?} (expected abort or an unwinding panic)")),
    }
}
