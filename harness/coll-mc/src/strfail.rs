//! C07, string part: allocation-failure injection into every growing operation of `BumpString` / `MutBumpString`.
//!
//! A case is (arena configuration, padding allocated before the string, requested capacity, initial contents, one
//! try_ operation, fault plan). All cases of the product are run; a refused base-allocator call must surface as
//! `Err` (no panic), leave length and bytes exactly as they were (in particular never a truncated UTF-8 sequence),
//! and the string must keep working once the fault is lifted.

use crate::{CFGS, with_cfg};
use bump_scope::settings::{BumpAllocatorSettings, BumpSettings};
use bump_scope::{BaseAllocator, Bump, BumpString, MutBumpString};
use std::fmt::Write;
use std::panic::{AssertUnwindSafe, catch_unwind};
use std::sync::Mutex;
use std::sync::atomic::{AtomicU64, AtomicUsize, Ordering};
use std::time::Instant;
use vcore::json::J;
use vcore::slab::{self, SlabCfg, SlabZ};

type B<S> = Bump<SlabZ, S>;

const CHARS: [char; 4] = ['a', 'é', '€', '😀'];
const STRS: [&str; 5] = ["é", "x€", "😀y", "0123456789abcdefghijklmnopqrstuvwxyz-éé€", ""];

fn long_str() -> String {
    "€uro-".repeat(60)
}

#[derive(Clone, Copy, Debug, PartialEq, Eq)]
pub enum StrOp {
    Push(usize),
    PushStr(usize),
    /// position index: 0 = start, 1 = after the first char, 2 = end
    Insert(usize, usize),
    InsertStr(usize, usize),
    Reserve(usize),
    ReserveExact(usize),
    ExtendWithin,
    ExtendZeroed(usize),
    ReplaceRange(usize, usize),
    WriteChar(usize),
    WriteStr(usize),
    WriteFmt,
}

#[derive(Clone, Copy, Debug, PartialEq, Eq)]
pub enum SKind {
    Str,
    MutStr,
}

pub struct StrFailCase {
    pub ci: usize,
    pub kind: SKind,
    pub pad: usize,
    pub cap: usize,
    /// initial contents: 0 = "", 1 = "a", 2 = "é", 3 = "éb", 4 = "éb€" (6 bytes)
    pub init: usize,
    pub k: u32,
    pub all: bool,
    pub op: StrOp,
    /// the arena owns a second, currently unused chunk (left behind by an earlier scope) when the string is created
    pub retained: bool,
    /// finalise right after the failed operation (no further push in between)
    pub direct: bool,
}

const INITS: [&str; 5] = ["", "a", "é", "éb", "éb€"];

impl StrFailCase {
    pub fn text(&self) -> String {
        format!("strfail:cfg={};kind={:?};pad={};cap={};init={};k={};all={};ret={};direct={};op={:?}", self.ci, self.kind, self.pad, self.cap, self.init, self.k, self.all as u8, self.retained as u8, self.direct as u8, self.op)
    }
}

fn pos_of(model: &str, idx: usize) -> usize {
    match idx {
        0 => 0,
        1 => model.chars().next().map_or(0, |c| c.len_utf8()),
        _ => model.len(),
    }
}

fn src_str(i: usize) -> String {
    if i >= STRS.len() { long_str() } else { STRS[i].to_string() }
}

macro_rules! str_ops {
    ($s:ident, $op:expr, $model:ident) => {{
        match $op {
            StrOp::Push(c) => $s.try_push(CHARS[c]).map(|_| $model.push(CHARS[c])).map_err(|_| ()),
            StrOp::PushStr(i) => {
                let t = src_str(i);
                $s.try_push_str(&t).map(|_| $model.push_str(&t)).map_err(|_| ())
            }
            StrOp::Insert(p, c) => {
                let at = pos_of(&$model, p);
                $s.try_insert(at, CHARS[c]).map(|_| $model.insert(at, CHARS[c])).map_err(|_| ())
            }
            StrOp::InsertStr(p, i) => {
                let at = pos_of(&$model, p);
                let t = src_str(i);
                $s.try_insert_str(at, &t).map(|_| $model.insert_str(at, &t)).map_err(|_| ())
            }
            StrOp::Reserve(k) => $s.try_reserve(k).map_err(|_| ()),
            StrOp::ReserveExact(k) => $s.try_reserve_exact(k).map_err(|_| ()),
            StrOp::ExtendWithin => {
                let t = $model.clone();
                $s.try_extend_from_within(..).map(|_| $model.push_str(&t)).map_err(|_| ())
            }
            StrOp::ExtendZeroed(k) => $s.try_extend_zeroed(k).map(|_| {
                for _ in 0..k {
                    $model.push('\0');
                }
            }).map_err(|_| ()),
            StrOp::ReplaceRange(p, i) => {
                let at = pos_of(&$model, p);
                let t = src_str(i);
                $s.try_replace_range(..at, &t).map(|_| $model.replace_range(..at, &t)).map_err(|_| ())
            }
            StrOp::WriteChar(c) => $s.write_char(CHARS[c]).map(|_| $model.push(CHARS[c])).map_err(|_| ()),
            StrOp::WriteStr(i) => {
                let t = src_str(i);
                $s.write_str(&t).map(|_| $model.push_str(&t)).map_err(|_| ())
            }
            StrOp::WriteFmt => {
                // several pieces: a failure in a later piece may leave the earlier pieces behind (documented
                // behaviour of fmt::Write), so only "is a prefix of the full text" is demanded on failure
                write!($s, "{}-{}-{}", 12345, "é€", 'x').map(|_| $model.push_str("12345-é€-x")).map_err(|_| ())
            }
        }
    }};
}

fn run_str<S>(c: &StrFailCase) -> Result<bool, String>
where
    S: BumpAllocatorSettings + 'static,
    SlabZ: BaseAllocator<S::GuaranteedAllocated>,
{
    let mut bump: B<S> = Bump::new_in(SlabZ);
    if c.retained {
        bump.scoped(|s| {
            let rem = s.stats().remaining();
            let _ = s.alloc_slice_fill(rem + 1, 0u8);
        });
    }
    if c.pad > 0 {
        let _ = bump.alloc_slice_fill(c.pad, 0x5Au8);
    }
    let mut model: String = INITS[c.init].to_string();
    let arm = |c: &StrFailCase| {
        slab::with_slab(0, |s| {
            let base = s.calls + c.k;
            let bit = base.min(63);
            s.cfg.fail_mask = if c.all { !0u64 << bit } else { 1u64 << bit };
            s.refused
        })
    };
    let disarm = || slab::with_slab(0, |s| s.cfg.fail_mask = 0);
    macro_rules! scenario {
        ($s:ident) => {{
            $s.push_str(INITS[c.init]);
            let refused0 = arm(c);
            let before: Vec<u8> = $s.as_bytes().to_vec();
            let r = catch_unwind(AssertUnwindSafe(|| str_ops!($s, c.op, model)));
            let refused1 = slab::with_slab(0, |s| s.refused);
            disarm();
            let r = match r {
                Ok(r) => r,
                Err(_) => return Err(format!("{:?} panicked although the base allocator only refused memory: {}", c.op, vcore::crash::take_last_panic().unwrap_or_default())),
            };
            let got: Vec<u8> = $s.as_bytes().to_vec();
            let failed = r.is_err();
            if failed {
                if refused1 == refused0 {
                    return Err(format!("{:?} returned Err although the base allocator refused nothing", c.op));
                }
                if c.op == StrOp::WriteFmt {
                    let full = format!("{}12345-é€-x", String::from_utf8_lossy(&before));
                    if !full.as_bytes().starts_with(&got) || got.len() < before.len() || std::str::from_utf8(&got).is_err() {
                        return Err(format!("write! failed and left bytes {:?} (before {:?})", got, before));
                    }
                    model = String::from_utf8(got.clone()).unwrap();
                } else if got != before {
                    return Err(format!("{:?} failed but changed the string: bytes {:?} (before {:?}){}", c.op, got, before, if std::str::from_utf8(&got).is_err() { " - no longer valid UTF-8" } else { "" }));
                }
            } else if got != model.as_bytes() {
                return Err(format!("{:?} succeeded with bytes {:?}, expected {:?}", c.op, got, model.as_bytes()));
            }
            if $s.len() != got.len() || $s.capacity() < $s.len() {
                return Err(format!("{:?}: len {} / capacity {} inconsistent with {} bytes", c.op, $s.len(), $s.capacity(), got.len()));
            }
            // the string keeps working afterwards
            if !c.direct {
                if $s.try_push('ß').is_err() {
                    return Err("try_push after the fault was lifted failed".into());
                }
                model.push('ß');
                if $s.as_bytes() != model.as_bytes() {
                    return Err(format!("after the failed {:?} and one more push the bytes are {:?}, expected {:?}", c.op, $s.as_bytes(), model.as_bytes()));
                }
            }
            // finalising after the failure hands out exactly the contents
            let boxed = $s.into_boxed_str();
            if boxed.as_bytes() != model.as_bytes() {
                return Err(format!("into_boxed_str after the failed {:?} holds {:?}, expected {:?}", c.op, boxed.as_bytes(), model.as_bytes()));
            }
            drop(boxed);
            failed
        }};
    }
    let failed = match c.kind {
        SKind::Str => {
            let mut s: BumpString<&B<S>> = BumpString::with_capacity_in(c.cap, &bump);
            scenario!(s)
        }
        SKind::MutStr => {
            let mut s: MutBumpString<&mut B<S>> = MutBumpString::with_capacity_in(c.cap, &mut bump);
            scenario!(s)
        }
    };
    // the arena is still coherent and keeps working
    let st = bump.stats();
    for ch in st.small_to_big() {
        let (lo, hi, pos) = (ch.content_start().as_ptr() as usize, ch.content_end().as_ptr() as usize, ch.bump_position().as_ptr() as usize);
        if pos < lo || pos > hi {
            return Err(format!("after the failed {:?} a chunk's bump position {pos:#x} lies outside its content range {lo:#x}..{hi:#x}", c.op));
        }
    }
    if st.allocated() > st.capacity() {
        return Err(format!("after the failed {:?} allocated() = {} exceeds capacity() = {}", c.op, st.allocated(), st.capacity()));
    }
    if bump.try_alloc(0x7777_7777u32).map(|b| *b).ok() != Some(0x7777_7777) {
        return Err("the arena refused a small allocation after the fault was lifted".into());
    }
    Ok(failed)
}

pub fn str_fail_case(c: &StrFailCase) -> Result<bool, String> {
    fn fmt(p: *const ()) -> String {
        format!("replaycase=<<{}>>", unsafe { &*(p as *const StrFailCase) }.text())
    }
    vcore::crash::with_inflight(c, fmt, || str_fail_case_inner(c))
}

fn str_fail_case_inner(c: &StrFailCase) -> Result<bool, String> {
    slab::select(0);
    slab::reset(0, SlabCfg::default());
    let _ = vcore::crash::take_last_panic();
    let r = catch_unwind(AssertUnwindSafe(|| with_cfg!(c.ci, |S| run_str::<S>(c))));
    slab::with_slab(0, |s| s.cfg.fail_mask = 0);
    let r = match r {
        Ok(r) => r,
        Err(_) => Err(format!("unexpected panic: {}", vcore::crash::take_last_panic().unwrap_or_default())),
    };
    let failed = r?;
    let (errs, guards, outstanding) = slab::with_slab(0, |s| (s.errors.first().cloned(), s.check_guards(), s.outstanding()));
    if let Some(e) = errs {
        return Err(format!("base allocator protocol: {e}"));
    }
    if let Err(e) = guards {
        return Err(format!("memory outside granted blocks written: {e}"));
    }
    if outstanding != 0 {
        return Err(format!("{outstanding} chunks never released"));
    }
    Ok(failed)
}

pub fn explore_str_failures(thorough: bool, _deadline: Instant) -> (J, Vec<J>) {
    let t0 = Instant::now();
    let mut ops = Vec::new();
    for c in 0..CHARS.len() {
        ops.push(StrOp::Push(c));
        ops.push(StrOp::WriteChar(c));
        for p in 0..3 {
            ops.push(StrOp::Insert(p, c));
        }
    }
    for i in 0..=STRS.len() {
        ops.push(StrOp::PushStr(i));
        ops.push(StrOp::WriteStr(i));
        for p in 0..3 {
            ops.push(StrOp::InsertStr(p, i));
        }
        ops.push(StrOp::ReplaceRange(1, i));
        ops.push(StrOp::ReplaceRange(2, i));
    }
    for k in [0, 1, 4, 40, 400] {
        ops.extend([StrOp::Reserve(k), StrOp::ReserveExact(k), StrOp::ExtendZeroed(k)]);
    }
    ops.push(StrOp::ExtendWithin);
    ops.push(StrOp::WriteFmt);
    let pads: Vec<usize> = if thorough { (0..=40).collect() } else { (0..=17).collect() };
    let caps: &[usize] = if thorough { &[0, 1, 2, 3, 4, 5, 6, 7, 8, 9, 15, 16, 17] } else { &[0, 1, 2, 3, 4, 7, 8] };
    let mut cases = Vec::new();
    for ci in 0..CFGS.len() {
        for kind in [SKind::Str, SKind::MutStr] {
            for &pad in &pads {
                for &cap in caps {
                    for init in 0..INITS.len() {
                        for &op in &ops {
                            for k in 0..if thorough { 3 } else { 2 } {
                                for all in [true, false] {
                                    for (retained, direct) in [(false, false), (true, true), (true, false), (false, true)] {
                                        cases.push(StrFailCase { ci, kind, pad, cap, init, k, all, op, retained, direct });
                                    }
                                }
                            }
                        }
                    }
                }
            }
        }
    }
    let evals = AtomicU64::new(0);
    let failed_n = AtomicU64::new(0);
    let viols: Mutex<Vec<J>> = Mutex::new(Vec::new());
    let next = AtomicUsize::new(0);
    let threads = std::thread::available_parallelism().map_or(8, |n| n.get());
    std::thread::scope(|sc| {
        for _ in 0..threads {
            sc.spawn(|| {
                loop {
                    let i = next.fetch_add(1, Ordering::Relaxed);
                    if i >= cases.len() {
                        break;
                    }
                    let c = &cases[i];
                    evals.fetch_add(1, Ordering::Relaxed);
                    match str_fail_case(c) {
                        Ok(true) => {
                            failed_n.fetch_add(1, Ordering::Relaxed);
                        }
                        Ok(false) => {}
                        Err(m) => {
                            let mut v = viols.lock().unwrap();
                            if v.len() < 8 {
                                v.push(J::obj().set("prop", "C07").set("cfg", CFGS[c.ci].0).set("params", format!("{:?} pad={} cap={} init={:?} fail_call=+{} all_later={}", c.kind, c.pad, c.cap, INITS[c.init], c.k, c.all)).set("history", format!("{:?}", c.op)).set("msg", m).set("replay_args", vec!["--case".to_string(), c.text()]));
                            }
                        }
                    }
                }
            });
        }
    });
    let viols = viols.into_inner().unwrap();
    let ev = evals.load(Ordering::Relaxed);
    let nt = failed_n.load(Ordering::Relaxed);
    let samples: Vec<String> = cases.iter().step_by((cases.len() / 6).max(1)).take(6).map(|c| c.text()).collect();
    let cov = J::obj()
        .set("evaluations", ev)
        .set("distinct_nontrivial", nt)
        .set("states", ev)
        .set("transitions", ev)
        .set("traces_validated_against_impl", ev)
        .set("rule", "string part of C07: {BumpString, MutBumpString} x 4 arena configurations (with and without a second, unused chunk retained from an earlier scope) x bytes allocated before the string (so that every spare-capacity / chunk-remainder combination occurs) x requested capacity x initial contents (ASCII and multi-byte) x every try_ growth operation (try_push / write_char of 1-4 byte chars, try_insert at 3 positions, try_push_str / write_str / try_insert_str / try_replace_range with 6 source strings, try_reserve(_exact) and try_extend_zeroed with 0/1/4/40/400, try_extend_from_within, write!) x fault plan (the k-th base-allocator call after the string exists fails, alone or with all later ones); a refused call must yield Err with length and bytes unchanged (never a truncated UTF-8 sequence; write! may keep complete earlier pieces), no panic, the string keeps working after the fault is lifted, finalising it (into_boxed_str, directly or after one more push) hands out exactly its contents and the arena stays coherent; non-trivial = cases in which the operation actually failed")
        .set("samples", samples)
        .set("exhaustive", true);
    let space = J::obj()
        .set("property_id", "C07")
        .set("tier", if thorough { "thorough" } else { "quick" })
        .set("seed", 0)
        .set("level", "fault_enumeration")
        .set("space", "string-growth-failures")
        .set("coverage", cov)
        .set("wall_s", t0.elapsed().as_secs_f64())
        .set("violations", viols.len())
        .set("floor", 500)
        .set("floor_ok", nt >= 500 || !viols.is_empty());
    (space, viols)
}

fn nums(s: &str) -> Vec<usize> {
    let mut out = Vec::new();
    let mut cur = String::new();
    for ch in s.chars() {
        if ch.is_ascii_digit() {
            cur.push(ch);
        } else if !cur.is_empty() {
            out.push(cur.parse().unwrap());
            cur.clear();
        }
    }
    if !cur.is_empty() {
        out.push(cur.parse().unwrap());
    }
    out
}

pub fn replay(case: &str) -> Option<String> {
    let rest = case.strip_prefix("strfail:")?;
    let mut m = std::collections::HashMap::new();
    for item in rest.split(';') {
        if let Some((k, v)) = item.split_once('=') {
            m.insert(k.to_string(), v.to_string());
        }
    }
    let n = nums(&m["op"]);
    let a = n.first().copied().unwrap_or(0);
    let b = n.get(1).copied().unwrap_or(0);
    let op = match m["op"].split('(').next()? {
        "Push" => StrOp::Push(a),
        "PushStr" => StrOp::PushStr(a),
        "Insert" => StrOp::Insert(a, b),
        "InsertStr" => StrOp::InsertStr(a, b),
        "Reserve" => StrOp::Reserve(a),
        "ReserveExact" => StrOp::ReserveExact(a),
        "ExtendWithin" => StrOp::ExtendWithin,
        "ExtendZeroed" => StrOp::ExtendZeroed(a),
        "ReplaceRange" => StrOp::ReplaceRange(a, b),
        "WriteChar" => StrOp::WriteChar(a),
        "WriteStr" => StrOp::WriteStr(a),
        _ => StrOp::WriteFmt,
    };
    let c = StrFailCase {
        ci: m["cfg"].parse().ok()?,
        kind: if m["kind"] == "Str" { SKind::Str } else { SKind::MutStr },
        pad: m["pad"].parse().ok()?,
        cap: m["cap"].parse().ok()?,
        init: m["init"].parse().ok()?,
        k: m["k"].parse().ok()?,
        all: m["all"] == "1",
        op,
        retained: m.get("ret").is_some_and(|r| r == "1"),
        direct: m.get("direct").is_some_and(|r| r == "1"),
    };
    str_fail_case(&c).err()
}
