//! C06, slice producers: the `alloc_slice_*` / `alloc_iter*` / `alloc_with` / `alloc_try_with` helpers and the
//! `BumpBox<[MaybeUninit<T>]>::init_*` family build a `BumpBox` element by element from user callbacks (Clone, closures,
//! iterators). Closed product: producer x length x sized / zero-sized elements x 4 arena configurations x a panic
//! injected at every callback invocation (and once more with Drop::drop counted as a callback). After the result (or
//! the unwinding) and all sources are gone, every value ever created must have been dropped exactly once; without a
//! panic the result must hold exactly the expected elements.

use crate::elem::{self, El, ElemT, InjectedPanic, Z, tick};
use crate::vecs::TickIter;
use crate::{CFGS, with_cfg};
use bump_scope::settings::{BumpAllocatorSettings, BumpSettings};
use bump_scope::{BaseAllocator, Bump, BumpBox};
use std::panic::{AssertUnwindSafe, catch_unwind};
use std::time::Instant;
use vcore::json::J;
use vcore::slab::{self, SlabCfg, SlabZ};

type B<S> = Bump<SlabZ, S>;

#[derive(Clone, Copy, Debug, PartialEq, Eq)]
pub enum Producer {
    InitFill,
    InitFillWith,
    InitFillIterExact,
    InitFillIterLonger,
    InitFillIterShorter,
    InitClone,
    InitMoveVec,
    InitMoveArrayOrBox,
    AllocSliceClone,
    AllocSliceFill,
    AllocSliceFillWith,
    AllocSliceMoveVec,
    AllocSliceMoveBoxed,
    AllocIter,
    AllocIterOverHint,
    AllocIterExact,
    AllocIterExactLiesShort,
    AllocIterExactLiesLong,
    AllocIterMut,
    AllocIterMutRev,
    AllocWith,
    AllocTryWithOk,
    AllocTryWithErr,
    AllocTryWithMutOk,
    AllocTryWithMutErr,
}

pub const PRODUCERS: [Producer; 25] = [
    Producer::InitFill,
    Producer::InitFillWith,
    Producer::InitFillIterExact,
    Producer::InitFillIterLonger,
    Producer::InitFillIterShorter,
    Producer::InitClone,
    Producer::InitMoveVec,
    Producer::InitMoveArrayOrBox,
    Producer::AllocSliceClone,
    Producer::AllocSliceFill,
    Producer::AllocSliceFillWith,
    Producer::AllocSliceMoveVec,
    Producer::AllocSliceMoveBoxed,
    Producer::AllocIter,
    Producer::AllocIterOverHint,
    Producer::AllocIterExact,
    Producer::AllocIterExactLiesShort,
    Producer::AllocIterExactLiesLong,
    Producer::AllocIterMut,
    Producer::AllocIterMutRev,
    Producer::AllocWith,
    Producer::AllocTryWithOk,
    Producer::AllocTryWithErr,
    Producer::AllocTryWithMutOk,
    Producer::AllocTryWithMutErr,
];

#[derive(Clone, Copy, Debug)]
pub struct InitCase {
    pub ci: usize,
    pub prod: Producer,
    pub zst: bool,
    pub n: usize,
    /// None = fault-free reference run
    pub k: Option<u64>,
    pub drops: bool,
}

impl InitCase {
    pub fn text(&self) -> String {
        format!("boxinit:cfg={};prod={:?};zst={};n={};k={};drops={}", self.ci, self.prod, self.zst as u8, self.n, self.k.map_or(-1i64, |k| k as i64), self.drops as u8)
    }
}

/// an ExactSizeIterator whose `len()` may lie (safe code may do that)
struct LyingExact<T: ElemT> {
    next: u32,
    end: u32,
    claimed: usize,
    _t: std::marker::PhantomData<T>,
}
impl<T: ElemT> Iterator for LyingExact<T> {
    type Item = T;
    fn next(&mut self) -> Option<T> {
        tick();
        if self.next >= self.end {
            return None;
        }
        self.next += 1;
        Some(T::new(self.next - 1))
    }
    fn size_hint(&self) -> (usize, Option<usize>) {
        (self.claimed, Some(self.claimed))
    }
}
impl<T: ElemT> ExactSizeIterator for LyingExact<T> {}

thread_local! {
    static FIRED_IN_RUN: std::cell::Cell<bool> = const { std::cell::Cell::new(false) };
}

pub struct Outcome {
    pub callbacks: u64,
    pub fired: bool,
    pub msg: Option<String>,
}

fn run<S, T>(c: &InitCase) -> Result<(), String>
where
    S: BumpAllocatorSettings + 'static,
    T: ElemT + Clone,
    SlabZ: BaseAllocator<S::GuaranteedAllocated>,
{
    let mut bump: B<S> = Bump::new_in(SlabZ);
    let _ = bump.alloc(0u8);
    let n = c.n;
    let z = |x: u32| if T::IS_ZST { 0 } else { x };
    let mk = |base: u32| -> Vec<T> { (0..n as u32).map(|i| T::new(base + i)).collect() };
    let seq = |base: u32| -> Vec<u32> { (0..n as u32).map(|i| z(base + i)).collect() };
    // sources are created before the countdown is armed
    let src = mk(100);
    let single = T::new(7);
    elem::arm(c.k.map_or(-1, |k| k as i64), c.drops);
    let r = catch_unwind(AssertUnwindSafe(|| -> Result<(), String> {
        let check = |b: &[T], want: Vec<u32>| -> Result<(), String> {
            let got: Vec<u32> = b.iter().map(|e| e.val()).collect();
            if got != want { Err(format!("{:?} produced {:?}, expected {:?}", c.prod, got, want)) } else { Ok(()) }
        };
        match c.prod {
            Producer::InitFill => {
                let b = bump.alloc_uninit_slice::<T>(n).init_fill(single.dup());
                check(&b, vec![z(7); n])
            }
            Producer::InitFillWith => {
                let mut i = 0;
                let b = bump.alloc_uninit_slice::<T>(n).init_fill_with(|| {
                    tick();
                    i += 1;
                    T::new(200 + i - 1)
                });
                check(&b, seq(200))
            }
            Producer::InitFillIterExact => {
                let b = bump.alloc_uninit_slice::<T>(n).init_fill_iter(TickIter::<T>::new(300, n, false));
                check(&b, seq(300))
            }
            Producer::InitFillIterLonger => {
                let mut it = TickIter::<T>::new(300, n + 2, true);
                let b = bump.alloc_uninit_slice::<T>(n).init_fill_iter(&mut it);
                let r = check(&b, seq(300));
                drop(it);
                r
            }
            Producer::InitFillIterShorter => {
                if n == 0 {
                    return Ok(());
                }
                // must panic ("iterator ran out of items"), never hand out a partly initialised slice
                let r = catch_unwind(AssertUnwindSafe(|| {
                    let b = bump.alloc_uninit_slice::<T>(n).init_fill_iter(TickIter::<T>::new(300, n - 1, false));
                    b.len()
                }));
                match r {
                    Ok(len) => Err(format!("init_fill_iter returned a slice of {len} elements although the iterator ran out")),
                    Err(p) if p.is::<InjectedPanic>() => std::panic::resume_unwind(p),
                    Err(_) => {
                        let _ = vcore::crash::take_last_panic();
                        Ok(())
                    }
                }
            }
            Producer::InitClone => {
                let b = bump.alloc_uninit_slice::<T>(n).init_clone(&src);
                check(&b, seq(100))
            }
            Producer::InitMoveVec => {
                let b = bump.alloc_uninit_slice::<T>(n).init_move(mk(400));
                check(&b, seq(400))
            }
            Producer::InitMoveArrayOrBox => {
                let b = bump.alloc_uninit_slice::<T>(n).init_move(mk(400).into_boxed_slice());
                check(&b, seq(400))
            }
            Producer::AllocSliceClone => {
                let b = bump.alloc_slice_clone(&src);
                check(&b, seq(100))
            }
            Producer::AllocSliceFill => {
                let b = bump.alloc_slice_fill(n, single.dup());
                check(&b, vec![z(7); n])
            }
            Producer::AllocSliceFillWith => {
                let mut i = 0;
                let b = bump.alloc_slice_fill_with(n, || {
                    tick();
                    i += 1;
                    T::new(200 + i - 1)
                });
                check(&b, seq(200))
            }
            Producer::AllocSliceMoveVec => {
                let b = bump.alloc_slice_move(mk(400));
                check(&b, seq(400))
            }
            Producer::AllocSliceMoveBoxed => {
                let b = bump.alloc_slice_move(mk(400).into_boxed_slice());
                check(&b, seq(400))
            }
            Producer::AllocIter => {
                let b = bump.alloc_iter(TickIter::<T>::new(300, n, false));
                check(&b, seq(300))
            }
            Producer::AllocIterOverHint => {
                let b = bump.alloc_iter(TickIter::<T>::new(300, n, true));
                check(&b, seq(300))
            }
            Producer::AllocIterExact => {
                let b = bump.alloc_iter_exact(LyingExact::<T> { next: 300, end: 300 + n as u32, claimed: n, _t: std::marker::PhantomData });
                check(&b, seq(300))
            }
            Producer::AllocIterExactLiesShort => {
                // claims n items but yields n + 2: the surplus must not be written anywhere
                let b = bump.alloc_iter_exact(LyingExact::<T> { next: 300, end: 300 + n as u32 + 2, claimed: n, _t: std::marker::PhantomData });
                let got: Vec<u32> = b.iter().map(|e| e.val()).collect();
                let all: Vec<u32> = (0..n as u32 + 2).map(|i| z(300 + i)).collect();
                if !all.starts_with(&got) || got.len() < n { Err(format!("alloc_iter_exact with an iterator that yields more than it claims produced {:?}", got)) } else { Ok(()) }
            }
            Producer::AllocIterExactLiesLong => {
                // claims n + 2 items but yields n
                let b = bump.alloc_iter_exact(LyingExact::<T> { next: 300, end: 300 + n as u32, claimed: n + 2, _t: std::marker::PhantomData });
                check(&b, seq(300))
            }
            Producer::AllocIterMut => {
                let b = bump.alloc_iter_mut(TickIter::<T>::new(300, n, false));
                check(&b, seq(300))
            }
            Producer::AllocIterMutRev => {
                let b = bump.alloc_iter_mut_rev(TickIter::<T>::new(300, n, false));
                let mut want = seq(300);
                want.reverse();
                check(&b, want)
            }
            Producer::AllocWith => {
                let b: BumpBox<T> = bump.alloc_with(|| {
                    tick();
                    T::new(9)
                });
                if b.val() != z(9) { Err("alloc_with produced a different value".into()) } else { Ok(()) }
            }
            Producer::AllocTryWithOk | Producer::AllocTryWithErr | Producer::AllocTryWithMutOk | Producer::AllocTryWithMutErr => {
                let ok = matches!(c.prod, Producer::AllocTryWithOk | Producer::AllocTryWithMutOk);
                let f = || -> Result<T, T> {
                    tick();
                    if ok { Ok(T::new(9)) } else { Err(T::new(11)) }
                };
                let r = if matches!(c.prod, Producer::AllocTryWithOk | Producer::AllocTryWithErr) { bump.alloc_try_with(f) } else { bump.alloc_try_with_mut(f) };
                match r {
                    Ok(b) if ok && b.val() == z(9) => Ok(()),
                    Err(e) if !ok && e.val() == z(11) => Ok(()),
                    _ => Err(format!("{:?} handed back the wrong value", c.prod)),
                }
            }
        }
    }));
    // disarm without clearing the "fired" flag: the sources are dropped outside the experiment
    let fired = elem::fired();
    elem::arm(-1, false);
    drop(src);
    drop(single);
    FIRED_IN_RUN.with(|f| f.set(fired));
    match r {
        Ok(r) => r,
        Err(p) => {
            if p.is::<InjectedPanic>() {
                Ok(())
            } else {
                Err(format!("unexpected panic: {}", vcore::crash::take_last_panic().unwrap_or_default()))
            }
        }
    }
}

pub fn init_case(c: &InitCase) -> Outcome {
    fn fmt(p: *const ()) -> String {
        format!("replaycase=<<{}>>", unsafe { &*(p as *const InitCase) }.text())
    }
    vcore::crash::with_inflight(c, fmt, || init_case_inner(c))
}

fn init_case_inner(c: &InitCase) -> Outcome {
    slab::select(0);
    slab::reset(0, SlabCfg::default());
    elem::reset();
    let _ = vcore::crash::take_last_panic();
    let r = catch_unwind(AssertUnwindSafe(|| with_cfg!(c.ci, |S| if c.zst { run::<S, Z>(c) } else { run::<S, El>(c) })));
    let callbacks = elem::callbacks();
    let fired = FIRED_IN_RUN.with(|f| f.replace(false));
    let mut msg = match r {
        Ok(Ok(())) => None,
        Ok(Err(m)) => Some(m),
        Err(_) => Some(format!("unexpected panic outside the producer: {}", vcore::crash::take_last_panic().unwrap_or_default())),
    };
    if msg.is_none() {
        let cen = elem::census();
        let leak_ok = c.drops && fired;
        if let Some(f) = elem::flags().first() {
            msg = Some(f.clone());
        } else if cen.dropped_more > 0 {
            msg = Some(format!("{} value(s) were dropped more than once", cen.dropped_more));
        } else if cen.z_live < 0 {
            msg = Some("more zero-sized values dropped than created".into());
        } else if !leak_ok && (cen.alive > 0 || cen.z_live > 0) {
            msg = Some(format!("{} value(s) were never dropped after the result and all sources were gone", cen.alive as i64 + cen.z_live));
        } else {
            let (errs, guards) = slab::with_slab(0, |s| (s.errors.first().cloned(), s.check_guards()));
            if let Some(e) = errs {
                msg = Some(format!("base allocator protocol: {e}"));
            } else if let Err(e) = guards {
                msg = Some(format!("memory outside granted blocks written: {e}"));
            }
        }
    }
    Outcome { callbacks, fired, msg }
}

pub fn explore(thorough: bool) -> (J, Vec<J>) {
    let t0 = Instant::now();
    let max_n = if thorough { 9 } else { 5 };
    let mut viols = Vec::new();
    let (mut runs, mut fired_n, mut refs) = (0u64, 0u64, 0u64);
    let mut samples = Vec::new();
    'outer: for ci in 0..CFGS.len() {
        for prod in PRODUCERS {
            for zst in [false, true] {
                for n in 0..=max_n {
                    let base = InitCase { ci, prod, zst, n, k: None, drops: false };
                    let r0 = init_case(&base);
                    runs += 1;
                    refs += 1;
                    let mut report = |c: &InitCase, m: String, viols: &mut Vec<J>| {
                        viols.push(J::obj().set("prop", "C06").set("cfg", CFGS[c.ci].0).set("params", format!("{:?} zst={} n={} inject={:?} drop_panics={}", c.prod, c.zst, c.n, c.k, c.drops)).set("history", format!("{:?}", c.prod)).set("msg", m).set("replay_args", vec!["--case".to_string(), c.text()]));
                    };
                    if let Some(m) = r0.msg {
                        report(&base, m, &mut viols);
                        if viols.len() >= 8 {
                            break 'outer;
                        }
                        continue;
                    }
                    for drops in [false, true] {
                        // with drops counted there are more callbacks: learn the number first
                        let total = if drops {
                            let c = InitCase { drops: true, k: None, ..base };
                            let r = init_case(&c);
                            runs += 1;
                            r.callbacks
                        } else {
                            r0.callbacks
                        };
                        for k in 0..total {
                            let c = InitCase { k: Some(k), drops, ..base };
                            let r = init_case(&c);
                            runs += 1;
                            if r.fired {
                                fired_n += 1;
                            }
                            if samples.len() < 6 && r.fired && runs % 97 == 0 {
                                samples.push(c.text());
                            }
                            if let Some(m) = r.msg {
                                report(&c, m, &mut viols);
                                if viols.len() >= 8 {
                                    break 'outer;
                                }
                            }
                        }
                    }
                }
            }
        }
    }
    if samples.is_empty() {
        samples.push(InitCase { ci: 0, prod: Producer::InitClone, zst: false, n: 3, k: Some(1), drops: false }.text());
    }
    let cov = J::obj()
        .set("states", refs)
        .set("transitions", runs)
        .set("traces_validated_against_impl", runs)
        .set("evaluations", runs)
        .set("distinct_nontrivial", fired_n)
        .set("rule", "slice / value producers {MaybeUninit slice init_fill, init_fill_with, init_fill_iter (exact, longer, shorter iterator), init_clone, init_move; alloc_slice_clone / fill / fill_with / move, alloc_iter (honest and over-reporting hints), alloc_iter_exact (honest, yielding more, yielding fewer than claimed), alloc_iter_mut(_rev), alloc_with, alloc_try_with(_mut) Ok / Err} x length 0..N x sized / zero-sized elements x 4 arena configurations; one fault-free run (result compared with the expected elements) and one run per user-callback invocation with a panic injected exactly there, again with Drop::drop counted as a callback; afterwards every value ever created was dropped exactly once (leaks only after a Drop panic); non-trivial = injected runs in which the panic fired")
        .set("samples", samples)
        .set("exhaustive", true)
        .set("max_len", max_n);
    let space = J::obj()
        .set("property_id", "C06")
        .set("tier", if thorough { "thorough" } else { "quick" })
        .set("seed", 0)
        .set("level", "fault_enumeration")
        .set("space", "slice-producers")
        .set("coverage", cov)
        .set("wall_s", t0.elapsed().as_secs_f64())
        .set("violations", viols.len())
        .set("floor", 1000)
        .set("floor_ok", fired_n >= 1000 || !viols.is_empty());
    (space, viols)
}

pub fn replay(case: &str) -> Option<String> {
    let rest = case.strip_prefix("boxinit:")?;
    let mut m = std::collections::HashMap::new();
    for item in rest.split(';') {
        if let Some((k, v)) = item.split_once('=') {
            m.insert(k.to_string(), v.to_string());
        }
    }
    let prod = PRODUCERS.into_iter().find(|p| format!("{p:?}") == m["prod"])?;
    let k: i64 = m["k"].parse().ok()?;
    let c = InitCase { ci: m["cfg"].parse().ok()?, prod, zst: m["zst"] == "1", n: m["n"].parse().ok()?, k: if k < 0 { None } else { Some(k as u64) }, drops: m["drops"] == "1" };
    init_case(&c).msg
}
