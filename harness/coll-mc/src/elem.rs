//! Instrumented element types: a registry of every value ever created (drop counts, use-after-drop) and a global
//! countdown that makes the k-th user callback panic (C06).

use std::cell::{Cell, RefCell};

thread_local! {
    /// per serial: 1 = alive, 2 = dropped once, 3+ = dropped more than once
    static STATE: RefCell<Vec<u8>> = const { RefCell::new(Vec::new()) };
    static COUNTDOWN: Cell<i64> = const { Cell::new(-1) };
    static CALLBACKS: Cell<u64> = const { Cell::new(0) };
    static DROP_TICKS: Cell<bool> = const { Cell::new(false) };
    static FLAGS: RefCell<Vec<String>> = const { RefCell::new(Vec::new()) };
    static ZLIVE: Cell<i64> = const { Cell::new(0) };
    static ZCREATED: Cell<u64> = const { Cell::new(0) };
    static FIRED: Cell<bool> = const { Cell::new(false) };
}

pub struct InjectedPanic;

pub fn reset() {
    STATE.with(|s| s.borrow_mut().clear());
    COUNTDOWN.with(|c| c.set(-1));
    CALLBACKS.with(|c| c.set(0));
    DROP_TICKS.with(|c| c.set(false));
    FLAGS.with(|f| f.borrow_mut().clear());
    ZLIVE.with(|c| c.set(0));
    ZCREATED.with(|c| c.set(0));
    FIRED.with(|c| c.set(false));
}

/// the k-th callback from now on panics (k = 0: the next one); negative disables
pub fn arm(k: i64, drops_too: bool) {
    COUNTDOWN.with(|c| c.set(k));
    DROP_TICKS.with(|c| c.set(drops_too));
    FIRED.with(|c| c.set(false));
}

pub fn callbacks() -> u64 {
    CALLBACKS.with(|c| c.get())
}

pub fn fired() -> bool {
    FIRED.with(|c| c.get())
}

/// called at the start of every user callback (Clone::clone, closures, Iterator::next, optionally Drop::drop)
pub fn tick() {
    CALLBACKS.with(|c| c.set(c.get() + 1));
    let fire = COUNTDOWN.with(|c| {
        let v = c.get();
        if v == 0 {
            c.set(-1);
            true
        } else {
            if v > 0 {
                c.set(v - 1);
            }
            false
        }
    });
    if fire {
        FIRED.with(|c| c.set(true));
        std::panic::resume_unwind(Box::new(InjectedPanic));
    }
}

fn flag(msg: String) {
    FLAGS.with(|f| {
        let mut f = f.borrow_mut();
        if f.len() < 4 {
            f.push(msg);
        }
    });
}

pub fn flags() -> Vec<String> {
    FLAGS.with(|f| f.borrow().clone())
}

pub trait ElemT: Sized + 'static {
    const IS_ZST: bool;
    fn new(val: u32) -> Self;
    fn val(&self) -> u32;
    fn dup(&self) -> Self;
}

/// sized element: value + unique serial
#[derive(Debug)]
pub struct El {
    pub val: u32,
    serial: u32,
}

impl ElemT for El {
    const IS_ZST: bool = false;
    fn new(val: u32) -> El {
        let serial = STATE.with(|s| {
            let mut s = s.borrow_mut();
            s.push(1);
            (s.len() - 1) as u32
        });
        El { val, serial }
    }
    fn val(&self) -> u32 {
        self.observe();
        self.val
    }
    fn dup(&self) -> El {
        self.clone()
    }
}

impl El {
    fn observe(&self) {
        let st = STATE.with(|s| s.borrow().get(self.serial as usize).copied().unwrap_or(0));
        if st != 1 {
            flag(format!("value #{} (val {}) was used after it had been dropped or moved out", self.serial, self.val));
        }
    }
}

impl Clone for El {
    fn clone(&self) -> El {
        tick();
        self.observe();
        El::new(self.val)
    }
}

impl PartialEq for El {
    fn eq(&self, o: &El) -> bool {
        tick();
        self.observe();
        o.observe();
        self.val == o.val
    }
}

impl Drop for El {
    fn drop(&mut self) {
        let n = STATE.with(|s| {
            let mut s = s.borrow_mut();
            let e = &mut s[self.serial as usize];
            *e = e.saturating_add(1);
            *e
        });
        if n > 2 {
            flag(format!("value #{} (val {}) was dropped twice", self.serial, self.val));
        }
        if DROP_TICKS.with(|c| c.get()) && !std::thread::panicking() {
            tick();
        }
    }
}

/// zero-sized element with a live counter
#[derive(Debug)]
pub struct Z;

impl ElemT for Z {
    const IS_ZST: bool = true;
    fn new(_val: u32) -> Z {
        ZLIVE.with(|c| c.set(c.get() + 1));
        ZCREATED.with(|c| c.set(c.get() + 1));
        Z
    }
    fn val(&self) -> u32 {
        0
    }
    fn dup(&self) -> Z {
        self.clone()
    }
}
impl Clone for Z {
    fn clone(&self) -> Z {
        tick();
        Z::new(0)
    }
}
impl PartialEq for Z {
    fn eq(&self, _: &Z) -> bool {
        tick();
        true
    }
}
impl Drop for Z {
    fn drop(&mut self) {
        let v = ZLIVE.with(|c| {
            c.set(c.get() - 1);
            c.get()
        });
        if v < 0 {
            flag("more zero-sized values were dropped than created".to_string());
        }
        if DROP_TICKS.with(|c| c.get()) && !std::thread::panicking() {
            tick();
        }
    }
}

#[derive(Debug, Default, Clone, Copy)]
pub struct Census {
    pub created: u64,
    pub alive: u64,
    pub dropped_once: u64,
    pub dropped_more: u64,
    pub z_live: i64,
    pub z_created: u64,
}

pub fn census() -> Census {
    let mut c = Census::default();
    STATE.with(|s| {
        for &e in s.borrow().iter() {
            c.created += 1;
            match e {
                1 => c.alive += 1,
                2 => c.dropped_once += 1,
                _ => c.dropped_more += 1,
            }
        }
    });
    c.z_live = ZLIVE.with(|c| c.get());
    c.z_created = ZCREATED.with(|c| c.get());
    c
}


/// The range `s..e` written with other bound kinds (all denote the same indices):
/// 0 = `s..e`, 1 = (Excluded(s-1), Excluded(e)), 2 = (Included(s), Included(e-1)), 3 = (Excluded(s-1), Included(e-1)),
/// 4 = unbounded where possible (start if s == 0, end if e == len). Forms that cannot express the pair fall back to 0.
pub fn bounds(form: usize, s: usize, e: usize, len: usize) -> (std::ops::Bound<usize>, std::ops::Bound<usize>) {
    use std::ops::Bound::*;
    let lo_ex = |s: usize| if s >= 1 { Excluded(s - 1) } else { Included(s) };
    let hi_in = |e: usize| if e >= 1 { Included(e - 1) } else { Excluded(e) };
    match form {
        1 => (lo_ex(s), Excluded(e)),
        2 => (Included(s), hi_in(e)),
        3 => (lo_ex(s), hi_in(e)),
        4 => (if s == 0 { Unbounded } else { Included(s) }, if e == len { Unbounded } else { Excluded(e) }),
        _ => (Included(s), Excluded(e)),
    }
}

/// does `form` write `s..e` differently from form 0?
pub fn bounds_form_applies(form: usize, s: usize, e: usize, len: usize) -> bool {
    match form {
        0 => true,
        1 => s >= 1,
        2 => e >= 1,
        3 => s >= 1 && e >= 1,
        4 => s == 0 || e == len,
        _ => false,
    }
}
