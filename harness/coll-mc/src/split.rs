//! C16 (split / merge partitions) and the collection part of C07 (allocation failure inside collection growth).

use crate::elem::{self, El, ElemT, Z};
use crate::{CFGS, with_cfg};
use bump_scope::settings::{BumpAllocatorSettings, BumpSettings};
use bump_scope::traits::BumpAllocatorTyped;
use bump_scope::{BaseAllocator, Bump, BumpBox, BumpVec, FixedBumpVec, MutBumpVec, MutBumpVecRev};
use std::panic::{AssertUnwindSafe, catch_unwind};
use std::sync::Mutex;
use std::sync::atomic::{AtomicBool, AtomicU64, AtomicUsize, Ordering};
use std::time::Instant;
use vcore::json::J;
use vcore::slab::{self, SlabCfg, SlabZ};

type B<S> = Bump<SlabZ, S>;

// =====================================================================================================
// C16
// =====================================================================================================

#[derive(Clone, Copy, Debug, PartialEq, Eq)]
enum Container {
    Boxed,
    Fixed,
    Vec,
}

#[derive(Clone, Copy, Debug, PartialEq, Eq)]
enum SplitOp {
    SplitOff(usize, usize),
    /// split_off with the range written with other bound kinds (elem::bounds form 1..=4)
    SplitOffB(usize, usize, usize),
    SplitAt(usize),
    SplitFirst,
    SplitLast,
    SplitOffFirst,
    SplitOffLast,
    Partition(u8),
    SplitAtSpare,
    IntoFlattened,
    MapInPlace,
}

#[derive(Clone, Copy, Debug, PartialEq, Eq)]
enum Follow {
    Push(usize),
    PushMany(usize),
    Shrink(usize),
    Truncate(usize),
    Clear(usize),
    Drop(usize),
    IntoBox(usize),
    Dealloc(usize),
    PopOne(usize),
    MergeBack,
    MergeWrongOrder,
    AllocBetween,
}

/// one part of a split container
enum Part<'b, T, S: BumpAllocatorSettings>
where
    SlabZ: BaseAllocator<S::GuaranteedAllocated>,
{
    Boxed(BumpBox<'b, [T]>),
    One(BumpBox<'b, T>),
    Fixed(FixedBumpVec<'b, T>),
    Vec(BumpVec<T, &'b B<S>>),
    Gone,
}

impl<'b, T: ElemT, S: BumpAllocatorSettings> Part<'b, T, S>
where
    SlabZ: BaseAllocator<S::GuaranteedAllocated>,
{
    fn vals(&self) -> Vec<u32> {
        match self {
            Part::Boxed(b) => b.iter().map(|e| e.val()).collect(),
            Part::One(b) => vec![b.val()],
            Part::Fixed(v) => v.iter().map(|e| e.val()).collect(),
            Part::Vec(v) => v.iter().map(|e| e.val()).collect(),
            Part::Gone => Vec::new(),
        }
    }
    fn capacity(&self) -> Option<usize> {
        match self {
            Part::Fixed(v) => Some(v.capacity()),
            Part::Vec(v) => Some(v.capacity()),
            _ => None,
        }
    }
    fn range(&self) -> (usize, usize) {
        let (p, n) = match self {
            Part::Boxed(b) => (b.as_ptr() as usize, b.len()),
            Part::One(b) => (&**b as *const T as usize, 1),
            Part::Fixed(v) => (v.as_ptr() as usize, v.capacity()),
            Part::Vec(v) => (v.as_ptr() as usize, v.capacity()),
            Part::Gone => (0, 0),
        };
        (p, p + n * size_of::<T>())
    }
}

struct SplitCase {
    ci: usize,
    container: Container,
    zst: bool,
    n: usize,
    extra_cap: usize,
    op: SplitOp,
    follow: Vec<Follow>,
}

impl SplitCase {
    fn text(&self) -> String {
        format!("split:cfg={};cont={:?};zst={};n={};extra={};op={:?};follow={:?}", self.ci, self.container, self.zst as u8, self.n, self.extra_cap, self.op, self.follow)
    }
}

fn run_split<S, T>(c: &SplitCase) -> Result<bool, String>
where
    S: BumpAllocatorSettings + 'static,
    T: ElemT + Clone + PartialEq,
    SlabZ: BaseAllocator<S::GuaranteedAllocated>,
{
    let bump: B<S> = Bump::new_in(SlabZ);
    let _ = bump.alloc(0u8);
    let orig: Vec<u32> = (1..=c.n as u32).map(|v| if T::IS_ZST { 0 } else { v }).collect();
    let mk = || (1..=c.n as u32).map(T::new);
    let cap0;
    // ---- build the whole
    let whole: Part<'_, T, S> = match c.container {
        Container::Boxed => {
            cap0 = c.n;
            Part::Boxed(bump.alloc_iter(mk()))
        }
        Container::Fixed => {
            let mut v = FixedBumpVec::with_capacity_in(c.n + c.extra_cap, &bump);
            for e in mk() {
                v.push(e);
            }
            cap0 = v.capacity();
            Part::Fixed(v)
        }
        Container::Vec => {
            let mut v: BumpVec<T, &B<S>> = BumpVec::with_capacity_in(c.n + c.extra_cap, &bump);
            for e in mk() {
                v.push(e);
            }
            cap0 = v.capacity();
            Part::Vec(v)
        }
    };
    // ---- split, with the model of what each part must contain
    let n = c.n;
    let mut expect: Vec<Vec<u32>> = Vec::new();
    let mut ordered = true;
    let mut model_panics = false;
    match c.op {
        SplitOp::SplitOff(s, e) | SplitOp::SplitOffB(_, s, e) => {
            if s > e || e > n {
                model_panics = true;
            } else {
                let mut a = orig.clone();
                let b: Vec<u32> = a.drain(s..e).collect();
                expect = vec![a, b];
            }
        }
        SplitOp::SplitAt(at) => {
            if at > n {
                model_panics = true;
            } else {
                expect = vec![orig[..at].to_vec(), orig[at..].to_vec()];
            }
        }
        SplitOp::SplitFirst | SplitOp::SplitOffFirst => {
            if n > 0 {
                expect = vec![vec![orig[0]], orig[1..].to_vec()];
            }
        }
        SplitOp::SplitLast | SplitOp::SplitOffLast => {
            if n > 0 {
                expect = vec![vec![orig[n - 1]], orig[..n - 1].to_vec()];
            }
        }
        SplitOp::Partition(mask) => {
            let t: Vec<u32> = orig.iter().copied().enumerate().filter(|(i, _)| mask >> (i % 8) & 1 == 1).map(|x| x.1).collect();
            let f: Vec<u32> = orig.iter().copied().enumerate().filter(|(i, _)| mask >> (i % 8) & 1 == 0).map(|x| x.1).collect();
            expect = if T::IS_ZST {
                // zero-sized values are indistinguishable: the predicate answers the same for all of them
                if mask & 1 == 1 { vec![orig.clone(), vec![]] } else { vec![vec![], orig.clone()] }
            } else {
                vec![t, f]
            };
            ordered = false;
        }
        SplitOp::SplitAtSpare => expect = vec![orig.clone()],
        SplitOp::IntoFlattened => expect = vec![orig.clone()],
        SplitOp::MapInPlace => expect = vec![orig.iter().map(|v| if T::IS_ZST { 0 } else { v + 1000 }).collect()],
    }
    let mut parts: Vec<Part<'_, T, S>> = Vec::new();
    let res = catch_unwind(AssertUnwindSafe(|| -> Option<Vec<Part<'_, T, S>>> {
        Some(match (whole, c.op) {
            (Part::Boxed(mut b), SplitOp::SplitOff(s, e)) => {
                let o = b.split_off(s..e);
                vec![Part::Boxed(b), Part::Boxed(o)]
            }
            (Part::Fixed(mut v), SplitOp::SplitOff(s, e)) => {
                let o = v.split_off(s..e);
                vec![Part::Fixed(v), Part::Fixed(o)]
            }
            (Part::Vec(mut v), SplitOp::SplitOff(s, e)) => {
                let o = v.split_off(s..e);
                vec![Part::Vec(v), Part::Vec(o)]
            }
            (Part::Boxed(mut b), SplitOp::SplitOffB(f, s, e)) => {
                let o = b.split_off(crate::elem::bounds(f, s, e, n));
                vec![Part::Boxed(b), Part::Boxed(o)]
            }
            (Part::Fixed(mut v), SplitOp::SplitOffB(f, s, e)) => {
                let o = v.split_off(crate::elem::bounds(f, s, e, n));
                vec![Part::Fixed(v), Part::Fixed(o)]
            }
            (Part::Vec(mut v), SplitOp::SplitOffB(f, s, e)) => {
                let o = v.split_off(crate::elem::bounds(f, s, e, n));
                vec![Part::Vec(v), Part::Vec(o)]
            }
            (Part::Boxed(b), SplitOp::SplitAt(at)) => {
                let (l, r) = b.split_at(at);
                vec![Part::Boxed(l), Part::Boxed(r)]
            }
            (Part::Boxed(b), SplitOp::SplitFirst) => match b.split_first() {
                Some((f, r)) => vec![Part::One(f), Part::Boxed(r)],
                None => vec![],
            },
            (Part::Boxed(b), SplitOp::SplitLast) => match b.split_last() {
                Some((l, r)) => vec![Part::One(l), Part::Boxed(r)],
                None => vec![],
            },
            (Part::Boxed(mut b), SplitOp::SplitOffFirst) => match b.split_off_first() {
                Some(f) => vec![Part::One(f), Part::Boxed(b)],
                None => {
                    drop(b);
                    vec![]
                }
            },
            (Part::Boxed(mut b), SplitOp::SplitOffLast) => match b.split_off_last() {
                Some(l) => vec![Part::One(l), Part::Boxed(b)],
                None => {
                    drop(b);
                    vec![]
                }
            },
            (Part::Boxed(b), SplitOp::Partition(mask)) => {
                // the predicate may be called in any order: decide by value, not by call index
                let sel: Vec<u32> = expect[0].clone();
                let _ = mask;
                let (t, f) = b.partition(|e| {
                    elem::tick();
                    if T::IS_ZST { mask & 1 == 1 } else { sel.contains(&e.val()) }
                });
                vec![Part::Boxed(t), Part::Boxed(f)]
            }
            (Part::Fixed(v), SplitOp::SplitAtSpare) => {
                let (init, spare) = v.split_at_spare();
                let spare_len = spare.len();
                if !T::IS_ZST && init.len() + spare_len != cap0 {
                    std::panic::panic_any(crate::vecs::OracleFail(format!("split_at_spare: {} initialized + {} spare != capacity {}", init.len(), spare_len, cap0)));
                }
                // the spare part is usable memory: fill it with fresh values through a new fixed vector
                let mut sv = FixedBumpVec::from_uninit(spare);
                for i in 0..spare_len.min(2) {
                    sv.push(T::new(900 + i as u32));
                }
                let sv_vals: Vec<u32> = sv.iter().map(|e| e.val()).collect();
                if sv_vals.len() != spare_len.min(2) {
                    std::panic::panic_any(crate::vecs::OracleFail("spare part lost elements".into()));
                }
                drop(sv);
                vec![Part::Boxed(init)]
            }
            (Part::Boxed(b), SplitOp::MapInPlace) => vec![Part::Boxed(b.map_in_place(|e| {
                elem::tick();
                T::new(e.val() + 1000)
            }))],
            (Part::Fixed(v), SplitOp::MapInPlace) => vec![Part::Fixed(v.map_in_place(|e| {
                elem::tick();
                T::new(e.val() + 1000)
            }))],
            (other, _) => {
                drop(other);
                return None;
            }
        })
    }));
    match res {
        Ok(None) => return Ok(false),
        Ok(Some(p)) => {
            if model_panics {
                return Err(format!("{:?} must panic (invalid range) but returned", c.op));
            }
            parts = p;
        }
        Err(p) => {
            if let Some(o) = p.downcast_ref::<crate::vecs::OracleFail>() {
                return Err(o.0.clone());
            }
            if !model_panics {
                return Err(format!("{:?} panicked: {}", c.op, vcore::crash::take_last_panic().unwrap_or_default()));
            }
            return Ok(false);
        }
    }
    if matches!(c.op, SplitOp::SplitFirst | SplitOp::SplitLast | SplitOp::SplitOffFirst | SplitOp::SplitOffLast) && n == 0 {
        if !parts.is_empty() {
            return Err("splitting the first/last element off an empty slice returned something".into());
        }
        return Ok(false);
    }
    // ---- partition oracle
    let check = |parts: &Vec<Part<'_, T, S>>, expect: &Vec<Vec<u32>>, what: &str| -> Result<(), String> {
        for (i, (p, e)) in parts.iter().zip(expect.iter()).enumerate() {
            let mut v = p.vals();
            let mut e = e.clone();
            if !ordered && what.starts_with("Partition") {
                v.sort_unstable();
                e.sort_unstable();
            }
            if v != e {
                return Err(format!("{what}: part {i} contains {:?}, expected {:?}", p.vals(), e));
            }
        }
        // parts must not share memory
        if !T::IS_ZST {
            for i in 0..parts.len() {
                for j in i + 1..parts.len() {
                    let (a, b) = (parts[i].range(), parts[j].range());
                    if a.0 < b.1 && b.0 < a.1 && a.0 != a.1 && b.0 != b.1 {
                        return Err(format!("{what}: parts {i} and {j} overlap in memory ({:#x}..{:#x} and {:#x}..{:#x})", a.0, a.1, b.0, b.1));
                    }
                }
            }
        }
        Ok(())
    };
    if parts.len() != expect.len() {
        return Err(format!("{:?}: produced {} parts, expected {}", c.op, parts.len(), expect.len()));
    }
    check(&parts, &expect, &format!("{:?}", c.op))?;
    if !ordered {
        // partition does not document the order inside each part: adopt the actual order (the multiset was verified)
        for (e, p) in expect.iter_mut().zip(parts.iter()) {
            *e = p.vals();
        }
    }
    if !T::IS_ZST && matches!(c.op, SplitOp::SplitOff(..) | SplitOp::SplitOffB(..)) {
        if let (Some(a), Some(b)) = (parts[0].capacity(), parts[1].capacity()) {
            if a + b != cap0 {
                return Err(format!("{:?}: capacities {a} + {b} do not add up to the original capacity {cap0}", c.op));
            }
        }
    }
    // ---- follow-up operations: each part is independent
    for f in &c.follow {
        let idx = match *f {
            Follow::Push(i) | Follow::PushMany(i) | Follow::Shrink(i) | Follow::Truncate(i) | Follow::Clear(i) | Follow::Drop(i) | Follow::IntoBox(i) | Follow::Dealloc(i) | Follow::PopOne(i) => i,
            _ => 0,
        };
        if idx >= parts.len() {
            return Ok(true);
        }
        match *f {
            Follow::Push(i) | Follow::PushMany(i) => {
                let k = if matches!(f, Follow::PushMany(_)) { 6 } else { 1 };
                match &mut parts[i] {
                    Part::Vec(v) => {
                        for j in 0..k {
                            v.push(T::new(300 + j));
                            expect[i].push(if T::IS_ZST { 0 } else { 300 + j });
                        }
                    }
                    Part::Fixed(v) => {
                        for j in 0..k {
                            if v.len() < v.capacity() {
                                v.push(T::new(300 + j));
                                expect[i].push(if T::IS_ZST { 0 } else { 300 + j });
                            }
                        }
                    }
                    _ => return Ok(true),
                }
            }
            Follow::Shrink(i) => match &mut parts[i] {
                Part::Vec(v) => v.shrink_to_fit(),
                _ => return Ok(true),
            },
            Follow::Truncate(i) => {
                match &mut parts[i] {
                    Part::Vec(v) => v.truncate(1),
                    Part::Fixed(v) => v.truncate(1),
                    Part::Boxed(b) => b.truncate(1),
                    _ => return Ok(true),
                }
                expect[i].truncate(1);
            }
            Follow::Clear(i) => {
                match &mut parts[i] {
                    Part::Vec(v) => v.clear(),
                    Part::Fixed(v) => v.clear(),
                    Part::Boxed(b) => b.clear(),
                    _ => return Ok(true),
                }
                expect[i].clear();
            }
            Follow::PopOne(i) => {
                let got = match &mut parts[i] {
                    Part::Vec(v) => v.pop().map(|e| e.val()),
                    Part::Fixed(v) => v.pop().map(|e| e.val()),
                    Part::Boxed(b) => b.pop().map(|e| e.val()),
                    _ => return Ok(true),
                };
                if got != expect[i].pop() {
                    return Err(format!("pop on part {i} returned {:?}", got));
                }
            }
            Follow::Drop(i) => {
                parts[i] = Part::Gone;
                expect[i].clear();
            }
            Follow::IntoBox(i) => {
                let p = std::mem::replace(&mut parts[i], Part::Gone);
                parts[i] = match p {
                    Part::Vec(v) => Part::Boxed(v.into_boxed_slice()),
                    Part::Fixed(v) => Part::Boxed(v.into_boxed_slice()),
                    other => other,
                };
            }
            Follow::Dealloc(i) => {
                let p = std::mem::replace(&mut parts[i], Part::Gone);
                match p {
                    Part::Boxed(b) => bump.dealloc(b),
                    Part::One(b) => bump.dealloc(b),
                    Part::Vec(v) => drop(v),
                    Part::Fixed(v) => bump.dealloc(v.into_boxed_slice()),
                    Part::Gone => {}
                }
                expect[i].clear();
            }
            Follow::AllocBetween => {
                // a fresh allocation must not land on either part
                let fresh = bump.alloc_slice_copy(&[0xEEu8; 24]);
                let fr = (fresh.as_ptr() as usize, fresh.as_ptr() as usize + 24);
                for (i, p) in parts.iter().enumerate() {
                    let r = p.range();
                    if !T::IS_ZST && r.0 != r.1 && fr.0 < r.1 && r.0 < fr.1 {
                        return Err(format!("a new allocation overlaps part {i}"));
                    }
                }
            }
            Follow::MergeBack | Follow::MergeWrongOrder => {
                if parts.len() != 2 || !matches!(c.op, SplitOp::SplitAt(_)) {
                    return Ok(true);
                }
                let wrong = matches!(f, Follow::MergeWrongOrder);
                let b1 = std::mem::replace(&mut parts[1], Part::Gone);
                let b0 = std::mem::replace(&mut parts[0], Part::Gone);
                let (Part::Boxed(l), Part::Boxed(r)) = (b0, b1) else { return Ok(true) };
                let (ll, rl) = (l.len(), r.len());
                // ground truth of adjacency in the order the merge is attempted (a part that was shortened since the
                // split no longer touches its sibling)
                let l_end = l.as_ptr() as usize + ll * size_of::<T>();
                let r_end = r.as_ptr() as usize + rl * size_of::<T>();
                let adjacent = if wrong { r_end == l.as_ptr() as usize } else { l_end == r.as_ptr() as usize };
                let res = catch_unwind(AssertUnwindSafe(|| if wrong { r.merge(l) } else { l.merge(r) }));
                match res {
                    Ok(m) => {
                        // non-adjacent parts must be rejected; adjacency holds trivially when one side is empty
                        // (or for zero-sized elements, which have no addresses)
                        if !adjacent && !T::IS_ZST {
                            return Err(format!("merge accepted two parts that are not adjacent (lens {ll}, {rl}, wrong order: {wrong})"));
                        }
                        let mut e = if wrong { let mut x = expect[1].clone(); x.extend(expect[0].clone()); x } else { let mut x = expect[0].clone(); x.extend(expect[1].clone()); x };
                        let mut got: Vec<u32> = m.iter().map(|e| e.val()).collect();
                        if wrong {
                            got.sort_unstable();
                            e.sort_unstable();
                        }
                        if got != e {
                            return Err(format!("merge produced {:?}, expected {:?}", got, e));
                        }
                        parts[0] = Part::Boxed(m);
                        expect[0] = e;
                        expect[1].clear();
                    }
                    Err(_) => {
                        if adjacent || T::IS_ZST {
                            return Err(format!("merge of adjacent parts panicked: {}", vcore::crash::take_last_panic().unwrap_or_default()));
                        }
                        expect[0].clear();
                        expect[1].clear();
                    }
                }
            }
        }
        check(&parts, &expect, &format!("after {:?}", f))?;
    }
    drop(parts);
    Ok(true)
}

fn split_case(c: &SplitCase) -> Result<bool, String> {
    fn fmt(p: *const ()) -> String {
        format!("replaycase=<<{}>>", unsafe { &*(p as *const SplitCase) }.text())
    }
    vcore::crash::with_inflight(c, fmt, || split_case_inner(c))
}

fn split_case_inner(c: &SplitCase) -> Result<bool, String> {
    slab::select(0);
    slab::reset(0, SlabCfg::default());
    elem::reset();
    let _ = vcore::crash::take_last_panic();
    let r = catch_unwind(AssertUnwindSafe(|| with_cfg!(c.ci, |S| if c.zst { run_split::<S, Z>(c) } else { run_split::<S, El>(c) })));
    let r = match r {
        Ok(r) => r,
        Err(_) => Err(format!("unexpected panic: {}", vcore::crash::take_last_panic().unwrap_or_default())),
    };
    let ran = r?;
    let flags = elem::flags();
    let cen = elem::census();
    if let Some(f) = flags.first() {
        return Err(f.clone());
    }
    if cen.dropped_more > 0 {
        return Err(format!("{} value(s) dropped more than once", cen.dropped_more));
    }
    if cen.alive > 0 || cen.z_live != 0 {
        return Err(format!("{} value(s) never dropped after all parts were gone", cen.alive as i64 + cen.z_live));
    }
    let (errs, guards) = slab::with_slab(0, |s| (s.errors.first().cloned(), s.check_guards()));
    if let Some(e) = errs {
        return Err(format!("base allocator protocol: {e}"));
    }
    if let Err(e) = guards {
        return Err(format!("memory outside granted blocks written: {e}"));
    }
    Ok(ran)
}

fn follow_alphabet() -> Vec<Follow> {
    let mut v = vec![Follow::MergeBack, Follow::MergeWrongOrder, Follow::AllocBetween];
    for i in 0..2 {
        v.extend([Follow::Push(i), Follow::PushMany(i), Follow::Shrink(i), Follow::Truncate(i), Follow::Clear(i), Follow::Drop(i), Follow::IntoBox(i), Follow::Dealloc(i), Follow::PopOne(i)]);
    }
    v
}

pub fn explore(thorough: bool, deadline: Instant) -> (J, Vec<J>) {
    let t0 = Instant::now();
    let max_n = if thorough { 5 } else { 4 };
    let depth = if thorough { 4 } else { 3 };
    // longer slices (all three rotate branches of split_off need len >= 5) with follow-up depth 1
    let wide_n = if thorough { 12 } else { 9 };
    let fa = follow_alphabet();
    let mut heads: Vec<(usize, Container, bool, usize, usize, SplitOp)> = Vec::new();
    for ci in 0..CFGS.len() {
        for cont in [Container::Boxed, Container::Fixed, Container::Vec] {
            for zst in [false, true] {
                for n in 0..=wide_n {
                    for extra in 0..=2usize {
                        if cont == Container::Boxed && extra > 0 {
                            continue;
                        }
                        let mut ops = Vec::new();
                        for s in 0..=n + 1 {
                            for e in 0..=n + 1 {
                                if s > e && s != e + 1 {
                                    continue;
                                }
                                ops.push(SplitOp::SplitOff(s, e));
                                for form in 1..=4usize {
                                    if crate::elem::bounds_form_applies(form, s, e, n) {
                                        ops.push(SplitOp::SplitOffB(form, s, e));
                                    }
                                }
                            }
                        }
                        if cont == Container::Boxed {
                            for at in 0..=n + 1 {
                                ops.push(SplitOp::SplitAt(at));
                            }
                            ops.extend([SplitOp::SplitFirst, SplitOp::SplitLast, SplitOp::SplitOffFirst, SplitOp::SplitOffLast, SplitOp::MapInPlace]);
                            for mask in [0u8, 0b0101, 0b0110, 0xff] {
                                ops.push(SplitOp::Partition(mask));
                            }
                        }
                        if cont == Container::Fixed {
                            ops.extend([SplitOp::SplitAtSpare, SplitOp::MapInPlace]);
                        }
                        for op in ops {
                            heads.push((ci, cont, zst, n, extra, op));
                        }
                    }
                }
            }
        }
    }
    let evals = AtomicU64::new(0);
    let nontriv = AtomicU64::new(0);
    let viols: Mutex<Vec<J>> = Mutex::new(Vec::new());
    let samples: Mutex<Vec<String>> = Mutex::new(Vec::new());
    let stop = AtomicBool::new(false);
    let capped = AtomicBool::new(false);
    let next = AtomicUsize::new(0);
    let threads = std::thread::available_parallelism().map_or(8, |n| n.get());
    std::thread::scope(|sc| {
        for _ in 0..threads {
            sc.spawn(|| {
                loop {
                    let i = next.fetch_add(1, Ordering::Relaxed);
                    if i >= heads.len() || stop.load(Ordering::Relaxed) {
                        break;
                    }
                    let (ci, container, zst, n, extra_cap, op) = heads[i];
                    // all follow-up sequences of length <= depth
                    let mut stack: Vec<Vec<Follow>> = vec![vec![]];
                    while let Some(follow) = stack.pop() {
                        if Instant::now() > deadline {
                            capped.store(true, Ordering::Relaxed);
                            stop.store(true, Ordering::Relaxed);
                            break;
                        }
                        let c = SplitCase { ci, container, zst, n, extra_cap, op, follow: follow.clone() };
                        let r = split_case(&c);
                        let e = evals.fetch_add(1, Ordering::Relaxed);
                        if e % 100_003 == 17 {
                            let mut s = samples.lock().unwrap();
                            if s.len() < 12 {
                                s.push(c.text());
                            }
                        }
                        match r {
                            Ok(true) => {
                                nontriv.fetch_add(1, Ordering::Relaxed);
                                if follow.len() < if n > max_n { 1 } else { depth } {
                                    for f in &fa {
                                        let mut f2 = follow.clone();
                                        f2.push(*f);
                                        stack.push(f2);
                                    }
                                }
                            }
                            Ok(false) => {}
                            Err(m) => {
                                let mut v = viols.lock().unwrap();
                                v.push(J::obj().set("prop", "C16").set("cfg", CFGS[ci].0).set("params", format!("{container:?} zst={zst} n={n} extra_cap={extra_cap}")).set("history", format!("{op:?} then {follow:?}")).set("msg", m).set("replay_args", vec!["--case".to_string(), c.text()]));
                                if v.len() >= 8 {
                                    stop.store(true, Ordering::Relaxed);
                                }
                            }
                        }
                    }
                }
            });
        }
    });
    let viols = viols.into_inner().unwrap();
    let mut samples = samples.into_inner().unwrap();
    if samples.is_empty() {
        samples.push(SplitCase { ci: 0, container: Container::Boxed, zst: false, n: 3, extra_cap: 0, op: SplitOp::SplitAt(1), follow: vec![Follow::MergeBack] }.text());
    }
    let ev = evals.load(Ordering::Relaxed);
    let nt = nontriv.load(Ordering::Relaxed);
    let cov = J::obj()
        .set("states", nt)
        .set("transitions", ev)
        .set("traces_validated_against_impl", ev)
        .set("evaluations", ev)
        .set("distinct_nontrivial", nt)
        .set("rule", "every split operation (split_off with every start/end pair incl. invalid ones, split_at, split_first/last, split_off_first/last, partition masks, split_at_spare, map_in_place) on BumpBox<[T]>, FixedBumpVec and BumpVec of every length 0..N (and up to a larger N' with follow-up depth 1) and extra capacity 0..2, sized and zero-sized elements, 4 arena configurations, followed by every sequence (depth bound) of follow-up operations on the parts (push until growth, shrink, truncate, clear, pop, drop, into_boxed_slice, dealloc, merge back, merge in the wrong order, a fresh allocation); after every step each part must hold exactly its expected elements, parts must not share memory, capacities must add up, and at the end every value was dropped exactly once; non-trivial = cases whose split was valid and whose follow-ups were applicable")
        .set("samples", samples)
        .set("exhaustive", !capped.load(Ordering::Relaxed))
        .set("max_len", max_n)
        .set("followup_depth", depth)
        .set("max_len_with_followup_depth_1", wide_n);
    let space = J::obj()
        .set("property_id", "C16")
        .set("tier", if thorough { "thorough" } else { "quick" })
        .set("seed", 0)
        .set("level", "model_checking")
        .set("space", "split-merge")
        .set("coverage", cov)
        .set("wall_s", t0.elapsed().as_secs_f64())
        .set("violations", viols.len())
        .set("floor", 1000)
        .set("floor_ok", nt >= 1000 || !viols.is_empty() || capped.load(Ordering::Relaxed));
    (space, viols)
}

// =====================================================================================================
// C07, collection part: allocation failure inside collection growth
// =====================================================================================================

#[derive(Clone, Copy, Debug, PartialEq, Eq)]
enum GKind {
    Vec,
    MutVec,
    MutVecRev,
}

#[derive(Clone, Copy, Debug, PartialEq, Eq)]
enum TryOp {
    Push,
    PushWith,
    Insert(usize),
    Reserve(usize),
    ReserveExact(usize),
    ExtendClone(usize),
    ExtendWithin,
    Append(usize),
    Resize(usize),
    ResizeWith(usize),
}

struct FailCase {
    ci: usize,
    kind: GKind,
    zst: bool,
    n: usize,
    /// fail the k-th base-allocator call counted from the moment the collection exists (0 = the next one), and every later one if `all`
    k: u32,
    all: bool,
    op: TryOp,
    /// the arena owns a second, currently unused chunk (left behind by an earlier scope) when the collection is created
    retained: bool,
    /// finalise right after the failed operation (no further push in between)
    direct: bool,
}
impl FailCase {
    fn text(&self) -> String {
        format!("fail:cfg={};kind={:?};zst={};n={};k={};all={};ret={};direct={};op={:?}", self.ci, self.kind, self.zst as u8, self.n, self.k, self.all as u8, self.retained as u8, self.direct as u8, self.op)
    }
}

macro_rules! try_ops {
    ($v:ident, $op:expr, $T:ty, $rev:expr, $model:ident) => {{
        let n = $model.len();
        let z = |x: u32| if <$T>::IS_ZST { 0 } else { x };
        match $op {
            TryOp::Push => $v.try_push(<$T>::new(41)).map(|_| if $rev { $model.insert(0, z(41)) } else { $model.push(z(41)) }),
            TryOp::PushWith => $v.try_push_with(|| <$T>::new(42)).map(|_| if $rev { $model.insert(0, z(42)) } else { $model.push(z(42)) }),
            TryOp::Insert(i) => {
                let i = i.min(n);
                $v.try_insert(i, <$T>::new(43)).map(|_| $model.insert(i, z(43)))
            }
            TryOp::Reserve(k) => $v.try_reserve(k),
            TryOp::ReserveExact(k) => $v.try_reserve_exact(k),
            TryOp::ExtendClone(c) => {
                let src: Vec<$T> = (0..c as u32).map(|i| <$T>::new(500 + i)).collect();
                let vals: Vec<u32> = (0..c as u32).map(|i| z(500 + i)).collect();
                $v.try_extend_from_slice_clone(&src).map(|_| if $rev { $model.splice(0..0, vals); } else { $model.extend(vals) })
            }
            TryOp::ExtendWithin => {
                let vals: Vec<u32> = $model.clone();
                $v.try_extend_from_within_clone(..).map(|_| if $rev { $model.splice(0..0, vals); } else { $model.extend(vals) })
            }
            TryOp::Append(c) => {
                let src: Vec<$T> = (0..c as u32).map(|i| <$T>::new(700 + i)).collect();
                let vals: Vec<u32> = (0..c as u32).map(|i| z(700 + i)).collect();
                $v.try_append(src).map(|_| if $rev { $model.splice(0..0, vals); } else { $model.extend(vals) })
            }
            TryOp::Resize(k) => $v.try_resize(n + k, <$T>::new(44)).map(|_| {
                for _ in 0..k {
                    if $rev { $model.insert(0, z(44)) } else { $model.push(z(44)) }
                }
            }),
            TryOp::ResizeWith(k) => $v.try_resize_with(n + k, || <$T>::new(45)).map(|_| {
                for _ in 0..k {
                    if $rev { $model.insert(0, z(45)) } else { $model.push(z(45)) }
                }
            }),
        }
    }};
}

fn run_fail<S, T>(c: &FailCase) -> Result<bool, String>
where
    S: BumpAllocatorSettings + 'static,
    T: ElemT + Clone + PartialEq,
    SlabZ: BaseAllocator<S::GuaranteedAllocated>,
{
    let mut bump: B<S> = Bump::new_in(SlabZ);
    if c.retained {
        bump.scoped(|s| {
            let rem = s.stats().remaining();
            let _ = s.alloc_slice_fill(rem + 1, 0u8);
        });
    }
    let _ = bump.alloc(0u8);
    let mut model: Vec<u32> = (1..=c.n as u32).map(|v| if T::IS_ZST { 0 } else { v }).collect();
    let arm = |c: &FailCase| {
        slab::with_slab(0, |s| {
            let base = s.calls + c.k;
            let bit = base.min(63);
            s.cfg.fail_mask = if c.all { !0u64 << bit } else { 1u64 << bit };
            s.refused
        })
    };
    let disarm = || slab::with_slab(0, |s| s.cfg.fail_mask = 0);
    macro_rules! scenario {
        ($v:ident, $rev:expr) => {{
            let refused0 = arm(c);
            let before = model.clone();
            let r = catch_unwind(AssertUnwindSafe(|| try_ops!($v, c.op, T, $rev, model)));
            let refused1 = slab::with_slab(0, |s| s.refused);
            disarm();
            let r = match r {
                Ok(r) => r,
                Err(_) => return Err(format!("{:?} panicked although the base allocator only refused memory: {}", c.op, vcore::crash::take_last_panic().unwrap_or_default())),
            };
            let got: Vec<u32> = $v.iter().map(|e| e.val()).collect();
            let failed = r.is_err();
            if failed {
                if refused1 == refused0 {
                    return Err(format!("{:?} returned Err although the base allocator refused nothing", c.op));
                }
                if got != before || $v.len() != before.len() {
                    return Err(format!("{:?} failed but changed the collection: {:?} (before {:?})", c.op, got, before));
                }
                model = before;
            } else if got != model {
                return Err(format!("{:?} succeeded with contents {:?}, expected {:?}", c.op, got, model));
            }
            // the collection keeps working afterwards
            if !c.direct {
                if let Err(_) = $v.try_push(T::new(99)) {
                    return Err("try_push after the fault was lifted failed".into());
                }
                if $rev { model.insert(0, if T::IS_ZST { 0 } else { 99 }) } else { model.push(if T::IS_ZST { 0 } else { 99 }) }
            }
            let got: Vec<u32> = $v.iter().map(|e| e.val()).collect();
            if got != model {
                return Err(format!("after the failed {:?} and one more push the contents are {:?}, expected {:?}", c.op, got, model));
            }
            // finalising after the failure hands out exactly the contents
            let boxed = $v.into_boxed_slice();
            let got: Vec<u32> = boxed.iter().map(|e| e.val()).collect();
            if got != model {
                return Err(format!("into_boxed_slice after the failed {:?} holds {:?}, expected {:?}", c.op, got, model));
            }
            drop(boxed);
            failed
        }};
    }
    let failed = match c.kind {
        GKind::Vec => {
            let mut v: BumpVec<T, &B<S>> = BumpVec::from_iter_in((1..=c.n as u32).map(T::new), &bump);
            scenario!(v, false)
        }
        GKind::MutVec => {
            let mut v: MutBumpVec<T, &mut B<S>> = MutBumpVec::from_iter_in((1..=c.n as u32).map(T::new), &mut bump);
            scenario!(v, false)
        }
        GKind::MutVecRev => {
            let mut v: MutBumpVecRev<T, &mut B<S>> = MutBumpVecRev::new_in(&mut bump);
            for x in (1..=c.n as u32).rev() {
                v.push(T::new(x));
            }
            scenario!(v, true)
        }
    };
    // the arena is still coherent and keeps working
    let st = bump.stats();
    for ch in st.small_to_big() {
        let (lo, hi, pos) = (ch.content_start().as_ptr() as usize, ch.content_end().as_ptr() as usize, ch.bump_position().as_ptr() as usize);
        if pos < lo || pos > hi {
            return Err(format!("after the failed {:?} a chunk's bump position {pos:#x} lies outside its content range {lo:#x}..{hi:#x}", c.op));
        }
    }
    if st.allocated() > st.capacity() {
        return Err(format!("after the failed {:?} allocated() = {} exceeds capacity() = {}", c.op, st.allocated(), st.capacity()));
    }
    if bump.try_alloc(0x7777_7777u32).map(|b| *b).ok() != Some(0x7777_7777) {
        return Err("the arena refused a small allocation after the fault was lifted".into());
    }
    Ok(failed)
}

fn fail_case(c: &FailCase) -> Result<bool, String> {
    fn fmt(p: *const ()) -> String {
        format!("replaycase=<<{}>>", unsafe { &*(p as *const FailCase) }.text())
    }
    vcore::crash::with_inflight(c, fmt, || fail_case_inner(c))
}

fn fail_case_inner(c: &FailCase) -> Result<bool, String> {
    slab::select(0);
    slab::reset(0, SlabCfg::default());
    elem::reset();
    let _ = vcore::crash::take_last_panic();
    let r = catch_unwind(AssertUnwindSafe(|| with_cfg!(c.ci, |S| if c.zst { run_fail::<S, Z>(c) } else { run_fail::<S, El>(c) })));
    slab::with_slab(0, |s| s.cfg.fail_mask = 0);
    let r = match r {
        Ok(r) => r,
        Err(_) => Err(format!("unexpected panic: {}", vcore::crash::take_last_panic().unwrap_or_default())),
    };
    let failed = r?;
    let cen = elem::census();
    if let Some(f) = elem::flags().first() {
        return Err(f.clone());
    }
    if cen.dropped_more > 0 || cen.alive > 0 || cen.z_live != 0 {
        return Err(format!("drop accounting after an allocation failure: {} dropped twice, {} leaked", cen.dropped_more, cen.alive as i64 + cen.z_live));
    }
    let (errs, guards, outstanding) = slab::with_slab(0, |s| (s.errors.first().cloned(), s.check_guards(), s.outstanding()));
    if let Some(e) = errs {
        return Err(format!("base allocator protocol: {e}"));
    }
    if let Err(e) = guards {
        return Err(format!("memory outside granted blocks written: {e}"));
    }
    if outstanding != 0 {
        return Err(format!("{outstanding} chunks never released"));
    }
    Ok(failed)
}

pub fn explore_alloc_failures(thorough: bool, _deadline: Instant) -> (J, Vec<J>) {
    let t0 = Instant::now();
    let max_n = if thorough { 6 } else { 4 };
    let mut cases = Vec::new();
    for ci in 0..CFGS.len() {
        for kind in [GKind::Vec, GKind::MutVec, GKind::MutVecRev] {
            for zst in [false, true] {
                for n in 0..=max_n {
                    let mut ops = vec![TryOp::Push, TryOp::PushWith, TryOp::ExtendWithin];
                    for i in [0, n / 2, n] {
                        ops.push(TryOp::Insert(i));
                    }
                    for k in [1, 4, 40, 400] {
                        ops.extend([TryOp::Reserve(k), TryOp::ReserveExact(k), TryOp::ExtendClone(k.min(60)), TryOp::Append(k.min(60)), TryOp::Resize(k.min(60)), TryOp::ResizeWith(k.min(60))]);
                    }
                    for op in ops {
                        for k in 0..if thorough { 3 } else { 2 } {
                            for all in [true, false] {
                                for retained in [false, true] {
                                    for direct in [false, true] {
                                        cases.push(FailCase { ci, kind, zst, n, k, all, op, retained, direct });
                                    }
                                }
                            }
                        }
                    }
                }
            }
        }
    }
    let evals = AtomicU64::new(0);
    let failed_n = AtomicU64::new(0);
    let viols: Mutex<Vec<J>> = Mutex::new(Vec::new());
    let next = AtomicUsize::new(0);
    let threads = std::thread::available_parallelism().map_or(8, |n| n.get());
    std::thread::scope(|sc| {
        for _ in 0..threads {
            sc.spawn(|| {
                loop {
                    let i = next.fetch_add(1, Ordering::Relaxed);
                    if i >= cases.len() {
                        break;
                    }
                    let c = &cases[i];
                    evals.fetch_add(1, Ordering::Relaxed);
                    match fail_case(c) {
                        Ok(true) => {
                            failed_n.fetch_add(1, Ordering::Relaxed);
                        }
                        Ok(false) => {}
                        Err(m) => {
                            let mut v = viols.lock().unwrap();
                            if v.len() < 8 {
                                v.push(J::obj().set("prop", "C07").set("cfg", CFGS[c.ci].0).set("params", format!("{:?} zst={} n={} fail_call=+{} all_later={}", c.kind, c.zst, c.n, c.k, c.all)).set("history", format!("{:?}", c.op)).set("msg", m).set("replay_args", vec!["--case".to_string(), c.text()]));
                            }
                        }
                    }
                }
            });
        }
    });
    let viols = viols.into_inner().unwrap();
    let ev = evals.load(Ordering::Relaxed);
    let nt = failed_n.load(Ordering::Relaxed);
    let samples: Vec<String> = cases.iter().step_by((cases.len() / 6).max(1)).take(6).map(|c| c.text()).collect();
    let cov = J::obj()
        .set("evaluations", ev)
        .set("distinct_nontrivial", nt)
        .set("states", ev)
        .set("transitions", ev)
        .set("traces_validated_against_impl", ev)
        .set("rule", "collection part of C07: {BumpVec, MutBumpVec, MutBumpVecRev} x sized/zero-sized elements x initial length x 4 arena configurations (16-byte first chunk; with and without a second, unused chunk retained from an earlier scope) x every try_ growth operation (try_push, try_push_with, try_insert at 3 indices, try_reserve(_exact), try_extend_from_slice_clone, try_extend_from_within_clone, try_append, try_resize(_with) with amounts 1/4/40/400) x fault plan (the k-th base-allocator call after the collection exists fails, alone or together with all later ones); a refused call must yield Err with length and contents unchanged (no panic), the collection must keep working after the fault is lifted, finalising it (into_boxed_slice) must hand out exactly its contents, the arena must stay coherent (every bump position inside its chunk, allocated() <= capacity(), next allocation works), and drop / release accounting must be exact; non-trivial = cases in which the operation actually failed")
        .set("samples", samples)
        .set("exhaustive", true);
    let space = J::obj()
        .set("property_id", "C07")
        .set("tier", if thorough { "thorough" } else { "quick" })
        .set("seed", 0)
        .set("level", "fault_enumeration")
        .set("space", "collection-growth-failures")
        .set("coverage", cov)
        .set("wall_s", t0.elapsed().as_secs_f64())
        .set("violations", viols.len())
        .set("floor", 500)
        .set("floor_ok", nt >= 500 || !viols.is_empty());
    (space, viols)
}

// =====================================================================================================
// replay
// =====================================================================================================

fn kv(s: &str) -> std::collections::HashMap<String, String> {
    // values may contain ';' only inside [...] (follow list) – split on ';' at bracket depth 0
    let mut m = std::collections::HashMap::new();
    let mut depth = 0;
    let mut cur = String::new();
    let mut items = Vec::new();
    for ch in s.chars() {
        match ch {
            '[' | '(' => depth += 1,
            ']' | ')' => depth -= 1,
            _ => {}
        }
        if ch == ';' && depth == 0 {
            items.push(std::mem::take(&mut cur));
        } else {
            cur.push(ch);
        }
    }
    items.push(cur);
    for it in items {
        if let Some((k, v)) = it.split_once('=') {
            m.insert(k.to_string(), v.to_string());
        }
    }
    m
}

fn nums(s: &str) -> Vec<usize> {
    let mut out = Vec::new();
    let mut cur = String::new();
    for ch in s.chars() {
        if ch.is_ascii_digit() {
            cur.push(ch);
        } else if !cur.is_empty() {
            out.push(cur.parse().unwrap());
            cur.clear();
        }
    }
    if !cur.is_empty() {
        out.push(cur.parse().unwrap());
    }
    out
}

fn parse_split_op(s: &str) -> Option<SplitOp> {
    let n = nums(s);
    Some(match s.split('(').next()? {
        "SplitOff" => SplitOp::SplitOff(n[0], n[1]),
        "SplitOffB" => SplitOp::SplitOffB(n[0], n[1], n[2]),
        "SplitAt" => SplitOp::SplitAt(n[0]),
        "SplitFirst" => SplitOp::SplitFirst,
        "SplitLast" => SplitOp::SplitLast,
        "SplitOffFirst" => SplitOp::SplitOffFirst,
        "SplitOffLast" => SplitOp::SplitOffLast,
        "Partition" => SplitOp::Partition(n[0] as u8),
        "SplitAtSpare" => SplitOp::SplitAtSpare,
        "IntoFlattened" => SplitOp::IntoFlattened,
        "MapInPlace" => SplitOp::MapInPlace,
        _ => return None,
    })
}

fn parse_follow(s: &str) -> Vec<Follow> {
    let inner = s.trim().trim_start_matches('[').trim_end_matches(']');
    let mut out = Vec::new();
    for t in inner.split(", ") {
        let t = t.trim();
        if t.is_empty() {
            continue;
        }
        let n = nums(t);
        let i = n.first().copied().unwrap_or(0);
        out.push(match t.split('(').next().unwrap() {
            "Push" => Follow::Push(i),
            "PushMany" => Follow::PushMany(i),
            "Shrink" => Follow::Shrink(i),
            "Truncate" => Follow::Truncate(i),
            "Clear" => Follow::Clear(i),
            "Drop" => Follow::Drop(i),
            "IntoBox" => Follow::IntoBox(i),
            "Dealloc" => Follow::Dealloc(i),
            "PopOne" => Follow::PopOne(i),
            "MergeBack" => Follow::MergeBack,
            "MergeWrongOrder" => Follow::MergeWrongOrder,
            _ => Follow::AllocBetween,
        });
    }
    out
}

pub fn replay(case: &str) -> Option<String> {
    if let Some(rest) = case.strip_prefix("split:") {
        let m = kv(rest);
        let c = SplitCase {
            ci: m["cfg"].parse().ok()?,
            container: match m["cont"].as_str() {
                "Boxed" => Container::Boxed,
                "Fixed" => Container::Fixed,
                _ => Container::Vec,
            },
            zst: m["zst"] == "1",
            n: m["n"].parse().ok()?,
            extra_cap: m["extra"].parse().ok()?,
            op: parse_split_op(&m["op"])?,
            follow: parse_follow(&m["follow"]),
        };
        return split_case(&c).err();
    }
    if let Some(rest) = case.strip_prefix("fail:") {
        let m = kv(rest);
        let n = nums(&m["op"]);
        let a = n.first().copied().unwrap_or(0);
        let op = match m["op"].split('(').next()? {
            "Push" => TryOp::Push,
            "PushWith" => TryOp::PushWith,
            "Insert" => TryOp::Insert(a),
            "Reserve" => TryOp::Reserve(a),
            "ReserveExact" => TryOp::ReserveExact(a),
            "ExtendClone" => TryOp::ExtendClone(a),
            "ExtendWithin" => TryOp::ExtendWithin,
            "Append" => TryOp::Append(a),
            "Resize" => TryOp::Resize(a),
            _ => TryOp::ResizeWith(a),
        };
        let c = FailCase {
            ci: m["cfg"].parse().ok()?,
            kind: match m["kind"].as_str() {
                "Vec" => GKind::Vec,
                "MutVec" => GKind::MutVec,
                _ => GKind::MutVecRev,
            },
            zst: m["zst"] == "1",
            n: m["n"].parse().ok()?,
            k: m["k"].parse().ok()?,
            all: m["all"] == "1",
            op,
            retained: m.get("ret").is_some_and(|r| r == "1"),
            direct: m.get("direct").is_some_and(|r| r == "1"),
        };
        return fail_case(&c).err();
    }
    Some("unknown case".into())
}
