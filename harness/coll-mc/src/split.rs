//! C16 (split / merge partitions) and the collection part of C07 (allocation failure inside collection growth).
use std::time::Instant;
use vcore::json::J;

pub fn explore(_thorough: bool, _deadline: Instant) -> (J, Vec<J>) {
    unimplemented!()
}
pub fn explore_alloc_failures(_thorough: bool, _deadline: Instant) -> (J, Vec<J>) {
    unimplemented!()
}
pub fn replay(_case: &str) -> Option<String> {
    None
}
