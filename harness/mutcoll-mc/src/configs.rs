//! Configurations with the C15 collection drivers compiled in (allocator kind `M`).
use vcore::runner::ConfigEntry;

pub const HAS_FULL: bool = false;

pub fn quick() -> Vec<ConfigEntry> {
    all(false)
}

pub fn full() -> Vec<ConfigEntry> {
    all(true)
}

pub fn all(_include_full: bool) -> Vec<ConfigEntry> {
    let mut v = Vec::new();
    v.extend(cfgm0::entries());
    v.extend(cfgm1::entries());
    v.extend(cfgm2::entries());
    v.extend(cfgm3::entries());
    v
}

pub fn pad() -> Vec<ConfigEntry> {
    Vec::new()
}
