//! mutcoll-mc: the arena explorer built only for the configurations that carry the C15 collection drivers.
mod configs;
#[path = "../../arena-mc/src/cli.rs"]
mod cli;
#[path = "../../arena-mc/src/props.rs"]
mod props;

fn main() {
    cli::run()
}
