#!/bin/bash
# usage: mk_seed_task.sh <PROPID> <suffix> [extra hint text]   -> creates /tmp/wt-<PROPID><suffix> and /tmp/agent-<PROPID><suffix>.txt
pid="$1"; suf="$2"; hint="${3:-}"
wt=/tmp/wt-$pid$suf
git -C /repo worktree add -q $wt HEAD || exit 2
python3 - "$pid" "$wt" "$hint" <<'PY'
import json,sys
pid,wt,hint=sys.argv[1:]
for l in open('/verif/properties.jsonl'):
    p=json.loads(l)
    if p['id']==pid:
        prop=f"{p['id']}: {p['title']}\n\nStatement: {p['statement']}\n\nQuantified over: {p['quantifier']['text']}\n"
t=open('/tmp/agent_prompt.txt').read().replace('WORKTREE',wt).replace('PROPTEXT',prop).replace('PROPID',pid)
if hint: t+="\nAdditional guidance: "+hint+"\n"
open(wt.replace('/tmp/wt-','/tmp/agent-')+'.txt','w').write(t)
PY
echo $wt
