#!/usr/bin/env python3
"""escape-corpus engine for property C04 of bump-scope.

Generates a complete, bounded corpus of small *safe* Rust programs
    PRODUCERS x HANDLE KINDS x ESCAPE ROUTES   (+ thread-sending cases, + settings conversions)
and lets rustc decide every one of them.  Every must-fail program has a control twin that
differs only in not escaping and must compile.

    python3 gen.py check  --prop C04 --tier quick|thorough
    python3 gen.py replay --prop C04 --case <case id>
    python3 gen.py show   --case <case id>
    python3 gen.py list   [--tier ...]

Environment: VERIF_REPO (default /repo) is the path dependency that is checked.
Exit codes: 0 = run completed (violations are reported on stdout), 2 = machinery error
(the corpus itself is broken, e.g. a typo in a generated program).
"""
import argparse
import concurrent.futures
import json
import os
import re
import shutil
import subprocess
import sys
import time

ROOT = os.path.dirname(os.path.abspath(__file__))
WORK = os.path.join(ROOT, "work")
TARGET = os.path.join(WORK, "target")
REPO = os.path.abspath(os.environ.get("VERIF_REPO", "/repo"))
PROP = "C04"

# error classes -------------------------------------------------------------------------------
# borrow / lifetime errors that mean "the borrow checker rejected the escape"
BORROW_CODES = {
    "E0499", "E0502", "E0503", "E0505", "E0506", "E0515", "E0521", "E0597", "E0716", "E0373",
    "E0713", "E0712", "E0700", "E0310", "E0491",
}
BORROW_MSGS = ("lifetime may not live long enough", "borrowed data escapes outside of")
TRAIT_CODES = {"E0277"}
CONST_CODES = {"E0080"}


def is_borrow_err(e):
    return (e["code"] in BORROW_CODES) or any(m in e["msg"] for m in BORROW_MSGS)


def is_trait_err(e):
    return e["code"] in TRAIT_CODES


def is_const_err(e):
    return e["code"] in CONST_CODES or "evaluation of" in e["msg"] and "failed" in e["msg"]


def is_rejection(e):
    """any error that is the *library* (via the compiler) saying no, as opposed to a typo"""
    return is_borrow_err(e) or is_trait_err(e) or is_const_err(e)


class Machinery(Exception):
    pass


# ==============================================================================================
# corpus definition
# ==============================================================================================

LIB_PRELUDE = r"""#![allow(unused, dropping_references, dropping_copy_types, forgetting_references, forgetting_copy_types)]
#![allow(clippy::all)]
#![deny(unsafe_code)]
use bump_scope::alloc::Global;
use bump_scope::settings::BumpSettings;
use bump_scope::traits::*;
use bump_scope::{
    bump_vec, Bump, BumpBox, BumpPool, BumpScope, BumpString, BumpVec, FixedBumpString, FixedBumpVec, MutBumpString,
    MutBumpVec, MutBumpVecRev, WithoutDealloc, WithoutShrink,
};
use std::cell::RefCell;
use std::rc::Rc;
use std::sync::Arc;

/// consumes a value: the last use of `x` in every program
fn sink<T>(_: T) {}

/// base allocators that are not `Send` (delegating to `Global`); the `unsafe impl` is what the
/// `Allocator` trait demands of every base allocator, the generated cases themselves are safe code
#[allow(unsafe_code)]
mod not_send {
    use bump_scope::alloc::{AllocError, Allocator, Global};
    use std::alloc::Layout;
    use std::ptr::NonNull;

    #[derive(Clone, Default, Debug)]
    pub struct RcAlloc(std::rc::Rc<()>);
    #[derive(Clone, Debug)]
    pub struct PtrAlloc(*const ());
    impl Default for PtrAlloc {
        fn default() -> Self {
            PtrAlloc(std::ptr::null())
        }
    }
    unsafe impl Allocator for RcAlloc {
        fn allocate(&self, layout: Layout) -> Result<NonNull<[u8]>, AllocError> {
            Global.allocate(layout)
        }
        unsafe fn deallocate(&self, ptr: NonNull<u8>, layout: Layout) {
            unsafe { Global.deallocate(ptr, layout) }
        }
    }
    unsafe impl Allocator for PtrAlloc {
        fn allocate(&self, layout: Layout) -> Result<NonNull<[u8]>, AllocError> {
            Global.allocate(layout)
        }
        unsafe fn deallocate(&self, ptr: NonNull<u8>, layout: Layout) {
            unsafe { Global.deallocate(ptr, layout) }
        }
    }
}
use not_send::{PtrAlloc, RcAlloc};
"""

QUICK, THOROUGH = "quick", "thorough"


class Producer:
    """An expression that yields something borrowing scope memory.

    expr uses {m} (method receiver), {sref} (a `&H` that implements BumpAllocatorTypedScope),
    {mref} (a `&mut H` that implements MutBumpAllocatorTypedScope).
    mut      : needs exclusive access to the handle
    holds    : the value also holds the borrow of the *handle variable itself* (e.g. a BumpVec that
               contains `&*guard`), not only the scope lifetime
    needs    : capabilities the handle must have: 'inherent' (methods that exist on Bump/BumpScope only,
               not on the trait objects), 'scope' (handle derefs to a BumpScope: by_value),
               'default' (default settings: the expression names BumpSettings<..> explicitly)
    """

    def __init__(self, name, expr, mut=False, holds=False, needs=(), tier=QUICK):
        self.name, self.expr, self.mut, self.holds, self.needs, self.tier = name, expr, mut, holds, set(needs), tier


def _producers():
    P = Producer
    ps = [
        # --- BumpAllocatorTypedScope methods ------------------------------------------------
        P("alloc", "{m}.alloc(1u32)"),
        P("alloc_into_ref", "{m}.alloc(1u32).into_ref()"),
        P("alloc_into_mut", "{m}.alloc(1u32).into_mut()"),
        P("alloc_leak", "BumpBox::leak({m}.alloc(1u32))"),
        P("alloc_with", "{m}.alloc_with(|| 1u32)"),
        P("alloc_default", "{m}.alloc_default::<u32>()"),
        P("alloc_uninit", "{m}.alloc_uninit::<u32>()"),
        P("alloc_uninit_init", "{m}.alloc_uninit::<u32>().init(1)"),
        P("alloc_uninit_slice", "{m}.alloc_uninit_slice::<u32>(2)"),
        P("alloc_uninit_slice_for", "{m}.alloc_uninit_slice_for(&[1u32, 2])"),
        P("try_alloc", "{m}.try_alloc(1u32).unwrap()"),
        P("alloc_str", "{m}.alloc_str(\"a\")"),
        P("alloc_str_into_ref", "{m}.alloc_str(\"a\").into_ref()"),
        P("alloc_slice_copy", "{m}.alloc_slice_copy(&[1u32, 2])"),
        P("alloc_slice_clone", "{m}.alloc_slice_clone(&[1u32, 2])"),
        P("alloc_slice_fill", "{m}.alloc_slice_fill(2, 1u32)"),
        P("alloc_slice_fill_with", "{m}.alloc_slice_fill_with(2, || 1u32)"),
        P("alloc_slice_move", "{m}.alloc_slice_move([1u32, 2])"),
        P("alloc_iter", "{m}.alloc_iter([1u32, 2])"),
        P("alloc_iter_exact", "{m}.alloc_iter_exact([1u32, 2])"),
        P("alloc_fmt", "{m}.alloc_fmt(format_args!(\"{{}}\", 1))"),
        P("alloc_cstr", "{m}.alloc_cstr(c\"a\")"),
        P("alloc_cstr_from_str", "{m}.alloc_cstr_from_str(\"a\")"),
        P("alloc_cstr_fmt", "{m}.alloc_cstr_fmt(format_args!(\"{{}}\", 1))"),
        # --- MutBumpAllocatorTypedScope methods ---------------------------------------------
        P("alloc_iter_mut", "{m}.alloc_iter_mut([1u32, 2])", mut=True),
        P("alloc_iter_mut_rev", "{m}.alloc_iter_mut_rev([1u32, 2])", mut=True),
        P("alloc_fmt_mut", "{m}.alloc_fmt_mut(format_args!(\"{{}}\", 1))", mut=True),
        P("alloc_cstr_fmt_mut", "{m}.alloc_cstr_fmt_mut(format_args!(\"{{}}\", 1))", mut=True),
        # --- inherent-only methods -----------------------------------------------------------
        P("alloc_try_with", "{m}.alloc_try_with(|| Ok::<u32, ()>(1)).unwrap()", needs=["inherent"]),
        P("alloc_try_with_mut", "{m}.alloc_try_with_mut(|| Ok::<u32, ()>(1)).unwrap()", mut=True, needs=["inherent"]),
        P("stats", "{m}.stats()", needs=["inherent"]),
        P("stats_current_chunk", "{m}.stats().current_chunk()", needs=["inherent"]),
        P("stats_small_to_big", "{m}.stats().small_to_big()", needs=["inherent"]),
        P("stats_chunk_allocator", "{m}.stats().current_chunk().map(|c| c.allocator())", needs=["inherent"]),
        P("allocator", "{m}.allocator()", needs=["inherent"]),
        P("claim_guard", "{m}.claim()", holds=True, needs=["inherent"]),
        P("claim_alloc", "{m}.claim().alloc(1u32)", needs=["inherent"]),
        P("claim_alloc_str_ref", "{m}.claim().alloc_str(\"a\").into_ref()", needs=["inherent"]),
        P("aligned_alloc", "{m}.aligned::<8, _>(|s| s.alloc(1u32))", mut=True, needs=["inherent"]),
        P("scope_guard", "{m}.scope_guard()", mut=True, holds=True, needs=["inherent"]),
        P("by_value", "{m}.by_value()", mut=True, holds=True, needs=["scope"]),
        P("by_value_alloc", "{m}.by_value().alloc(1u32)", mut=True, holds=True, needs=["scope"]),
        # --- collections -----------------------------------------------------------------------
        P("bumpvec", "{{ let mut v = BumpVec::new_in({sref}); v.push(1u32); v }}", holds=True),
        P("bumpvec_into_slice", "{{ let mut v = BumpVec::new_in({sref}); v.push(1u32); v.into_slice() }}"),
        P("bumpvec_into_boxed_slice", "{{ let mut v = BumpVec::new_in({sref}); v.push(1u32); v.into_boxed_slice() }}"),
        P("bumpvec_into_fixed_vec", "{{ let mut v = BumpVec::new_in({sref}); v.push(1u32); v.into_fixed_vec() }}"),
        P("bump_vec_macro", "bump_vec![in {sref}; 1u32, 2]", holds=True),
        P("bump_vec_macro_into_slice", "bump_vec![in {sref}; 1u32, 2].into_slice()"),
        P("bumpvec_from_iter_into_slice", "BumpVec::from_iter_in([1u32, 2], {sref}).into_slice()"),
        P("bumpstring", "{{ let mut s = BumpString::new_in({sref}); s.push('a'); s }}", holds=True),
        P("bumpstring_into_str", "{{ let mut s = BumpString::new_in({sref}); s.push('a'); s.into_str() }}"),
        P("bumpstring_into_boxed_str", "{{ let mut s = BumpString::new_in({sref}); s.push('a'); s.into_boxed_str() }}"),
        P("bumpstring_into_cstr", "{{ let mut s = BumpString::new_in({sref}); s.push('a'); s.into_cstr() }}"),
        P("bumpstring_into_fixed", "BumpString::from_str_in(\"a\", {sref}).into_fixed_string()"),
        P("fixedvec", "{{ let mut v = FixedBumpVec::with_capacity_in(2, {sref}); v.push(1u32); v }}"),
        P("fixedvec_into_slice", "{{ let mut v = FixedBumpVec::with_capacity_in(2, {sref}); v.push(1u32); v.into_slice() }}"),
        P("fixedstring_into_str", "{{ let mut s = FixedBumpString::with_capacity_in(2, {sref}); s.push('a'); s.into_str() }}"),
        P("mutbumpvec", "{{ let mut v = MutBumpVec::new_in({mref}); v.push(1u32); v }}", mut=True, holds=True),
        P("mutbumpvec_into_slice", "{{ let mut v = MutBumpVec::new_in({mref}); v.push(1u32); v.into_slice() }}", mut=True),
        P("mutbumpvec_into_boxed_slice", "{{ let mut v = MutBumpVec::new_in({mref}); v.push(1u32); v.into_boxed_slice() }}", mut=True),
        P("mutbumpvecrev_into_slice", "{{ let mut v = MutBumpVecRev::new_in({mref}); v.push(1u32); v.into_slice() }}", mut=True),
        P("mutbumpstring_into_str", "{{ let mut s = MutBumpString::new_in({mref}); s.push('a'); s.into_str() }}", mut=True),
        P("mutbumpstring_into_boxed_str", "{{ let mut s = MutBumpString::new_in({mref}); s.push('a'); s.into_boxed_str() }}", mut=True),
        # --- thorough-only extras -------------------------------------------------------------------
        P("try_alloc_str", "{m}.try_alloc_str(\"a\").unwrap()", tier=THOROUGH),
        P("try_alloc_with", "{m}.try_alloc_with(|| 1u32).unwrap()", tier=THOROUGH),
        P("try_alloc_default", "{m}.try_alloc_default::<u32>().unwrap()", tier=THOROUGH),
        P("try_alloc_slice_copy", "{m}.try_alloc_slice_copy(&[1u32, 2]).unwrap()", tier=THOROUGH),
        P("try_alloc_slice_clone", "{m}.try_alloc_slice_clone(&[1u32, 2]).unwrap()", tier=THOROUGH),
        P("try_alloc_slice_fill", "{m}.try_alloc_slice_fill(2, 1u32).unwrap()", tier=THOROUGH),
        P("try_alloc_slice_move", "{m}.try_alloc_slice_move([1u32, 2]).unwrap()", tier=THOROUGH),
        P("try_alloc_iter", "{m}.try_alloc_iter([1u32, 2]).unwrap()", tier=THOROUGH),
        P("try_alloc_iter_exact", "{m}.try_alloc_iter_exact([1u32, 2]).unwrap()", tier=THOROUGH),
        P("try_alloc_fmt", "{m}.try_alloc_fmt(format_args!(\"{{}}\", 1)).unwrap()", tier=THOROUGH),
        P("try_alloc_cstr", "{m}.try_alloc_cstr(c\"a\").unwrap()", tier=THOROUGH),
        P("try_alloc_cstr_from_str", "{m}.try_alloc_cstr_from_str(\"a\").unwrap()", tier=THOROUGH),
        P("try_alloc_cstr_fmt", "{m}.try_alloc_cstr_fmt(format_args!(\"{{}}\", 1)).unwrap()", tier=THOROUGH),
        P("try_alloc_uninit", "{m}.try_alloc_uninit::<u32>().unwrap()", tier=THOROUGH),
        P("try_alloc_uninit_slice", "{m}.try_alloc_uninit_slice::<u32>(2).unwrap()", tier=THOROUGH),
        P("try_alloc_iter_mut", "{m}.try_alloc_iter_mut([1u32, 2]).unwrap()", mut=True, tier=THOROUGH),
        P("try_alloc_iter_mut_rev", "{m}.try_alloc_iter_mut_rev([1u32, 2]).unwrap()", mut=True, tier=THOROUGH),
        P("try_alloc_fmt_mut", "{m}.try_alloc_fmt_mut(format_args!(\"{{}}\", 1)).unwrap()", mut=True, tier=THOROUGH),
        P("try_alloc_cstr_fmt_mut", "{m}.try_alloc_cstr_fmt_mut(format_args!(\"{{}}\", 1)).unwrap()", mut=True, tier=THOROUGH),
        P("try_alloc_try_with", "{m}.try_alloc_try_with(|| Ok::<u32, ()>(1)).unwrap().unwrap()", needs=["inherent"], tier=THOROUGH),
        P("alloc_array_into_boxed_slice", "{m}.alloc([1u32, 2]).into_boxed_slice()", tier=THOROUGH),
        P("alloc_slice_split_off", "{m}.alloc_slice_copy(&[1u32, 2, 3]).split_off(1..)", tier=THOROUGH),
        P("alloc_str_split_at", "{m}.alloc_str(\"ab\").split_at(1)", tier=THOROUGH),
        P("alloc_slice_into_iter", "{m}.alloc_slice_copy(&[1u32, 2]).into_iter()", tier=THOROUGH),
        P("alloc_dyn_unsize", "{{ let b: BumpBox<dyn std::fmt::Debug> = bump_scope::unsize_bump_box!({m}.alloc(1u32)); b }}", tier=THOROUGH),
        P("bumpvec_without_dealloc", "{{ let mut v = BumpVec::new_in(WithoutDealloc({sref})); v.push(1u32); v.into_slice() }}", tier=THOROUGH),
        P("bumpvec_without_shrink", "{{ let mut v = BumpVec::new_in(WithoutShrink({sref})); v.push(1u32); v.into_boxed_slice() }}", tier=THOROUGH),
        P("bumpvec_into_parts", "{{ let mut v = BumpVec::new_in({sref}); v.push(1u32); v.into_parts().0 }}", tier=THOROUGH),
        P("bumpvec_allocator_stats", "{{ let v = BumpVec::<u32, _>::new_in({sref}); *v.allocator() }}", holds=True, tier=THOROUGH),
        P("bumpstring_into_parts", "BumpString::from_str_in(\"a\", {sref}).into_parts().0", tier=THOROUGH),
        P("mutbumpvec_from_iter_into_slice", "MutBumpVec::from_iter_in([1u32, 2], {mref}).into_slice()", mut=True, tier=THOROUGH),
        P("mutbumpvecrev_into_boxed_slice", "{{ let mut v = MutBumpVecRev::new_in({mref}); v.push(1u32); v.into_boxed_slice() }}", mut=True, tier=THOROUGH),
        P("mutbumpstring_into_cstr", "{{ let mut s = MutBumpString::new_in({mref}); s.push('a'); s.into_cstr() }}", mut=True, tier=THOROUGH),
        P("borrow_with_settings_alloc", "{m}.borrow_with_settings::<BumpSettings<1, true, false>>().alloc(1u32)", needs=["inherent", "default"], tier=THOROUGH),
        P("borrow_mut_with_settings_alloc", "{m}.borrow_mut_with_settings::<BumpSettings<8>>().alloc(1u32)", mut=True, needs=["inherent", "default"], tier=THOROUGH),
        P("by_value_with_settings_alloc", "{m}.by_value().with_settings::<BumpSettings<8>>().alloc(1u32)", mut=True, holds=True, needs=["scope", "default"], tier=THOROUGH),
        P("stats_big_to_small", "{m}.stats().big_to_small()", needs=["inherent"], tier=THOROUGH),
        P("stats_allocator", "{m}.stats().allocator()", needs=["inherent"], tier=THOROUGH),
    ]
    names = [p.name for p in ps]
    assert len(names) == len(set(names))
    return ps


PRODUCERS = _producers()


# ----------------------------------------------------------------------------------------------
# handle kinds
# ----------------------------------------------------------------------------------------------
class Handle:
    """Where the producer is invoked.

    family 'closure': `scope` is the `&mut BumpScope` parameter of a `scoped`-like closure      (routes r1 r2 r13; r9 for claim)
    family 'guard'  : `scope` is `guard.scope()` of a BumpScopeGuard                             (routes r3 r3b r4 r5 r13)
    family 'bump'   : the producer is called on the Bump itself (or `bump.as_scope()`)           (routes r6 r7 r8 r8b r8c r8d r8e)
    family 'lease'  : a guard that hands out allocations living as long as the *owner* borrow:
                      BumpPoolGuard (owner = pool, routes r10*) and BumpClaimGuard (owner = bump, routes r6-r8);
                      allocations legitimately outlive the guard itself (control r11)
    """

    def __init__(self, name, family, tier=QUICK, **kw):
        self.name, self.family, self.tier = name, family, tier
        self.wrap_open = kw.get("wrap_open", [])
        self.wrap_close = kw.get("wrap_close", [])
        self.owner_setup = kw.get("owner_setup", ["let mut bump: Bump = Bump::new();"])
        self.owner = kw.get("owner", "bump")
        self.owner_caps = set(kw.get("owner_caps", ["reset"]))
        self.pre_open = kw.get("pre_open", [])
        self.open = kw.get("open")
        self.close = kw.get("close", "})")
        self.post_close = kw.get("post_close", [])
        self.guard_setup = kw.get("guard_setup", [])
        self.gvar = kw.get("gvar", "guard")
        self.inner = kw.get("inner", [])  # fixed lines after the handle exists (e.g. trait-object rebinding)
        self.inner_fn = kw.get("inner_fn")  # or: function(need_mut) -> lines
        self.m = kw.get("m", "scope")
        self.sref = kw.get("sref", "&*scope")
        self.mref = kw.get("mref", "&mut *scope")
        self.caps = set(kw.get("caps", ["inherent", "scope", "default"]))
        self.escapes = kw.get("escapes", [])
        self.desc = kw.get("desc", name)

    def inner_lines(self, need_mut):
        return list(self.inner_fn(need_mut)) if self.inner_fn else list(self.inner)

    def expr(self, p):
        return p.expr.format(m=self.m, sref=self.sref, mref=self.mref)

    def accepts(self, p):
        return p.needs <= self.caps


DYN_REBIND = ["let scope: &mut dyn MutBumpAllocatorCoreScope<'_> = scope;"]
SCOPE_PARAM = dict(wrap_open=["fn inner(mut bump: BumpScope) {"], wrap_close=["}"], owner_setup=[], owner_caps=[])
MUTREF_PARAM = dict(wrap_open=["fn inner(bump: &mut Bump) {"], wrap_close=["}"], owner_setup=[])
IN_SCOPED = dict(
    wrap_open=["let mut root: Bump = Bump::new();", "root.scoped(|bump| {"], wrap_close=["});"], owner_setup=[], owner_caps=[]
)
DOWN = dict(owner_setup=["let mut bump: Bump<Global, BumpSettings<1, false>> = Bump::new();"])
UNALLOC = dict(owner_setup=["let mut bump: Bump<Global, BumpSettings<1, true, false>> = Bump::new();"])

POOL_ESCAPES = [
    ("r10a", "pool.reset();", "kept across BumpPool::reset"),
    ("r10a2", "pool.reset_to_start();", "kept across BumpPool::reset_to_start"),
    ("r10b", "drop(pool);", "kept across drop(pool)"),
    ("r10d", "pool.bumps().clear();", "kept while the pool's Bumps are dropped through BumpPool::bumps()"),
    ("r10f", "pool = BumpPool::new();", "kept while the pool is overwritten"),
]
CLAIM_ESCAPES = [
    ("r6", "bump.reset();", "kept across Bump::reset (allocated through a claim guard)"),
    ("r7", "bump.reset_to_start();", "kept across Bump::reset_to_start (allocated through a claim guard)"),
    ("r8", "drop(bump);", "kept across drop(bump) (allocated through a claim guard)"),
    ("r8d", "bump = Bump::new();", "kept while the Bump is overwritten (allocated through a claim guard)"),
]

HANDLES = [
    # ---- closure family ---------------------------------------------------------------------
    Handle("scoped", "closure", open="bump.scoped(|scope| {", desc="&mut BumpScope inside bump.scoped(|scope| ..)"),
    Handle("scoped_aligned", "closure", open="bump.scoped_aligned::<8, _>(|scope| {", caps=["inherent", "scope"],
           desc="&mut BumpScope inside bump.scoped_aligned::<8, _>(|scope| ..)"),
    Handle("claim_scoped", "closure", owner_setup=["let mut bump: Bump = Bump::new();", "let mut claim = bump.claim();"],
           owner="claim", owner_caps=[], open="claim.scoped(|scope| {",
           desc="inner scope of a claim guard: bump.claim().scoped(|scope| ..)  (route r9)"),
    Handle("scoped_dyn", "closure", open="bump.scoped(|scope| {", inner=DYN_REBIND, m="scope", sref="&*scope", mref="&mut *scope",
           caps=[], desc="&mut dyn MutBumpAllocatorCoreScope made from the scoped closure's BumpScope"),
    Handle("scope_param_scoped", "closure", open="bump.scoped(|scope| {", desc="scoped on a by-value BumpScope parameter", **SCOPE_PARAM),
    Handle("mutref_param_scoped", "closure", tier=THOROUGH, open="bump.scoped(|scope| {", desc="scoped on a &mut Bump parameter", **MUTREF_PARAM),
    Handle("nested_scoped", "closure", tier=THOROUGH, pre_open=["bump.scoped(|parent| {"], open="parent.scoped(|scope| {",
           post_close=["})"], owner="parent", owner_caps=[], desc="scoped inside scoped"),
    Handle("scoped_down", "closure", tier=THOROUGH, open="bump.scoped(|scope| {", caps=["inherent", "scope"],
           desc="scoped on a downwards-bumping Bump", **DOWN),
    Handle("scoped_unallocated", "closure", tier=THOROUGH, open="bump.scoped(|scope| {", caps=["inherent", "scope"],
           desc="scoped on a not guaranteed-allocated Bump", **UNALLOC),
    Handle("pool_scoped", "closure", tier=THOROUGH, owner_setup=["let pool: BumpPool = BumpPool::new();", "let mut lease = pool.get();"],
           owner="lease", owner_caps=[], open="lease.scoped(|scope| {", desc="scoped on a BumpPoolGuard"),
    Handle("aligned_scoped", "closure", tier=THOROUGH, pre_open=["bump.aligned::<8, _>(|parent| {"], open="parent.scoped(|scope| {",
           post_close=["})"], owner="parent", owner_caps=[], caps=["inherent", "scope"], desc="scoped inside aligned::<8>"),
    # ---- guard family -------------------------------------------------------------------------
    Handle("guard", "guard", guard_setup=["let mut guard = bump.scope_guard();", "let scope = guard.scope();"],
           desc="guard.scope() of let mut guard = bump.scope_guard()"),
    Handle("guard_dyn", "guard", guard_setup=["let mut guard = bump.scope_guard();", "let scope = guard.scope();"], inner=DYN_REBIND,
           caps=[], desc="&mut dyn MutBumpAllocatorCoreScope made from guard.scope()"),
    Handle("scope_param_guard", "guard", guard_setup=["let mut guard = bump.scope_guard();", "let scope = guard.scope();"],
           desc="scope guard of a by-value BumpScope parameter", **SCOPE_PARAM),
    Handle("guard_in_scoped", "guard", tier=THOROUGH, guard_setup=["let mut guard = bump.scope_guard();", "let scope = guard.scope();"],
           desc="scope guard created inside a scoped closure", **IN_SCOPED),
    Handle("guard_down", "guard", tier=THOROUGH, guard_setup=["let mut guard = bump.scope_guard();", "let scope = guard.scope();"],
           caps=["inherent", "scope"], desc="scope guard of a downwards-bumping Bump", **DOWN),
    Handle("mutref_param_guard", "guard", tier=THOROUGH, guard_setup=["let mut guard = bump.scope_guard();", "let scope = guard.scope();"],
           desc="scope guard of a &mut Bump parameter", **MUTREF_PARAM),
    # ---- bump family --------------------------------------------------------------------------
    Handle("bump", "bump", m="bump", sref="&bump", mref="&mut bump", caps=["inherent", "default"], desc="the Bump itself"),
    Handle("bump_as_scope", "bump", m="scope", sref="scope", mref="&mut *scope",
           inner_fn=lambda mut: ["let scope = bump.as_mut_scope();"] if mut else ["let scope = bump.as_scope();"],
           desc="bump.as_scope() / bump.as_mut_scope()"),
    Handle("bump_down", "bump", tier=THOROUGH, m="bump", sref="&bump", mref="&mut bump", caps=["inherent"],
           desc="a downwards-bumping Bump", **DOWN),
    Handle("bump_unallocated", "bump", tier=THOROUGH, m="bump", sref="&bump", mref="&mut bump", caps=["inherent"],
           desc="a not guaranteed-allocated Bump", **UNALLOC),
    Handle("bump_dyn", "bump", tier=THOROUGH, m="scope", sref="&*scope", mref="&mut *scope", caps=[],
           inner=["let scope: &mut dyn MutBumpAllocatorCoreScope<'_> = bump.as_mut_scope();"],
           desc="&mut dyn MutBumpAllocatorCoreScope made from bump.as_mut_scope()"),
    # ---- lease family ---------------------------------------------------------------------------
    Handle("pool", "lease", owner_setup=["let mut pool: BumpPool = BumpPool::new();"], owner="pool",
           guard_setup=["let mut guard = pool.get();"], gvar="guard", m="guard", sref="&*guard", mref="&mut *guard",
           escapes=POOL_ESCAPES, desc="a BumpPoolGuard: let mut guard = pool.get()"),
    Handle("claim", "lease", owner_setup=["let mut bump: Bump = Bump::new();"], owner="bump",
           guard_setup=["let mut claim = bump.claim();"], gvar="claim", m="claim", sref="&*claim", mref="&mut *claim",
           escapes=CLAIM_ESCAPES, desc="a BumpClaimGuard: let mut claim = bump.claim()"),
    Handle("scope_claim", "lease", tier=THOROUGH, owner_setup=["let mut bump: Bump = Bump::new();"], owner="bump",
           guard_setup=["let mut claim = bump.as_scope().claim();"], gvar="claim", m="claim", sref="&*claim", mref="&mut *claim",
           escapes=CLAIM_ESCAPES, desc="a BumpClaimGuard of bump.as_scope()"),
]

ROUTE_DESC = {
    "r1": "returned from the scoped closure",
    "r2": "assigned to a variable declared outside the closure",
    "r2b": "pushed into a Vec declared outside the closure",
    "r2c": "stored in a RefCell declared outside the closure",
    "r2d": "sent through a channel created outside the closure",
    "r3": "kept while the scope guard is dropped",
    "r3b": "kept past the end of the block that owns the scope guard",
    "r4": "kept across a second guard.scope()",
    "r5": "kept across guard.reset()",
    "r6": "kept across Bump::reset",
    "r7": "kept across Bump::reset_to_start",
    "r8": "kept across drop(bump)",
    "r8b": "kept past the end of the block that owns the Bump",
    "r8c": "returned from the function that owns the Bump",
    "r8d": "kept while the Bump is overwritten",
    "r8e": "kept while the Bump is taken with mem::take",
    "r10c": "kept past the end of the block that owns the pool",
    "r10e": "returned from the function that owns the pool",
    "r11": "CONTROL ONLY: an allocation made through a pool/claim guard outlives the guard (it lives as long as the owner borrow)",
    "r11x": "a value holding the guard borrow itself is kept across drop(guard)",
    "r13a": "the outer allocator is used for an allocation while the inner scope is still in use",
    "r13b": "the outer Bump is reset while the inner scope is still in use",
    "r13c": "the outer allocator's stats are read while the inner scope is mutably borrowed from it",
}


class Case:
    def __init__(self, kind, handle, route, producer, fail, ctrl, desc, tier):
        self.kind, self.handle, self.route, self.producer = kind, handle, route, producer
        self.fail, self.ctrl, self.desc, self.tier = fail, ctrl, desc, tier
        self.cid = "%s/%s/%s/%s" % ({"borrowck": "B", "trait": "T", "const": "S", "control": "K", "constctl": "KS"}[kind], handle, route, producer)
        self.params = "%s | %s | %s" % (producer, handle, route)
        self.fail_src = self.ctrl_src = None  # filled when rendered
        self.fail_loc = self.ctrl_loc = None


def _closure_body(h, need_mut, pre, inner_lines, result_var=None, after_inner=(), post=()):
    lines = list(h.wrap_open) + list(h.owner_setup) + list(pre)
    opens = list(h.pre_open) + [h.open]
    if result_var:
        opens[0] = "let %s = %s" % (result_var, opens[0])
    lines += opens + h.inner_lines(need_mut) + list(inner_lines)
    closes = [h.close] + list(h.post_close)
    if after_inner:
        closes[0] += ";"
        closes[1:1] = list(after_inner)
    if not closes[-1].endswith(";"):
        closes[-1] += ";"
    lines += closes + list(post) + list(h.wrap_close)
    return lines


def closure_routes(h, p, tier):
    px = "let x = %s;" % h.expr(p)
    o = h.owner
    out = []
    out.append(("r1", _closure_body(h, p.mut, [], [px, "x"], "r", post=["sink(r);"]),
                _closure_body(h, p.mut, [], [px, "sink(x);"], "r", post=["sink(r);"])))
    out.append(("r2", _closure_body(h, p.mut, ["let mut escaped = None;"], [px, "escaped = Some(x);"], post=["sink(escaped);"]),
                _closure_body(h, p.mut, [], ["let mut escaped = None;", px, "escaped = Some(x);", "sink(escaped);"])))
    if tier == THOROUGH:
        out.append(("r2b", _closure_body(h, p.mut, ["let mut escaped = Vec::new();"], [px, "escaped.push(x);"], post=["sink(escaped);"]),
                    _closure_body(h, p.mut, [], ["let mut escaped = Vec::new();", px, "escaped.push(x);", "sink(escaped);"])))
        out.append(("r2c", _closure_body(h, p.mut, ["let escaped = RefCell::new(None);"], [px, "*escaped.borrow_mut() = Some(x);"], post=["sink(escaped);"]),
                    _closure_body(h, p.mut, [], ["let escaped = RefCell::new(None);", px, "*escaped.borrow_mut() = Some(x);", "sink(escaped);"])))
        out.append(("r2d", _closure_body(h, p.mut, ["let (tx, rx) = std::sync::mpsc::channel();"], [px, "tx.send(x).ok();"], post=["sink(rx.try_recv());"]),
                    _closure_body(h, p.mut, [], ["let (tx, rx) = std::sync::mpsc::channel();", px, "tx.send(x).ok();", "sink(rx.try_recv());"])))
    uses = [("r13a", ["let y = %s.alloc(2u32);" % o, "sink(y);"])]
    if "reset" in h.owner_caps:
        uses.append(("r13b", ["%s.reset();" % o]))
    uses.append(("r13c", ["let y = %s.stats();" % o, "sink(y);"]))
    for r, use in uses:
        out.append((r, _closure_body(h, p.mut, [], [px] + use + ["sink(x);"]),
                    _closure_body(h, p.mut, [], [px, "sink(x);"], after_inner=use)))
    return out


def guard_routes(h, p, tier):
    px = "let x = %s;" % h.expr(p)
    o = h.owner
    head = list(h.wrap_open) + list(h.owner_setup)
    gs = list(h.guard_setup) + h.inner_lines(p.mut)
    tail = list(h.wrap_close)
    out = []

    def lin(r, esc):
        out.append((r, head + gs + [px] + esc + ["sink(x);"] + tail, head + gs + [px, "sink(x);"] + esc + tail))

    lin("r3", ["drop(guard);"])
    out.append(("r3b", head + ["let escaped;", "{"] + gs + [px, "escaped = x;", "}", "sink(escaped);"] + tail,
                head + ["let escaped;", "{"] + gs + [px, "escaped = x;", "sink(escaped);", "}"] + tail))
    lin("r4", ["let y = guard.scope().alloc(2u32);", "sink(y);"])
    lin("r5", ["guard.reset();"])
    uses = [("r13a", ["let y = %s.alloc(2u32);" % o, "sink(y);"])]
    if "reset" in h.owner_caps:
        uses.append(("r13b", ["%s.reset();" % o]))
    uses.append(("r13c", ["let y = %s.stats();" % o, "sink(y);"]))
    for r, use in uses:
        out.append((r, head + gs + [px] + use + ["sink(x);", "drop(guard);"] + tail,
                    head + gs + [px, "sink(x);", "drop(guard);"] + use + tail))
    return out


def bump_routes(h, p, tier):
    px = "let x = %s;" % h.expr(p)
    setup = list(h.owner_setup) + h.inner_lines(p.mut)
    out = []
    for r, esc in [("r6", ["bump.reset();"]), ("r7", ["bump.reset_to_start();"]), ("r8", ["drop(bump);"]),
                   ("r8d", ["bump = Bump::new();"]), ("r8e", ["let taken = std::mem::take(&mut bump);", "sink(taken);"])]:
        out.append((r, setup + [px] + esc + ["sink(x);"], setup + [px, "sink(x);"] + esc))
    out.append(("r8b", ["let escaped;", "{"] + setup + [px, "escaped = x;", "}", "sink(escaped);"],
                ["{"] + setup + ["let escaped;", px, "escaped = x;", "sink(escaped);", "}"]))
    out.append(("r8c", ["fn inner() -> impl Sized + 'static {"] + setup + [px, "x", "}"],
                ["fn inner() -> impl Sized + 'static {"] + setup + [px, "sink(x);", "}"]))
    return out


def lease_routes(h, p, tier):
    px = "let x = %s;" % h.expr(p)
    setup = list(h.owner_setup) + list(h.guard_setup) + h.inner_lines(p.mut)
    g = h.gvar
    out = []
    for r, stmt, _d in h.escapes:
        out.append((r, setup + [px, "drop(%s);" % g, stmt, "sink(x);"], setup + [px, "sink(x);", "drop(%s);" % g, stmt]))
    blk, ret = ("r10c", "r10e") if h.owner == "pool" else ("r8b", "r8c")
    out.append((blk, ["let escaped;", "{"] + setup + [px, "escaped = x;", "}", "sink(escaped);"],
                ["{"] + setup + ["let escaped;", px, "escaped = x;", "sink(escaped);", "}"]))
    out.append((ret, ["fn inner() -> impl Sized + 'static {"] + setup + [px, "x", "}"],
                ["fn inner() -> impl Sized + 'static {"] + setup + [px, "sink(x);", "}"]))
    if p.holds:
        out.append(("r11x", setup + [px, "drop(%s);" % g, "sink(x);"], setup + [px, "sink(x);", "drop(%s);" % g]))
    else:
        out.append(("r11", None, setup + [px, "drop(%s);" % g, "sink(x);"]))
    return out


FAMILY = {"closure": closure_routes, "guard": guard_routes, "bump": bump_routes, "lease": lease_routes}


def route_desc(h, r):
    for rr, _s, d in h.escapes:
        if rr == r:
            return d
    d = ROUTE_DESC[r]
    if h.name == "claim_scoped":
        d = "r9 (claim guard's inner scope): " + d
    return d


def borrow_cases(tier):
    """RULE: a (producer, handle) pair is generated iff the handle offers every capability the producer's
    expression needs (inherent-only methods are not available on trait objects, by_value only where the handle
    derefs to a BumpScope, expressions naming BumpSettings<..> only on default-settings handles); each pair is
    combined with *every* route of the handle's family (closure: r1 r2 r13*, guard: r3 r3b r4 r5 r13*,
    bump: r6 r7 r8 r8b-e, lease(pool): r10*, lease(claim): r6-r8*; r13b only where the owner has reset())."""
    cases = []
    tiers = (QUICK,) if tier == QUICK else (QUICK, THOROUGH)
    for h in HANDLES:
        if h.tier not in tiers:
            continue
        for p in PRODUCERS:
            if p.tier not in tiers or not h.accepts(p):
                continue
            for r, fail, ctrl in FAMILY[h.family](h, p, tier):
                desc = "%s, obtained from %s, is %s" % (h.expr(p), h.desc, route_desc(h, r))
                kind = "borrowck" if fail is not None else "control"
                cases.append(Case(kind, h.name, r, p.name, fail, ctrl, desc, tier))
    return cases
