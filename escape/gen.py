#!/usr/bin/env python3
"""escape-corpus engine for property C04 of bump-scope.

Generates a complete, bounded corpus of small *safe* Rust programs
    PRODUCERS x HANDLE KINDS x ESCAPE ROUTES   (+ thread-sending cases, + settings conversions)
and lets rustc decide every one of them.  Every must-fail program has a control twin that
differs only in not escaping and must compile.

    python3 gen.py check  --prop C04 --tier quick|thorough
    python3 gen.py replay --prop C04 --case <case id>
    python3 gen.py show   --case <case id>
    python3 gen.py list   [--tier ...]

Environment: VERIF_REPO (default /repo) is the path dependency that is checked.
Exit codes: 0 = run completed (violations are reported on stdout), 2 = machinery error
(the corpus itself is broken, e.g. a typo in a generated program).
"""
import argparse
import concurrent.futures
import json
import os
import re
import shutil
import subprocess
import sys
import threading
import time

ROOT = os.path.dirname(os.path.abspath(__file__))
WORK = os.path.join(ROOT, "work")
TARGET = os.path.join(WORK, "target")
REPO = os.path.abspath(os.environ.get("VERIF_REPO", "/repo"))
PROP = "C04"

# error classes -------------------------------------------------------------------------------
# borrow / lifetime errors that mean "the borrow checker rejected the escape"
BORROW_CODES = {
    "E0499", "E0500", "E0501", "E0502", "E0503", "E0505", "E0506", "E0515", "E0521", "E0597", "E0716", "E0373",
    "E0713", "E0712", "E0700", "E0310", "E0491",
}
BORROW_MSGS = ("lifetime may not live long enough", "borrowed data escapes outside of")
TRAIT_CODES = {"E0277"}
CONST_CODES = {"E0080"}


def is_borrow_err(e):
    return (e["code"] in BORROW_CODES) or any(m in e["msg"] for m in BORROW_MSGS)


def is_trait_err(e):
    return e["code"] in TRAIT_CODES


def is_const_err(e):
    return e["code"] in CONST_CODES or "evaluation of" in e["msg"] and "failed" in e["msg"]


def is_rejection(e):
    """any error that is the *library* (via the compiler) saying no, as opposed to a typo"""
    return is_borrow_err(e) or is_trait_err(e) or is_const_err(e)


class Machinery(Exception):
    pass


# ==============================================================================================
# corpus definition
# ==============================================================================================

LIB_PRELUDE = r"""#![allow(unused, dropping_references, dropping_copy_types, forgetting_references, forgetting_copy_types)]
#![allow(clippy::all)]
#![deny(unsafe_code)]
use bump_scope::alloc::Global;
use bump_scope::settings::BumpSettings;
use bump_scope::traits::*;
use bump_scope::{
    bump_vec, Bump, BumpBox, BumpPool, BumpScope, BumpString, BumpVec, FixedBumpString, FixedBumpVec, MutBumpString,
    MutBumpVec, MutBumpVecRev, WithoutDealloc, WithoutShrink,
};
use std::cell::RefCell;
use std::rc::Rc;
use std::sync::Arc;

/// consumes a value: the last use of `x` in every program
fn sink<T>(_: T) {}

/// base allocators that are not `Send` (delegating to `Global`); the `unsafe impl` is what the
/// `Allocator` trait demands of every base allocator, the generated cases themselves are safe code
#[allow(unsafe_code)]
mod not_send {
    use bump_scope::alloc::{AllocError, Allocator, Global};
    use std::alloc::Layout;
    use std::ptr::NonNull;

    #[derive(Clone, Default, Debug)]
    pub struct RcAlloc(std::rc::Rc<()>);
    #[derive(Clone, Debug)]
    pub struct PtrAlloc(*const ());
    impl Default for PtrAlloc {
        fn default() -> Self {
            PtrAlloc(std::ptr::null())
        }
    }
    unsafe impl Allocator for RcAlloc {
        fn allocate(&self, layout: Layout) -> Result<NonNull<[u8]>, AllocError> {
            Global.allocate(layout)
        }
        unsafe fn deallocate(&self, ptr: NonNull<u8>, layout: Layout) {
            unsafe { Global.deallocate(ptr, layout) }
        }
    }
    unsafe impl Allocator for PtrAlloc {
        fn allocate(&self, layout: Layout) -> Result<NonNull<[u8]>, AllocError> {
            Global.allocate(layout)
        }
        unsafe fn deallocate(&self, ptr: NonNull<u8>, layout: Layout) {
            unsafe { Global.deallocate(ptr, layout) }
        }
    }
}
use not_send::{PtrAlloc, RcAlloc};
"""

QUICK, THOROUGH = "quick", "thorough"


class Producer:
    """An expression that yields something borrowing scope memory.

    expr uses {m} (method receiver), {sref} (a `&H` that implements BumpAllocatorTypedScope),
    {mref} (a `&mut H` that implements MutBumpAllocatorTypedScope).
    mut      : needs exclusive access to the handle
    holds    : the value also holds the borrow of the *handle variable itself* (e.g. a BumpVec that
               contains `&*guard`), not only the scope lifetime
    needs    : capabilities the handle must have: 'inherent' (methods that exist on Bump/BumpScope only,
               not on the trait objects), 'scope' (handle derefs to a BumpScope: by_value),
               'default' (default settings: the expression names BumpSettings<..> explicitly)
    """

    def __init__(self, name, expr, mut=False, holds=False, needs=(), tier=QUICK):
        self.name, self.expr, self.mut, self.holds, self.needs, self.tier = name, expr, mut, holds, set(needs), tier


def _producers():
    P = Producer
    ps = [
        # --- BumpAllocatorTypedScope methods ------------------------------------------------
        P("alloc", "{m}.alloc(1u32)"),
        P("alloc_into_ref", "{m}.alloc(1u32).into_ref()"),
        P("alloc_into_mut", "{m}.alloc(1u32).into_mut()"),
        P("alloc_leak", "BumpBox::leak({m}.alloc(1u32))"),
        P("alloc_with", "{m}.alloc_with(|| 1u32)"),
        P("alloc_default", "{m}.alloc_default::<u32>()"),
        P("alloc_uninit", "{m}.alloc_uninit::<u32>()"),
        P("alloc_uninit_init", "{m}.alloc_uninit::<u32>().init(1)"),
        P("alloc_uninit_slice", "{m}.alloc_uninit_slice::<u32>(2)"),
        P("alloc_uninit_slice_for", "{m}.alloc_uninit_slice_for(&[1u32, 2])"),
        P("try_alloc", "{m}.try_alloc(1u32).unwrap()"),
        P("alloc_str", "{m}.alloc_str(\"a\")"),
        P("alloc_str_into_ref", "{m}.alloc_str(\"a\").into_ref()"),
        P("alloc_slice_copy", "{m}.alloc_slice_copy(&[1u32, 2])"),
        P("alloc_slice_clone", "{m}.alloc_slice_clone(&[1u32, 2])"),
        P("alloc_slice_fill", "{m}.alloc_slice_fill(2, 1u32)"),
        P("alloc_slice_fill_with", "{m}.alloc_slice_fill_with(2, || 1u32)"),
        P("alloc_slice_move", "{m}.alloc_slice_move([1u32, 2])"),
        P("alloc_iter", "{m}.alloc_iter([1u32, 2])"),
        P("alloc_iter_exact", "{m}.alloc_iter_exact([1u32, 2])"),
        P("alloc_fmt", "{m}.alloc_fmt(format_args!(\"{{}}\", 1))"),
        P("alloc_cstr", "{m}.alloc_cstr(c\"a\")"),
        P("alloc_cstr_from_str", "{m}.alloc_cstr_from_str(\"a\")"),
        P("alloc_cstr_fmt", "{m}.alloc_cstr_fmt(format_args!(\"{{}}\", 1))"),
        # --- MutBumpAllocatorTypedScope methods ---------------------------------------------
        P("alloc_iter_mut", "{m}.alloc_iter_mut([1u32, 2])", mut=True),
        P("alloc_iter_mut_rev", "{m}.alloc_iter_mut_rev([1u32, 2])", mut=True),
        P("alloc_fmt_mut", "{m}.alloc_fmt_mut(format_args!(\"{{}}\", 1))", mut=True),
        P("alloc_cstr_fmt_mut", "{m}.alloc_cstr_fmt_mut(format_args!(\"{{}}\", 1))", mut=True),
        # --- inherent-only methods -----------------------------------------------------------
        P("alloc_try_with", "{m}.alloc_try_with(|| Ok::<u32, ()>(1)).unwrap()", needs=["inherent"]),
        P("alloc_try_with_mut", "{m}.alloc_try_with_mut(|| Ok::<u32, ()>(1)).unwrap()", mut=True, needs=["inherent"]),
        P("stats", "{m}.stats()", needs=["inherent"]),
        P("stats_current_chunk", "{m}.stats().current_chunk()", needs=["inherent"]),
        P("stats_small_to_big", "{m}.stats().small_to_big()", needs=["inherent"]),
        P("stats_chunk_allocator", "{m}.stats().current_chunk().map(|c| c.allocator())", needs=["inherent"]),
        P("allocator", "{m}.allocator()", needs=["inherent"]),
        P("claim_guard", "{m}.claim()", holds=True, needs=["inherent"]),
        P("claim_alloc", "{m}.claim().alloc(1u32)", needs=["inherent"]),
        P("claim_alloc_str_ref", "{m}.claim().alloc_str(\"a\").into_ref()", needs=["inherent"]),
        # (BumpScope::aligned hands out the scope's own lifetime; Bump::aligned's closure is higher-ranked, hence 'scope')
        P("aligned_alloc", "{m}.aligned::<8, _>(|s| s.alloc(1u32))", mut=True, needs=["inherent", "scope"]),
        P("scope_guard", "{m}.scope_guard()", mut=True, holds=True, needs=["inherent"]),
        P("by_value", "{m}.by_value()", mut=True, holds=True, needs=["scope"]),
        P("by_value_alloc", "{m}.by_value().alloc(1u32)", mut=True, holds=True, needs=["scope"]),
        # --- collections -----------------------------------------------------------------------
        P("bumpvec", "{{ let mut v = BumpVec::new_in({sref}); v.push(1u32); v }}", holds=True),
        P("bumpvec_into_slice", "{{ let mut v = BumpVec::new_in({sref}); v.push(1u32); v.into_slice() }}"),
        P("bumpvec_into_boxed_slice", "{{ let mut v = BumpVec::new_in({sref}); v.push(1u32); v.into_boxed_slice() }}"),
        P("bumpvec_into_fixed_vec", "{{ let mut v = BumpVec::new_in({sref}); v.push(1u32); v.into_fixed_vec() }}"),
        P("bump_vec_macro", "bump_vec![in {sref}; 1u32, 2]", holds=True),
        P("bump_vec_macro_into_slice", "bump_vec![in {sref}; 1u32, 2].into_slice()"),
        P("bumpvec_from_iter_into_slice", "BumpVec::from_iter_in([1u32, 2], {sref}).into_slice()"),
        P("bumpstring", "{{ let mut s = BumpString::new_in({sref}); s.push('a'); s }}", holds=True),
        P("bumpstring_into_str", "{{ let mut s = BumpString::new_in({sref}); s.push('a'); s.into_str() }}"),
        P("bumpstring_into_boxed_str", "{{ let mut s = BumpString::new_in({sref}); s.push('a'); s.into_boxed_str() }}"),
        P("bumpstring_into_cstr", "{{ let mut s = BumpString::new_in({sref}); s.push('a'); s.into_cstr() }}"),
        P("bumpstring_into_fixed", "BumpString::from_str_in(\"a\", {sref}).into_fixed_string()"),
        P("fixedvec", "{{ let mut v = FixedBumpVec::with_capacity_in(2, {sref}); v.push(1u32); v }}"),
        P("fixedvec_into_slice", "{{ let mut v = FixedBumpVec::with_capacity_in(2, {sref}); v.push(1u32); v.into_slice() }}"),
        P("fixedstring_into_str", "{{ let mut s = FixedBumpString::with_capacity_in(2, {sref}); s.push('a'); s.into_str() }}"),
        P("mutbumpvec", "{{ let mut v = MutBumpVec::new_in({mref}); v.push(1u32); v }}", mut=True, holds=True),
        P("mutbumpvec_into_slice", "{{ let mut v = MutBumpVec::new_in({mref}); v.push(1u32); v.into_slice() }}", mut=True),
        P("mutbumpvec_into_boxed_slice", "{{ let mut v = MutBumpVec::new_in({mref}); v.push(1u32); v.into_boxed_slice() }}", mut=True),
        P("mutbumpvecrev_into_slice", "{{ let mut v = MutBumpVecRev::new_in({mref}); v.push(1u32); v.into_slice() }}", mut=True),
        P("mutbumpstring_into_str", "{{ let mut s = MutBumpString::new_in({mref}); s.push('a'); s.into_str() }}", mut=True),
        P("mutbumpstring_into_boxed_str", "{{ let mut s = MutBumpString::new_in({mref}); s.push('a'); s.into_boxed_str() }}", mut=True),
        # --- thorough-only extras -------------------------------------------------------------------
        P("try_alloc_str", "{m}.try_alloc_str(\"a\").unwrap()", tier=THOROUGH),
        P("try_alloc_with", "{m}.try_alloc_with(|| 1u32).unwrap()", tier=THOROUGH),
        P("try_alloc_default", "{m}.try_alloc_default::<u32>().unwrap()", tier=THOROUGH),
        P("try_alloc_slice_copy", "{m}.try_alloc_slice_copy(&[1u32, 2]).unwrap()", tier=THOROUGH),
        P("try_alloc_slice_clone", "{m}.try_alloc_slice_clone(&[1u32, 2]).unwrap()", tier=THOROUGH),
        P("try_alloc_slice_fill", "{m}.try_alloc_slice_fill(2, 1u32).unwrap()", tier=THOROUGH),
        P("try_alloc_slice_move", "{m}.try_alloc_slice_move([1u32, 2]).unwrap()", tier=THOROUGH),
        P("try_alloc_iter", "{m}.try_alloc_iter([1u32, 2]).unwrap()", tier=THOROUGH),
        P("try_alloc_iter_exact", "{m}.try_alloc_iter_exact([1u32, 2]).unwrap()", tier=THOROUGH),
        P("try_alloc_fmt", "{m}.try_alloc_fmt(format_args!(\"{{}}\", 1)).unwrap()", tier=THOROUGH),
        P("try_alloc_cstr", "{m}.try_alloc_cstr(c\"a\").unwrap()", tier=THOROUGH),
        P("try_alloc_cstr_from_str", "{m}.try_alloc_cstr_from_str(\"a\").unwrap()", tier=THOROUGH),
        P("try_alloc_cstr_fmt", "{m}.try_alloc_cstr_fmt(format_args!(\"{{}}\", 1)).unwrap()", tier=THOROUGH),
        P("try_alloc_uninit", "{m}.try_alloc_uninit::<u32>().unwrap()", tier=THOROUGH),
        P("try_alloc_uninit_slice", "{m}.try_alloc_uninit_slice::<u32>(2).unwrap()", tier=THOROUGH),
        P("try_alloc_iter_mut", "{m}.try_alloc_iter_mut([1u32, 2]).unwrap()", mut=True, tier=THOROUGH),
        P("try_alloc_iter_mut_rev", "{m}.try_alloc_iter_mut_rev([1u32, 2]).unwrap()", mut=True, tier=THOROUGH),
        P("try_alloc_fmt_mut", "{m}.try_alloc_fmt_mut(format_args!(\"{{}}\", 1)).unwrap()", mut=True, tier=THOROUGH),
        P("try_alloc_cstr_fmt_mut", "{m}.try_alloc_cstr_fmt_mut(format_args!(\"{{}}\", 1)).unwrap()", mut=True, tier=THOROUGH),
        P("try_alloc_try_with", "{m}.try_alloc_try_with(|| Ok::<u32, ()>(1)).unwrap().unwrap()", needs=["inherent"], tier=THOROUGH),
        P("alloc_array_into_boxed_slice", "{m}.alloc([1u32, 2]).into_boxed_slice()", tier=THOROUGH),
        P("alloc_slice_split_off", "{m}.alloc_slice_copy(&[1u32, 2, 3]).split_off(1..)", tier=THOROUGH),
        P("alloc_slice_split_at", "{m}.alloc_slice_copy(&[1u32, 2]).split_at(1)", tier=THOROUGH),
        P("alloc_str_split_off", "{m}.alloc_str(\"ab\").split_off(1..)", tier=THOROUGH),
        P("alloc_slice_into_iter", "{m}.alloc_slice_copy(&[1u32, 2]).into_iter()", tier=THOROUGH),
        P("alloc_dyn_unsize", "{{ let b: BumpBox<dyn std::fmt::Debug> = bump_scope::unsize_bump_box!({m}.alloc(1u32)); b }}", tier=THOROUGH),
        P("bumpvec_without_dealloc", "{{ let mut v = BumpVec::new_in(WithoutDealloc({sref})); v.push(1u32); v.into_slice() }}", tier=THOROUGH),
        P("bumpvec_without_shrink", "{{ let mut v = BumpVec::new_in(WithoutShrink({sref})); v.push(1u32); v.into_boxed_slice() }}", tier=THOROUGH),
        P("bumpvec_into_parts", "{{ let mut v = BumpVec::new_in({sref}); v.push(1u32); v.into_parts().0 }}", tier=THOROUGH),
        P("bumpvec_allocator_stats", "{{ let v = BumpVec::<u32, _>::new_in({sref}); *v.allocator() }}", holds=True, tier=THOROUGH),
        P("bumpstring_into_parts", "BumpString::from_str_in(\"a\", {sref}).into_parts().0", tier=THOROUGH),
        P("mutbumpvec_from_iter_into_slice", "MutBumpVec::from_iter_in([1u32, 2], {mref}).into_slice()", mut=True, tier=THOROUGH),
        P("mutbumpvecrev_into_boxed_slice", "{{ let mut v = MutBumpVecRev::new_in({mref}); v.push(1u32); v.into_boxed_slice() }}", mut=True, tier=THOROUGH),
        P("mutbumpstring_into_cstr", "{{ let mut s = MutBumpString::new_in({mref}); s.push('a'); s.into_cstr() }}", mut=True, tier=THOROUGH),
        P("borrow_with_settings_alloc", "{m}.borrow_with_settings::<BumpSettings<1, true, false>>().alloc(1u32)", needs=["inherent", "default"], tier=THOROUGH),
        P("borrow_mut_with_settings_alloc", "{m}.borrow_mut_with_settings::<BumpSettings<8>>().alloc(1u32)", mut=True, needs=["inherent", "default"], tier=THOROUGH),
        P("by_value_with_settings_alloc", "{m}.by_value().with_settings::<BumpSettings<8>>().alloc(1u32)", mut=True, holds=True, needs=["scope", "default"], tier=THOROUGH),
        P("stats_big_to_small", "{m}.stats().big_to_small()", needs=["inherent"], tier=THOROUGH),
        P("stats_allocator", "{m}.stats().allocator()", needs=["inherent"], tier=THOROUGH),
    ]
    names = [p.name for p in ps]
    assert len(names) == len(set(names))
    return ps


PRODUCERS = _producers()


# ----------------------------------------------------------------------------------------------
# handle kinds
# ----------------------------------------------------------------------------------------------
class Handle:
    """Where the producer is invoked.

    family 'closure': `scope` is the `&mut BumpScope` parameter of a `scoped`-like closure      (routes r1 r2 r13; r9 for claim)
    family 'guard'  : `scope` is `guard.scope()` of a BumpScopeGuard                             (routes r3 r3b r4 r5 r13)
    family 'bump'   : the producer is called on the Bump itself (or `bump.as_scope()`)           (routes r6 r7 r8 r8b r8c r8d r8e)
    family 'lease'  : a guard that hands out allocations living as long as the *owner* borrow:
                      BumpPoolGuard (owner = pool, routes r10*) and BumpClaimGuard (owner = bump, routes r6-r8);
                      allocations legitimately outlive the guard itself (control r11)
    """

    def __init__(self, name, family, tier=QUICK, **kw):
        self.name, self.family, self.tier = name, family, tier
        self.wrap_open = kw.get("wrap_open", [])
        self.wrap_close = kw.get("wrap_close", [])
        self.owner_setup = kw.get("owner_setup", ["let mut bump: Bump = Bump::new();"])
        self.owner = kw.get("owner", "bump")
        self.owner_caps = set(kw.get("owner_caps", ["reset"]))
        self.pre_open = kw.get("pre_open", [])
        self.open = kw.get("open")
        self.close = kw.get("close", "})")
        self.post_close = kw.get("post_close", [])
        self.guard_setup = kw.get("guard_setup", [])
        self.gvar = kw.get("gvar", "guard")
        self.inner = kw.get("inner", [])  # fixed lines after the handle exists (e.g. trait-object rebinding)
        self.inner_fn = kw.get("inner_fn")  # or: function(need_mut) -> lines
        self.m = kw.get("m", "scope")
        self.sref = kw.get("sref", "&*scope")
        self.mref = kw.get("mref", "&mut *scope")
        self.caps = set(kw.get("caps", ["inherent", "scope", "default"]))
        self.escapes = kw.get("escapes", [])
        self.desc = kw.get("desc", name)

    def inner_lines(self, need_mut):
        return list(self.inner_fn(need_mut)) if self.inner_fn else list(self.inner)

    def expr(self, p):
        return p.expr.format(m=self.m, sref=self.sref, mref=self.mref)

    def accepts(self, p):
        return p.needs <= self.caps


DYN_REBIND = ["let scope: &mut dyn MutBumpAllocatorCoreScope<'_> = scope;"]
SCOPE_PARAM = dict(wrap_open=["fn inner(mut bump: BumpScope) {"], wrap_close=["}"], owner_setup=[], owner_caps=[])
MUTREF_PARAM = dict(wrap_open=["fn inner(bump: &mut Bump) {"], wrap_close=["}"], owner_setup=[])
IN_SCOPED = dict(
    wrap_open=["let mut root: Bump = Bump::new();", "root.scoped(|bump| {"], wrap_close=["});"], owner_setup=[], owner_caps=[]
)
DOWN = dict(owner_setup=["let mut bump: Bump<Global, BumpSettings<1, false>> = Bump::new();"])
UNALLOC = dict(owner_setup=["let mut bump: Bump<Global, BumpSettings<1, true, false>> = Bump::new();"])

POOL_ESCAPES = [
    ("r10a", "pool.reset();", "kept across BumpPool::reset"),
    ("r10a2", "pool.reset_to_start();", "kept across BumpPool::reset_to_start"),
    ("r10b", "drop(pool);", "kept across drop(pool)"),
    ("r10d", "pool.bumps().clear();", "kept while the pool's Bumps are dropped through BumpPool::bumps()"),
    ("r10f", "pool = BumpPool::new();", "kept while the pool is overwritten"),
]
CLAIM_ESCAPES = [
    ("r6", "bump.reset();", "kept across Bump::reset (allocated through a claim guard)"),
    ("r7", "bump.reset_to_start();", "kept across Bump::reset_to_start (allocated through a claim guard)"),
    ("r8", "drop(bump);", "kept across drop(bump) (allocated through a claim guard)"),
    ("r8d", "bump = Bump::new();", "kept while the Bump is overwritten (allocated through a claim guard)"),
]

HANDLES = [
    # ---- closure family ---------------------------------------------------------------------
    Handle("scoped", "closure", open="bump.scoped(|scope| {", desc="&mut BumpScope inside bump.scoped(|scope| ..)"),
    Handle("scoped_aligned", "closure", open="bump.scoped_aligned::<8, _>(|scope| {", caps=["inherent", "scope"],
           desc="&mut BumpScope inside bump.scoped_aligned::<8, _>(|scope| ..)"),
    Handle("claim_scoped", "closure", owner_setup=["let mut bump: Bump = Bump::new();", "let mut claim = bump.claim();"],
           owner="claim", owner_caps=[], open="claim.scoped(|scope| {",
           desc="the inner scope of a claim guard, bump.claim().scoped(|scope| ..)"),
    Handle("scoped_dyn", "closure", open="bump.scoped(|scope| {", inner=DYN_REBIND, m="scope", sref="&*scope", mref="&mut *scope",
           caps=[], desc="&mut dyn MutBumpAllocatorCoreScope made from the scoped closure's BumpScope"),
    Handle("scope_param_scoped", "closure", open="bump.scoped(|scope| {", desc="scoped on a by-value BumpScope parameter", **SCOPE_PARAM),
    Handle("mutref_param_scoped", "closure", tier=THOROUGH, open="bump.scoped(|scope| {", desc="scoped on a &mut Bump parameter", **MUTREF_PARAM),
    Handle("nested_scoped", "closure", tier=THOROUGH, pre_open=["bump.scoped(|parent| {"], open="parent.scoped(|scope| {",
           post_close=["})"], owner="parent", owner_caps=[], desc="scoped inside scoped"),
    Handle("scoped_down", "closure", tier=THOROUGH, open="bump.scoped(|scope| {", caps=["inherent", "scope"],
           desc="scoped on a downwards-bumping Bump", **DOWN),
    Handle("scoped_unallocated", "closure", tier=THOROUGH, open="bump.scoped(|scope| {", caps=["inherent", "scope"],
           desc="scoped on a not guaranteed-allocated Bump", **UNALLOC),
    Handle("pool_scoped", "closure", tier=THOROUGH, owner_setup=["let pool: BumpPool = BumpPool::new();", "let mut lease = pool.get();"],
           owner="lease", owner_caps=[], open="lease.scoped(|scope| {", desc="scoped on a BumpPoolGuard"),
    Handle("aligned_scoped", "closure", tier=THOROUGH, pre_open=["bump.aligned::<8, _>(|parent| {"], open="parent.scoped(|scope| {",
           post_close=["})"], owner="parent", owner_caps=[], caps=["inherent", "scope"], desc="scoped inside aligned::<8>"),
    # ---- guard family -------------------------------------------------------------------------
    Handle("guard", "guard", guard_setup=["let mut guard = bump.scope_guard();", "let scope = guard.scope();"],
           desc="guard.scope() of let mut guard = bump.scope_guard()"),
    Handle("guard_dyn", "guard", guard_setup=["let mut guard = bump.scope_guard();", "let scope = guard.scope();"], inner=DYN_REBIND,
           caps=[], desc="&mut dyn MutBumpAllocatorCoreScope made from guard.scope()"),
    Handle("scope_param_guard", "guard", guard_setup=["let mut guard = bump.scope_guard();", "let scope = guard.scope();"],
           desc="scope guard of a by-value BumpScope parameter", **SCOPE_PARAM),
    Handle("guard_in_scoped", "guard", tier=THOROUGH, guard_setup=["let mut guard = bump.scope_guard();", "let scope = guard.scope();"],
           desc="scope guard created inside a scoped closure", **IN_SCOPED),
    Handle("guard_down", "guard", tier=THOROUGH, guard_setup=["let mut guard = bump.scope_guard();", "let scope = guard.scope();"],
           caps=["inherent", "scope"], desc="scope guard of a downwards-bumping Bump", **DOWN),
    Handle("mutref_param_guard", "guard", tier=THOROUGH, guard_setup=["let mut guard = bump.scope_guard();", "let scope = guard.scope();"],
           desc="scope guard of a &mut Bump parameter", **MUTREF_PARAM),
    # ---- bump family --------------------------------------------------------------------------
    Handle("bump", "bump", m="bump", sref="&bump", mref="&mut bump", caps=["inherent", "default"], desc="the Bump itself"),
    Handle("bump_as_scope", "bump", m="scope", sref="scope", mref="&mut *scope",
           inner_fn=lambda mut: ["let scope = bump.as_mut_scope();"] if mut else ["let scope = bump.as_scope();"],
           desc="bump.as_scope() / bump.as_mut_scope()"),
    Handle("bump_down", "bump", tier=THOROUGH, m="bump", sref="&bump", mref="&mut bump", caps=["inherent"],
           desc="a downwards-bumping Bump", **DOWN),
    Handle("bump_unallocated", "bump", tier=THOROUGH, m="bump", sref="&bump", mref="&mut bump", caps=["inherent"],
           desc="a not guaranteed-allocated Bump", **UNALLOC),
    Handle("bump_dyn", "bump", tier=THOROUGH, m="scope", sref="&*scope", mref="&mut *scope", caps=[],
           inner=["let scope: &mut dyn MutBumpAllocatorCoreScope<'_> = bump.as_mut_scope();"],
           desc="&mut dyn MutBumpAllocatorCoreScope made from bump.as_mut_scope()"),
    # ---- lease family ---------------------------------------------------------------------------
    Handle("pool", "lease", owner_setup=["let mut pool: BumpPool = BumpPool::new();"], owner="pool",
           guard_setup=["let mut guard = pool.get();"], gvar="guard", m="guard", sref="&*guard", mref="&mut *guard",
           escapes=POOL_ESCAPES, desc="a BumpPoolGuard: let mut guard = pool.get()"),
    Handle("claim", "lease", owner_setup=["let mut bump: Bump = Bump::new();"], owner="bump",
           guard_setup=["let mut claim = bump.claim();"], gvar="claim", m="claim", sref="&*claim", mref="&mut *claim",
           escapes=CLAIM_ESCAPES, desc="a BumpClaimGuard: let mut claim = bump.claim()"),
    Handle("scope_claim", "lease", tier=THOROUGH, owner_setup=["let mut bump: Bump = Bump::new();"], owner="bump",
           guard_setup=["let mut claim = bump.as_scope().claim();"], gvar="claim", m="claim", sref="&*claim", mref="&mut *claim",
           escapes=CLAIM_ESCAPES, desc="a BumpClaimGuard of bump.as_scope()"),
]

ROUTE_DESC = {
    "r1": "returned from the scoped closure",
    "r2": "assigned to a variable declared outside the closure",
    "r2b": "pushed into a Vec declared outside the closure",
    "r2c": "stored in a RefCell declared outside the closure",
    "r2d": "sent through a channel created outside the closure",
    "r3": "kept while the scope guard is dropped",
    "r3b": "kept past the end of the block that owns the scope guard",
    "r4": "kept across a second guard.scope()",
    "r5": "kept across guard.reset()",
    "r6": "kept across Bump::reset",
    "r7": "kept across Bump::reset_to_start",
    "r8": "kept across drop(bump)",
    "r8b": "kept past the end of the block that owns the Bump",
    "r8c": "returned from the function that owns the Bump",
    "r8d": "kept while the Bump is overwritten",
    "r8e": "kept while the Bump is taken with mem::take",
    "r10c": "kept past the end of the block that owns the pool",
    "r10e": "returned from the function that owns the pool",
    "r11": "CONTROL ONLY: an allocation made through a pool/claim guard outlives the guard (it lives as long as the owner borrow)",
    "r11x": "a value holding the guard borrow itself is kept across drop(guard)",
    "r13a": "the outer allocator is used for an allocation while the inner scope is still in use",
    "r13b": "the outer Bump is reset while the inner scope is still in use",
    "r13c": "the outer allocator's stats are read while the inner scope is mutably borrowed from it",
}


class Case:
    def __init__(self, kind, handle, route, producer, fail, ctrl, desc, tier):
        self.kind, self.handle, self.route, self.producer = kind, handle, route, producer
        self.fail, self.ctrl, self.desc, self.tier = fail, ctrl, desc, tier
        self.cid = "%s/%s/%s/%s" % ({"borrowck": "B", "trait": "T", "const": "S", "control": "K", "constctl": "KS"}[kind], handle, route, producer)
        self.params = "%s | %s | %s" % (producer, handle, route)
        self.fail_src = self.ctrl_src = None  # filled when rendered
        self.fail_loc = self.ctrl_loc = None


def _closure_body(h, need_mut, pre, inner_lines, result_var=None, after_inner=(), post=()):
    lines = list(h.wrap_open) + list(h.owner_setup) + list(pre)
    opens = list(h.pre_open) + [h.open]
    if result_var:
        opens[0] = "let %s = %s" % (result_var, opens[0])
    lines += opens + h.inner_lines(need_mut) + list(inner_lines)
    closes = [h.close] + list(h.post_close)
    if after_inner:
        closes[0] += ";"
        closes[1:1] = list(after_inner)
    if not closes[-1].endswith(";"):
        closes[-1] += ";"
    lines += closes + list(post) + list(h.wrap_close)
    return lines


def closure_routes(h, p, tier):
    px = "let x = %s;" % h.expr(p)
    o = h.owner
    out = []
    out.append(("r1", _closure_body(h, p.mut, [], [px, "x"], "r", post=["sink(r);"]),
                _closure_body(h, p.mut, [], [px, "sink(x);"], "r", post=["sink(r);"])))
    out.append(("r2", _closure_body(h, p.mut, ["let mut escaped = None;"], [px, "escaped = Some(x);"], post=["sink(escaped);"]),
                _closure_body(h, p.mut, [], ["let mut escaped = None;", px, "escaped = Some(x);", "sink(escaped);"])))
    if tier == THOROUGH:
        out.append(("r2b", _closure_body(h, p.mut, ["let mut escaped = Vec::new();"], [px, "escaped.push(x);"], post=["sink(escaped);"]),
                    _closure_body(h, p.mut, [], ["let mut escaped = Vec::new();", px, "escaped.push(x);", "sink(escaped);"])))
        out.append(("r2c", _closure_body(h, p.mut, ["let escaped = RefCell::new(None);"], [px, "*escaped.borrow_mut() = Some(x);"], post=["sink(escaped);"]),
                    _closure_body(h, p.mut, [], ["let escaped = RefCell::new(None);", px, "*escaped.borrow_mut() = Some(x);", "sink(escaped);"])))
        out.append(("r2d", _closure_body(h, p.mut, ["let (tx, rx) = std::sync::mpsc::channel();"], [px, "tx.send(x).ok();"], post=["sink(rx.try_recv());"]),
                    _closure_body(h, p.mut, [], ["let (tx, rx) = std::sync::mpsc::channel();", px, "tx.send(x).ok();", "sink(rx.try_recv());"])))
    uses = [("r13a", ["let y = %s.alloc(2u32);" % o, "sink(y);"])]
    if tier == THOROUGH or p.name in R13_SUBSET:
        if "reset" in h.owner_caps:
            uses.append(("r13b", ["%s.reset();" % o]))
        uses.append(("r13c", ["let y = %s.stats();" % o, "sink(y);"]))
    for r, use in uses:
        out.append((r, _closure_body(h, p.mut, [], [px] + use + ["sink(x);"]),
                    _closure_body(h, p.mut, [], [px, "sink(x);"], after_inner=use)))
    return out


def guard_routes(h, p, tier):
    px = "let x = %s;" % h.expr(p)
    o = h.owner
    head = list(h.wrap_open) + list(h.owner_setup)
    gs = list(h.guard_setup) + h.inner_lines(p.mut)
    tail = list(h.wrap_close)
    out = []

    def lin(r, esc):
        out.append((r, head + gs + [px] + esc + ["sink(x);"] + tail, head + gs + [px, "sink(x);"] + esc + tail))

    lin("r3", ["drop(guard);"])
    out.append(("r3b", head + ["let escaped;", "{"] + gs + [px, "escaped = x;", "}", "sink(escaped);"] + tail,
                head + ["{"] + gs + ["let escaped;", px, "escaped = x;", "sink(escaped);", "}"] + tail))
    lin("r4", ["let y = guard.scope().alloc(2u32);", "sink(y);"])
    lin("r5", ["guard.reset();"])
    uses = [("r13a", ["let y = %s.alloc(2u32);" % o, "sink(y);"])]
    if tier == THOROUGH or p.name in R13_SUBSET:
        if "reset" in h.owner_caps:
            uses.append(("r13b", ["%s.reset();" % o]))
        uses.append(("r13c", ["let y = %s.stats();" % o, "sink(y);"]))
    for r, use in uses:
        out.append((r, head + gs + [px] + use + ["sink(x);", "drop(guard);"] + tail,
                    head + gs + [px, "sink(x);", "drop(guard);"] + use + tail))
    return out


def bump_routes(h, p, tier):
    px = "let x = %s;" % h.expr(p)
    setup = list(h.owner_setup) + h.inner_lines(p.mut)
    out = []
    for r, esc in [("r6", ["bump.reset();"]), ("r7", ["bump.reset_to_start();"]), ("r8", ["drop(bump);"]),
                   ("r8d", ["bump = Bump::new();"]), ("r8e", ["let taken = std::mem::take(&mut bump);", "sink(taken);"])]:
        out.append((r, setup + [px] + esc + ["sink(x);"], setup + [px, "sink(x);"] + esc))
    out.append(("r8b", ["let escaped;", "{"] + setup + [px, "escaped = x;", "}", "sink(escaped);"],
                ["{"] + setup + ["let escaped;", px, "escaped = x;", "sink(escaped);", "}"]))
    out.append(("r8c", ["fn inner() -> impl Sized + 'static {"] + setup + [px, "x", "}"],
                ["fn inner() -> impl Sized + 'static {"] + setup + [px, "sink(x);", "}"]))
    return out


def lease_routes(h, p, tier):
    px = "let x = %s;" % h.expr(p)
    setup = list(h.owner_setup) + list(h.guard_setup) + h.inner_lines(p.mut)
    g = h.gvar
    out = []
    for r, stmt, _d in h.escapes:
        out.append((r, setup + [px, "drop(%s);" % g, stmt, "sink(x);"], setup + [px, "sink(x);", "drop(%s);" % g, stmt]))
    blk, ret = ("r10c", "r10e") if h.owner == "pool" else ("r8b", "r8c")
    out.append((blk, ["let escaped;", "{"] + setup + [px, "escaped = x;", "}", "sink(escaped);"],
                ["{"] + setup + ["let escaped;", px, "escaped = x;", "sink(escaped);", "}"]))
    out.append((ret, ["fn inner() -> impl Sized + 'static {"] + setup + [px, "x", "}"],
                ["fn inner() -> impl Sized + 'static {"] + setup + [px, "sink(x);", "}"]))
    if p.holds:
        out.append(("r11x", setup + [px, "drop(%s);" % g, "sink(x);"], setup + [px, "sink(x);", "drop(%s);" % g]))
    else:
        out.append(("r11", None, setup + [px, "drop(%s);" % g, "sink(x);"]))
    return out


# r13b / r13c do not depend on what `x` is (the conflict is between the outer allocator and the scope itself), so the
# quick tier crosses them with a representative producer subset only; the thorough tier takes all producers.
R13_SUBSET = {"alloc", "alloc_into_ref", "alloc_iter_mut", "bumpvec", "bumpvec_into_slice", "mutbumpvec_into_slice", "stats", "claim_guard", "by_value"}


FAMILY = {"closure": closure_routes, "guard": guard_routes, "bump": bump_routes, "lease": lease_routes}


def route_desc(h, r):
    for rr, _s, d in h.escapes:
        if rr == r:
            return d
    d = ROUTE_DESC[r]
    if h.name == "claim_scoped":
        d = "r9 (claim guard's inner scope): " + d
    return d


def borrow_cases(tier):
    """RULE: a (producer, handle) pair is generated iff the handle offers every capability the producer's
    expression needs (inherent-only methods are not available on trait objects, by_value only where the handle
    derefs to a BumpScope, expressions naming BumpSettings<..> only on default-settings handles); each pair is
    combined with *every* route of the handle's family (closure: r1 r2 r13*, guard: r3 r3b r4 r5 r13*,
    bump: r6 r7 r8 r8b-e, lease(pool): r10*, lease(claim): r6-r8*; r13b only where the owner has reset())."""
    cases = []
    tiers = (QUICK,) if tier == QUICK else (QUICK, THOROUGH)
    for h in HANDLES:
        if h.tier not in tiers:
            continue
        for p in PRODUCERS:
            if p.tier not in tiers or not h.accepts(p):
                continue
            for r, fail, ctrl in FAMILY[h.family](h, p, tier):
                desc = "%s, obtained from %s, is %s" % (h.expr(p), h.desc, route_desc(h, r))
                kind = "borrowck" if fail is not None else "control"
                cases.append(Case(kind, h.name, r, p.name, fail, ctrl, desc, tier))
    return cases


# ----------------------------------------------------------------------------------------------
# r12: sending to another thread (decided by the trait solver: E0277)
# ----------------------------------------------------------------------------------------------
ALLOCS = [("rc", "RcAlloc"), ("ptr", "PtrAlloc")]


def trait_cases(tier):
    """Every case exists for both non-Send base allocators.  `twin` says what the control is:
    'global'  - the identical program with the Send + Sync base allocator Global must compile
    'local'   - the value is not Send/Sync for *any* base allocator (Bump is !Sync, BumpScope is !Send), so the
                identical program is also generated as must-fail for Global, and the control runs the same closure
                on the current thread instead of spawning it."""
    bump = "let mut bump: Bump<{A}> = Bump::new_in(<{A}>::default());"
    pool = "let mut pool: BumpPool<{A}> = BumpPool::new_in(<{A}>::default());"
    T = [
        ("spawn_move_bump", "global", [bump], "std::thread::spawn(move || {", ["sink(bump);"], "});",
         "a Bump whose base allocator is not Send is moved into std::thread::spawn"),
        ("scope_move_bump", "global", [bump], "std::thread::scope(|s| { s.spawn(move || {", ["sink(bump);"], "}); });",
         "a Bump whose base allocator is not Send is moved into a scoped thread"),
        ("spawn_move_bump_alloc", "global", [bump], "std::thread::spawn(move || {", ["let x = bump.alloc(1u32);", "sink(x);"], "});",
         "a Bump whose base allocator is not Send is moved into a thread and allocated from there"),
        ("scope_ref_bump", "local", [bump], "std::thread::scope(|s| { s.spawn(|| {", ["let x = bump.alloc(1u32);", "sink(x);"], "}); });",
         "a &Bump is used from a scoped thread (Bump is not Sync)"),
        ("scope_ref_bump_stats", "local", [bump], "std::thread::scope(|s| { s.spawn(|| {", ["sink(bump.stats().allocated());"], "}); });",
         "a &Bump is read from a scoped thread (Bump is not Sync)"),
        ("arc_bump", "local", [bump, "let shared = Arc::new(bump);"], "std::thread::spawn(move || {", ["sink(shared.alloc(1u32).into_ref().clone());"], "});",
         "an Arc<Bump> is sent to another thread (Bump is not Sync)"),
        ("scope_bumpvec", "local", [bump, "let mut v = BumpVec::new_in(&bump);", "v.push(1u32);"], "std::thread::scope(|s| { s.spawn(move || {", ["sink(v);"], "}); });",
         "a BumpVec holding &Bump is moved into a scoped thread"),
        ("scope_bumpstring", "local", [bump, "let mut v = BumpString::new_in(&bump);", "v.push('a');"], "std::thread::scope(|s| { s.spawn(move || {", ["sink(v);"], "}); });",
         "a BumpString holding &Bump is moved into a scoped thread"),
        ("scope_mut_scope", "local", [bump], "bump.scoped(|scope| { std::thread::scope(|s| { s.spawn(|| {", ["let x = scope.alloc(1u32);", "sink(x);"], "}); }); });",
         "the &mut BumpScope of a scoped closure is used from a scoped thread"),
        ("scope_scope_guard", "local", [bump, "let mut guard = bump.scope_guard();"], "std::thread::scope(|s| { s.spawn(move || {", ["sink(guard);"], "}); });",
         "a BumpScopeGuard is moved into a scoped thread"),
        ("scope_stats", "local", [bump, "let stats = bump.stats();"], "std::thread::scope(|s| { s.spawn(move || {", ["sink(stats.allocated());"], "}); });",
         "a Stats value is moved into a scoped thread"),
        ("scope_claim_guard", "local", [bump, "let claim = bump.claim();"], "std::thread::scope(|s| { s.spawn(move || {", ["sink(claim);"], "}); });",
         "a BumpClaimGuard is moved into a scoped thread"),
        ("scope_mutbumpvec", "global", [bump, "let mut v = MutBumpVec::new_in(&mut bump);", "v.push(1u32);"], "std::thread::scope(|s| { s.spawn(move || {", ["sink(v);"], "}); });",
         "a MutBumpVec holding &mut Bump is moved into a scoped thread"),
        ("spawn_move_pool", "global", [pool], "std::thread::spawn(move || {", ["sink(pool);"], "});",
         "a BumpPool whose base allocator is not Send is moved into std::thread::spawn"),
        ("scope_ref_pool", "global", [pool], "std::thread::scope(|s| { s.spawn(|| {", ["let guard = pool.get();", "sink(guard.alloc(1u32).into_ref().clone());"], "}); });",
         "a &BumpPool whose base allocator is not Send/Sync is used from a scoped thread"),
        ("scope_pool_guard", "global", [pool, "let guard = pool.get();"], "std::thread::scope(|s| { s.spawn(move || {", ["sink(guard.alloc(1u32).into_ref().clone());"], "}); });",
         "a BumpPoolGuard of a pool whose base allocator is not Send is moved into a scoped thread"),
        ("arc_pool", "global", [pool, "let shared = Arc::new(pool);"], "std::thread::spawn(move || {", ["let guard = shared.get();", "sink(guard.alloc(1u32).into_ref().clone());"], "});",
         "an Arc<BumpPool> whose base allocator is not Send/Sync is sent to another thread"),
    ]
    cases = []
    for name, twin, setup, opn, body, close, desc in T:
        allocs = list(ALLOCS) + ([("global", "Global")] if twin == "local" else [])
        for an, A in allocs:
            fail = [l.format(A=A) for l in setup] + [opn] + body + [close]
            if twin == "global":
                ctrl = [l.format(A="Global") for l in setup] + [opn] + body + [close]
            else:
                mv = "move " if "move ||" in opn else ""
                pre = opn.split("std::thread::scope")[0] if "std::thread::scope" in opn else ""
                post = close.split("}); });", 1)[1] if "std::thread::scope" in opn else ""
                ctrl = [l.format(A=A) for l in setup] + [pre + "(%s|| {" % mv] + body + ["})();" + post]
            cases.append(Case("trait", "thread", "r12", "%s.%s" % (name, an), fail, ctrl,
                              "%s (base allocator %s)" % (desc, A), tier))
    # control only: BumpBox<T: Send> is Send by design (dropping it never touches the allocator)
    for an, A in ALLOCS:
        body = ["let bump: Bump<%s> = Bump::new_in(<%s>::default());" % (A, A), "let x = bump.alloc(1u32);",
                "std::thread::scope(|s| { s.spawn(move || {", "sink(x);", "}); });"]
        cases.append(Case("control", "thread", "r12", "scope_bumpbox.%s" % an, None, body,
                          "CONTROL ONLY: a BumpBox<u32> may be moved into a scoped thread whatever the base allocator is", tier))
    return cases


# ----------------------------------------------------------------------------------------------
# settings conversions (decided by const evaluation during monomorphisation: E0080)
# ----------------------------------------------------------------------------------------------
def S(align=1, up=True, ga=True, cl=True):
    return (align, up, ga, cl)


def sty(s):
    return "BumpSettings<%d, %s, %s, %s>" % (s[0], str(s[1]).lower(), str(s[2]).lower(), str(s[3]).lower())


def conv_must_fail(method, i, o):
    """The documented compile-time rules (doc comments of the six methods, src/bump.rs and src/bump_scope.rs)."""
    ia, iu, ig, ic = i
    oa, ou, og, oc = o
    if iu != ou:
        return "UP changed"
    kind = method.split(".")[1]
    if kind == "borrow":
        if ia != oa:
            return "MIN_ALIGN changed on a shared borrow"
        if ic != oc:
            return "CLAIMABLE changed on a shared borrow"
        if og and not ig:
            return "GUARANTEED_ALLOCATED raised on a shared borrow"
    elif kind == "borrow_mut":
        if oa < ia:
            return "MIN_ALIGN lowered on a mutable borrow"
        if ig != og:
            return "GUARANTEED_ALLOCATED changed on a mutable borrow"
        if ic != oc:
            return "CLAIMABLE changed on a mutable borrow"
    elif method == "scope.into":
        if oa < ia:
            return "MIN_ALIGN lowered by BumpScope::with_settings"
    return None


CONV_METHODS = {
    "bump.borrow": ("fn convert(b: &Bump<Global, In>) -> &Bump<Global, Out> { b.borrow_with_settings() }",
                    ["let input = Bump::<Global, In>::new();", "let out = convert(&input);", "USE"]),
    "bump.borrow_mut": ("fn convert(b: &mut Bump<Global, In>) -> &mut Bump<Global, Out> { b.borrow_mut_with_settings() }",
                        ["let mut input = Bump::<Global, In>::new();", "let out = convert(&mut input);", "USE"]),
    "bump.into": ("fn convert(b: Bump<Global, In>) -> Bump<Global, Out> { b.with_settings() }",
                  ["let input = Bump::<Global, In>::new();", "let out = convert(input);", "USE"]),
    "scope.borrow": ("fn convert<'a, 'b>(b: &'b BumpScope<'a, Global, In>) -> &'b BumpScope<'a, Global, Out> { b.borrow_with_settings() }",
                     ["let input = Bump::<Global, In>::new();", "let out = convert(input.as_scope());", "USE"]),
    "scope.borrow_mut": ("fn convert<'a, 'b>(b: &'b mut BumpScope<'a, Global, In>) -> &'b mut BumpScope<'a, Global, Out> { b.borrow_mut_with_settings() }",
                         ["let mut input = Bump::<Global, In>::new();", "let out = convert(input.as_mut_scope());", "USE"]),
    "scope.into": ("fn convert<'a>(b: BumpScope<'a, Global, In>) -> BumpScope<'a, Global, Out> { b.with_settings() }",
                   ["let mut input = Bump::<Global, In>::new();", "input.scoped(|s| {", "let out = convert(s.by_value());", "USE", "});"]),
}
USE = "let t = out.alloc_str(\"t\"); std::hint::black_box(&t);"

CONST_PRELUDE = """#![allow(unused)]
#![deny(unsafe_code)]
use bump_scope::{Bump, BumpPool, BumpScope, alloc::Global, settings::BumpSettings};
use bump_scope::traits::*;
"""


def conv_program(method, i, o):
    fn, body = CONV_METHODS[method]
    lines = ["type In = %s;" % sty(i), "type Out = %s;" % sty(o), fn]
    lines += [USE if l == "USE" else l for l in body]
    return lines  # body of `pub fn case() { .. }` (items first, then statements)


def claim_program(where, cl):
    s = sty(S(cl=cl))
    setup = {"bump": ["let mut bump = Bump::<Global, %s>::new();" % s, "let c = bump.claim();"],
             "as_scope": ["let mut bump = Bump::<Global, %s>::new();" % s, "let c = bump.as_scope().claim();"],
             "scoped": ["let mut bump = Bump::<Global, %s>::new();" % s, "bump.scoped(|scope| {", "let c = scope.claim();"],
             "pool": ["let pool = BumpPool::<Global, %s>::new();" % s, "let guard = pool.get();", "let c = guard.claim();"],
             "trait": ["fn generic<'a, B: BumpAllocatorScope<'a>>(b: &B) { let c = b.claim(); std::hint::black_box(&*c); }",
                       "let mut bump = Bump::<Global, %s>::new();" % s, "let c = bump.as_scope();", "generic(c);"]}[where]
    tail = ["let t = c.alloc_str(\"t\"); std::hint::black_box(&t);"] if where != "trait" else []
    if where == "scoped":
        tail = tail + ["});"]
    return setup + tail


def const_cases(tier):
    """RULE: every one of the six conversion methods x every single-dimension change of
    (MIN_ALIGN up/down, UP both ways, GUARANTEED_ALLOCATED both ways, CLAIMABLE both ways) and the identity; the
    thorough tier takes the full product In x Out over {MIN_ALIGN 1,8} x UP x GA x CLAIMABLE.  Whether a conversion
    must be rejected is taken from the *documented* rules (conv_must_fail).  Must-fail conversions have the identity
    conversion through the same method as control twin; permitted conversions are control-only programs.
    Plus claim() on a CLAIMABLE=false allocator (twin: CLAIMABLE=true)."""
    base = S()
    pairs = []
    if tier == QUICK:
        for name, i, o in [("identity", base, base), ("align_up", S(1), S(2)), ("align_down", S(2), S(1)),
                           ("align_up16", S(1), S(16)), ("align_down16", S(16), S(8)),
                           ("up_to_false", S(up=True), S(up=False)), ("up_to_true", S(up=False), S(up=True)),
                           ("ga_decrease", S(ga=True), S(ga=False)), ("ga_increase", S(ga=False), S(ga=True)),
                           ("claimable_decrease", S(cl=True), S(cl=False)), ("claimable_increase", S(cl=False), S(cl=True)),
                           ("identity_down_unalloc", S(8, False, False, False), S(8, False, False, False)),
                           ("align_down_and_ga_decrease", S(2, True, True), S(1, True, False)),
                           ("align_up_and_up_flip", S(1, True), S(2, False))]:
            pairs.append((name, i, o))
    else:
        dom = [S(a, u, g, c) for a in (1, 8) for u in (True, False) for g in (True, False) for c in (True, False)]
        for i in dom:
            for o in dom:
                pairs.append(("%d%d%d%d_to_%d%d%d%d" % (i + o), i, o))
        pairs += [("align_up16", S(1), S(16)), ("align_down16", S(16), S(8)), ("align_up", S(1), S(2)), ("align_down", S(2), S(1))]
    cases = []
    for method in CONV_METHODS:
        for name, i, o in pairs:
            why = conv_must_fail(method, i, o)
            prog = conv_program(method, i, o)
            if why:
                c = Case("const", method, "conv", name, prog, conv_program(method, i, i),
                         "%s from %s to %s must not compile: %s" % (method, sty(i), sty(o), why), tier)
            else:
                c = Case("constctl", method, "conv", name, None, prog,
                         "CONTROL ONLY: %s from %s to %s is a permitted conversion" % (method, sty(i), sty(o)), tier)
            cases.append(c)
    for where in ("bump", "as_scope", "scoped", "pool", "trait"):
        cases.append(Case("const", "claim", "claim", where, claim_program(where, False), claim_program(where, True),
                          "claim() (%s) on a CLAIMABLE = false allocator must not compile" % where, tier))
    return cases


def all_cases(tier):
    cs = borrow_cases(tier) + trait_cases(tier) + const_cases(tier)
    ids = [c.cid for c in cs]
    assert len(ids) == len(set(ids)), "duplicate case ids"
    return cs


# ==============================================================================================
# rendering
# ==============================================================================================
CARGO_TOML = """[package]
name = "%s"
version = "0.0.0"
edition = "2024"

[dependencies]
bump-scope = { path = "%s" }

[workspace]
"""
PER_MODULE = 250


def write_file(path, text):
    os.makedirs(os.path.dirname(path), exist_ok=True)
    with open(path, "w") as f:
        f.write(text)


def write_cargo_files(cdir, name):
    write_file(os.path.join(cdir, "Cargo.toml"), CARGO_TOML % (name, REPO))
    lock = os.path.join(REPO, "Cargo.lock")
    if os.path.exists(lock):
        shutil.copy(lock, os.path.join(cdir, "Cargo.lock"))


def fn_text(name, case, lines, indent="    "):
    out = ["// %s: %s" % (case.cid, case.desc), "pub fn %s() {" % name]
    depth = 1
    for l in lines:
        s = l.strip()
        d = depth - (1 if s.startswith("}") else 0)
        out.append(indent * max(d, 1) + s)
        depth += s.count("{") - s.count("}")
    out.append("}")
    return out


RUN_DIR = [WORK]  # work/<tier> for check runs


def render_lib_crate(name, items):
    """items: list of (case, 'fail'|'ctrl').  Writes work/<tier>/<name>/ and returns index: file -> [(start, end, case)]"""
    cdir = os.path.join(RUN_DIR[0], name)
    shutil.rmtree(cdir, ignore_errors=True)
    write_cargo_files(cdir, name)
    index = {}
    mods = []
    for mi in range(0, len(items), PER_MODULE):
        mod = "m%03d" % (mi // PER_MODULE)
        mods.append(mod)
        rel = "src/%s.rs" % mod
        lines = ["use super::*;", ""]
        index[rel] = []
        for k, (case, which) in enumerate(items[mi:mi + PER_MODULE]):
            body = case.fail if which == "fail" else case.ctrl
            ft = fn_text("case_%05d" % (mi + k), case, body)
            start = len(lines) + 1
            lines += ft
            end = len(lines)
            lines.append("")
            index[rel].append((start, end, case))
            src = "\n".join(ft)
            if which == "fail":
                case.fail_src, case.fail_loc = src, "%s/%s:%d" % (name, rel, start)
            else:
                case.ctrl_src, case.ctrl_loc = src, "%s/%s:%d" % (name, rel, start)
        write_file(os.path.join(cdir, rel), "\n".join(lines) + "\n")
    write_file(os.path.join(cdir, "src/lib.rs"), LIB_PRELUDE + "\n" + "".join("mod %s;\n" % m for m in mods))
    # The crate is ONE cargo-checkable lib (src/lib.rs); to use all cores the driver compiles it as one rustc
    # invocation per module through these shard roots (same prelude, one `mod`), which report the same spans.
    for m in mods:
        write_file(os.path.join(cdir, "src/shard_%s.rs" % m), LIB_PRELUDE + '\n#[path = "%s.rs"]\nmod %s;\n' % (m, m))
    return cdir, index, ["src/shard_%s.rs" % m for m in mods]


def const_program_text(fns):
    """fns: list of (fn name, case, lines) -> a bin crate whose main reaches every fn (so that it is monomorphised)"""
    out = [CONST_PRELUDE]
    for name, case, lines in fns:
        out += fn_text(name, case, lines)
        out.append("")
    out.append("fn main() {")
    out += ["    %s();" % name for name, _c, _l in fns]
    out.append("}")
    return "\n".join(out) + "\n"


def standalone_text(case, which):
    lines = case.fail if which == "fail" else case.ctrl
    if case.kind in ("const", "constctl"):
        return const_program_text([("case", case, lines)])
    return LIB_PRELUDE + "\n" + "\n".join(fn_text("case", case, lines)) + "\n"


# ==============================================================================================
# driver
# ==============================================================================================
class Rustc:
    def __init__(self):
        self.rlib = None
        self.deps = None
        self.invocations = 0
        self.lock = threading.Lock()
        self.env = dict(os.environ, CARGO_TARGET_DIR=TARGET, CARGO_PROFILE_DEV_DEBUG="0")

    def ensure_dep(self):
        """build bump-scope ONCE (cargo, offline, own target dir); every program is then decided by one direct
        rustc invocation against that rlib"""
        ddir = os.path.join(WORK, "dep")
        write_cargo_files(ddir, "escape-dep")
        write_file(os.path.join(ddir, "src/lib.rs"), "pub fn touch() { let b: bump_scope::Bump = bump_scope::Bump::new(); std::hint::black_box(&b); }\n")
        p = subprocess.run(["cargo", "build", "--offline", "--message-format=json"], cwd=ddir, env=self.env,
                           stdout=subprocess.PIPE, stderr=subprocess.PIPE, text=True)
        rlib = None
        for l in p.stdout.splitlines():
            try:
                m = json.loads(l)
            except ValueError:
                continue
            if m.get("reason") == "compiler-artifact" and m.get("target", {}).get("name") == "bump_scope":
                for f in m.get("filenames", []):
                    if f.endswith(".rlib"):
                        rlib = f
        if p.returncode != 0 or not rlib:
            raise Machinery("building bump-scope from %s failed (rc=%d):\n%s" % (REPO, p.returncode, p.stderr[-3000:]))
        self.rlib, self.deps = rlib, os.path.dirname(rlib)

    def run(self, cwd, src, crate_type, emit, name):
        out = os.path.join(RUN_DIR[0], "out", name)
        os.makedirs(out, exist_ok=True)
        ext = {"metadata": "rmeta", "obj": "o"}[emit]
        cmd = ["rustc", "--edition", "2024", "--crate-type", crate_type, "--crate-name", re.sub(r"\W", "_", name),
               "--emit=" + emit, "-o", os.path.join(out, "out." + ext), "--error-format=json", "-C", "codegen-units=1",
               "-L", "dependency=" + self.deps, "--extern", "bump_scope=" + self.rlib, src]
        with self.lock:
            self.invocations += 1
        p = subprocess.run(cmd, cwd=cwd, stdout=subprocess.PIPE, stderr=subprocess.PIPE, text=True)
        errs = []
        for l in p.stderr.splitlines():
            try:
                m = json.loads(l)
            except ValueError:
                if l.strip():
                    errs.append({"code": "", "msg": "non-JSON compiler output: " + l[:300], "file": None, "line": 0, "rendered": l})
                continue
            if m.get("level") not in ("error", "error: internal compiler error"):
                continue
            if not m.get("spans") and m["message"].startswith("aborting due to"):
                continue
            f, line = primary_location(m)
            errs.append({"code": (m.get("code") or {}).get("code") or "", "msg": m["message"], "file": f, "line": line,
                         "rendered": m.get("rendered") or m["message"]})
        if p.returncode != 0 and not errs:
            errs.append({"code": "", "msg": "rustc failed with rc=%d without a diagnostic" % p.returncode, "file": None, "line": 0,
                         "rendered": p.stderr[-2000:]})
        shutil.rmtree(out, ignore_errors=True)
        return errs


def primary_location(m):
    for sp in m.get("spans", []):
        if not sp.get("is_primary"):
            continue
        while sp is not None and not sp["file_name"].startswith("src/") and sp.get("expansion"):
            sp = sp["expansion"]["span"]
        if sp is not None:
            return sp["file_name"], sp["line_start"]
    return None, 0


def locate(index, e):
    for start, end, case in index.get(e["file"], []):
        if start <= e["line"] <= end:
            return case
    return None


def first_line(e):
    return ("[%s] " % e["code"] if e["code"] else "") + e["msg"].splitlines()[0][:200]


class Report:
    def __init__(self):
        self.viols = []
        self.machinery = []
        self.rejected_ok = 0

    def viol(self, case, crate, msg):
        self.viols.append({"prop": PROP, "cfg": crate, "params": case.params, "history": "%s: %s" % (case.cid, case.desc),
                           "msg": msg, "replay_args": ["--case", case.cid]})


def compile_lib_crate(rc, ex, name, items):
    """renders the crate and submits one rustc invocation per module; returns (index, futures)"""
    cdir, index, roots = render_lib_crate(name, items)
    return index, [ex.submit(rc.run, cdir, root, "lib", "metadata", "%s_%s" % (name, os.path.basename(root)[:-3])) for root in roots]


def decide_fail_crate(rep, name, cases, index, futs, in_class, what):
    owned = {}
    for f in futs:
        for e in f.result():
            c = locate(index, e)
            if c is None or not in_class(e):
                rep.machinery.append("%s: unexpected error %s at %s:%s%s\n%s" % (
                    name, first_line(e), e["file"], e["line"], " (case %s)" % c.cid if c else "", e["rendered"][:1500]))
                continue
            owned.setdefault(c.cid, []).append(e)
    for c in cases:
        if c.cid in owned:
            rep.rejected_ok += 1
            c.verdict = first_line(owned[c.cid][0])
        else:
            rep.viol(c, name, "compiled without a %s error although the value escapes: %s" % (what, c.desc))


def decide_controls(rep, name, index, futs):
    seen = set()
    for f in futs:
        for e in f.result():
            c = locate(index, e)
            if c is None or not is_rejection(e):
                rep.machinery.append("%s: control does not compile for a boring reason: %s at %s:%s%s\n%s" % (
                    name, first_line(e), e["file"], e["line"], " (case %s)" % c.cid if c else "", e["rendered"][:1500]))
            elif c.cid not in seen:
                seen.add(c.cid)
                rep.viol(c, name, "control rejected: the non-escaping twin does not compile: " + first_line(e))


def run_const(rc, name, text):
    cdir = os.path.join(RUN_DIR[0], "const", name)
    write_file(os.path.join(cdir, "main.rs"), text)
    return rc.run(cdir, "main.rs", "bin", "obj", "const_" + name)


def submit_const(rc, ex, fails, ctrls):
    """controls: all permitted conversions / twins in ONE really built bin (only if that fails, one by one);
    must-fail conversions: one rustc --emit=obj each, because the first const-evaluation failure ends the build
    and its span points into the library, not into the case"""
    uniq = {}
    for c in ctrls:
        uniq.setdefault("\n".join(c.ctrl), []).append(c)
    groups = list(uniq.values())
    for i, g in enumerate(groups):
        for c in g:
            c.ctrl_src = "\n".join(fn_text("case_%05d" % i, g[0], g[0].ctrl))
            c.ctrl_loc = "const/controls/main.rs"
    batch = None
    if groups:
        batch = ex.submit(run_const, rc, "controls", const_program_text([("case_%05d" % i, g[0], g[0].ctrl) for i, g in enumerate(groups)]))
    ffuts = []
    for i, c in enumerate(fails):
        c.fail_src, c.fail_loc = "\n".join(fn_text("case", c, c.fail)), "const/fail_%05d/main.rs" % i
        ffuts.append((c, ex.submit(run_const, rc, "fail_%05d" % i, const_program_text([("case", c, c.fail)]))))
    return groups, batch, ffuts


def decide_const(rc, ex, rep, groups, batch, ffuts):
    if batch is not None and batch.result():
        futs = [(g, ex.submit(run_const, rc, "control_%05d" % i, const_program_text([("case", g[0], g[0].ctrl)]))) for i, g in enumerate(groups)]
        for g, f in futs:
            ee = f.result()
            if not ee:
                continue
            if any(is_const_err(e) for e in ee):
                for c in g:
                    rep.viol(c, "const_controls", "control rejected: a permitted program fails const evaluation: " +
                             first_line([e for e in ee if is_const_err(e)][0]))
            else:
                rep.machinery.append("const control %s does not compile for a boring reason: %s\n%s" % (
                    g[0].cid, first_line(ee[0]), ee[0]["rendered"][:1500]))
    for c, f in ffuts:
        ee = f.result()
        good = [e for e in ee if is_const_err(e)]
        bad = [e for e in ee if not is_const_err(e)]
        if bad:
            rep.machinery.append("const_fail %s: unexpected error %s\n%s" % (c.cid, first_line(bad[0]), bad[0]["rendered"][:1500]))
        elif good:
            rep.rejected_ok += 1
            c.verdict = first_line(good[0])
        else:
            rep.viol(c, "const_fail", "compiled (and was code-generated) without a const-evaluation error: " + c.desc)


def pick_samples(cases):
    want = ["B/scoped/r1/alloc", "B/guard/r4/bumpvec_into_slice", "B/bump/r6/alloc_str", "B/pool/r10a/alloc_iter_mut",
            "T/thread/r12/spawn_move_bump.rc", "S/bump.borrow/conv/align_down"]
    by = {c.cid: c for c in cases}
    return [by[w].fail_src for w in want if w in by and by[w].fail_src]


def error_histogram(cases):
    h = {}
    for c in cases:
        v = getattr(c, "verdict", None)
        if v:
            m = re.match(r"\[(E\d+)\]", v)
            k = m.group(1) if m else v[:40]
            h[k] = h.get(k, 0) + 1
    return dict(sorted(h.items()))


def cmd_check(args):
    t0 = time.time()
    tier = args.tier
    jobs = args.jobs or (os.cpu_count() or 4)
    RUN_DIR[0] = os.path.join(WORK, tier)
    rc, rep = Rustc(), Report()
    cases = all_cases(tier)
    rc.ensure_dep()
    bfail = [c for c in cases if c.kind == "borrowck"]
    tfail = [c for c in cases if c.kind == "trait"]
    cfail = [c for c in cases if c.kind == "const"]
    lib_ctrl = [c for c in cases if c.kind in ("borrowck", "trait", "control")]
    const_ctrl = [c for c in cases if c.kind in ("const", "constctl")]
    shutil.rmtree(os.path.join(RUN_DIR[0], "const"), ignore_errors=True)
    with concurrent.futures.ThreadPoolExecutor(jobs) as ex:
        # biggest jobs first
        ci, cf = compile_lib_crate(rc, ex, "controls", [(c, "ctrl") for c in lib_ctrl])
        bi, bf = compile_lib_crate(rc, ex, "borrowck_fail", [(c, "fail") for c in bfail])
        groups, batch, ffuts = submit_const(rc, ex, cfail, const_ctrl)
        ti, tf = compile_lib_crate(rc, ex, "trait_fail", [(c, "fail") for c in tfail])
        decide_fail_crate(rep, "borrowck_fail", bfail, bi, bf, is_borrow_err, "borrow/lifetime")
        decide_fail_crate(rep, "trait_fail", tfail, ti, tf, is_trait_err, "Send/Sync (E0277)")
        decide_controls(rep, "controls", ci, cf)
        decide_const(rc, ex, rep, groups, batch, ffuts)
    if rep.machinery:
        for m in rep.machinery[:40]:
            print("MACHINERY " + m, file=sys.stderr)
        summary = {}
        for m in rep.machinery:
            k = re.sub(r" at src/.*", "", m.splitlines()[0])[:160]
            k = re.sub(r"`[^`]*`", "`_`", k)
            summary[k] = summary.get(k, 0) + 1
        for k, n in sorted(summary.items()):
            print("MACHINERY-SUMMARY %5d x %s" % (n, k), file=sys.stderr)
        print("MACHINERY %d problem(s) in the corpus itself; no verdict" % len(rep.machinery), file=sys.stderr)
        return 2
    for v in rep.viols:
        print("VIOL " + json.dumps(v))
    n_fail = len(bfail) + len(tfail) + len(cfail)
    n_ctrl = len(lib_ctrl) + len(const_ctrl)
    wall = time.time() - t0
    space = {
        "property_id": PROP, "tier": tier, "seed": 0, "level": "other",
        "coverage": {
            "explanation": (
                "The corpus is the cartesian product of allocation-producing expressions (%d) x handle kinds (%d) x the escape routes that are "
                "meaningful for the handle kind, plus thread-sending programs (non-Send base allocators) and every settings conversion through the "
                "six with_settings/borrow(_mut)_with_settings methods and claim(); all programs are safe Rust (#![deny(unsafe_code)]). "
                "Every must-fail program is decided by rustc itself (borrow checker, trait solver, or const evaluation during monomorphisation) "
                "and counts only if it is rejected with an error of the expected class attributed to its own source lines; a must-fail program that "
                "compiles is a violation. Every must-fail program has a control twin differing only in not escaping (use before the escape point, "
                "or the identity/permitted conversion) that must compile, so a rejection is attributable to the escape; a control that is rejected "
                "by the borrow checker, trait solver or a const assert is reported as a violation too, any other compile error aborts the run as a machinery error."
                % (len({c.producer for c in bfail}), len({c.handle for c in bfail}))),
            "programs": n_fail + n_ctrl, "must_fail": n_fail, "borrowck_fail": len(bfail), "controls": n_ctrl,
            "const_fail": len(cfail), "trait_fail": len(tfail),
            "control_only": len([c for c in cases if c.kind in ("control", "constctl")]),
            "evaluations": n_fail + n_ctrl, "distinct_nontrivial": rep.rejected_ok,
            "rule": (borrow_cases.__doc__ + " " + trait_cases.__doc__ + " " + const_cases.__doc__).replace("\n", " "),
            "rejections_by_error": error_histogram(cases),
            "routes": sorted({c.route for c in cases}), "handles": sorted({c.handle for c in cases}),
            "producers": sorted({c.producer for c in bfail}),
            "samples": pick_samples(cases), "exhaustive": True, "rustc_invocations": rc.invocations, "repo": REPO,
        },
        "wall_s": round(wall, 2), "violations": len(rep.viols), "floor": 50, "floor_ok": rep.rejected_ok >= 50,
    }
    space["coverage"]["rule"] = re.sub(r"\s+", " ", space["coverage"]["rule"])
    print("SPACE " + json.dumps(space))
    print("DONE violations=%d" % len(rep.viols))
    return 0


def find_case(cid):
    for tier in (QUICK, THOROUGH):
        for c in all_cases(tier):
            if c.cid == cid:
                return c
    raise Machinery("unknown case id %r (see `gen.py list`)" % cid)


def cmd_show(args):
    c = find_case(args.case)
    print("// case %s  [%s]" % (c.cid, c.params))
    print("// %s" % c.desc)
    if c.fail is not None:
        print("// ---------------- must-fail program ----------------")
        print(standalone_text(c, "fail"))
    print("// ---------------- control%s ----------------" % (" twin (must compile)" if c.fail is not None else " only (must compile)"))
    print(standalone_text(c, "ctrl"))
    return 0


def cmd_replay(args):
    c = find_case(args.case)
    rc = Rustc()
    rc.ensure_dep()
    rdir = os.path.join(WORK, "replay", re.sub(r"\W", "_", c.cid))
    RUN_DIR[0] = rdir
    shutil.rmtree(rdir, ignore_errors=True)
    const = c.kind in ("const", "constctl")
    in_class = {"borrowck": is_borrow_err, "trait": is_trait_err, "const": is_const_err}.get(c.kind)
    res = {}
    for which in ("fail", "ctrl"):
        if which == "fail" and c.fail is None:
            continue
        write_file(os.path.join(rdir, which + ".rs"), standalone_text(c, which))
        res[which] = rc.run(rdir, which + ".rs", "bin" if const else "lib", "obj" if const else "metadata",
                            "replay_%s_%d" % (which, os.getpid()))
    msgs = []
    if "fail" in res:
        good = [e for e in res["fail"] if in_class(e)]
        bad = [e for e in res["fail"] if not in_class(e)]
        if bad:
            raise Machinery("must-fail program of %s has an unexpected error: %s\n%s" % (c.cid, first_line(bad[0]), bad[0]["rendered"]))
        if not good:
            msgs.append("must-fail program compiled without error although the value escapes: " + c.desc)
    bad = [e for e in res["ctrl"] if not is_rejection(e)]
    if bad:
        raise Machinery("control of %s does not compile for a boring reason: %s\n%s" % (c.cid, first_line(bad[0]), bad[0]["rendered"]))
    if res["ctrl"]:
        msgs.append("control rejected: the non-escaping twin does not compile: " + first_line(res["ctrl"][0]))
    if msgs:
        print("REPLAY VIOLATION step=0 msg=" + " ; ".join(msgs))
    else:
        if "fail" in res:
            print("must-fail program rejected: " + first_line([e for e in res["fail"] if in_class(e)][0]))
        print("control compiles")
        print("REPLAY OK")
    return 0


def cmd_list(args):
    for c in all_cases(args.tier):
        print("%s\t%s" % (c.cid, c.desc))
    return 0


def main():
    ap = argparse.ArgumentParser()
    sub = ap.add_subparsers(dest="cmd", required=True)
    a = sub.add_parser("check")
    a.add_argument("--prop", default=PROP)
    a.add_argument("--tier", default=QUICK, choices=[QUICK, THOROUGH])
    a.add_argument("--jobs", type=int, default=0)
    a.add_argument("--secs", default=None)  # accepted and ignored: the corpus is bounded, not timed
    a = sub.add_parser("replay")
    a.add_argument("--prop", default=PROP)
    a.add_argument("--case", required=True)
    a = sub.add_parser("show")
    a.add_argument("--prop", default=PROP)
    a.add_argument("--case", required=True)
    a = sub.add_parser("list")
    a.add_argument("--tier", default=QUICK, choices=[QUICK, THOROUGH])
    args = ap.parse_args()
    if getattr(args, "prop", PROP) != PROP:
        print("this engine only serves %s" % PROP, file=sys.stderr)
        return 2
    try:
        return {"check": cmd_check, "replay": cmd_replay, "show": cmd_show, "list": cmd_list}[args.cmd](args)
    except Machinery as e:
        print("MACHINERY " + str(e), file=sys.stderr)
        return 2


if __name__ == "__main__":
    sys.exit(main())
