fn main() { let b: bump_scope::Bump = bump_scope::Bump::new(); std::hint::black_box(&b); }
